"""C12 translator: regenerates lean/NipyVerif/Gen/C12Source.lean from the *text* of
nipy/algorithms/graph/field.py, forest.py and the `dilation` routine of _graph.pyx.

The tests and update expressions of the local operations are turned into Lean terms (Bool tests over Rat / Int /
Nat, update expressions, list builders) by a small translator over the Python AST; statement sequences whose
order matters are kept as text.  `Props/C12Source.lean` proves - for all arguments - that these terms are what the
model (Model/C12, C12B, C12F) computes with, so an edit of a comparison (`>` for `>=`), a reducer (`max` for
`min`), the self-inclusion of a vertex in its neighbourhood, an index or the order of two calls changes the
generated term and breaks a proof obligation.

Regenerated:
* `_graph.dilation`: start value, loop bounds, the take-over test, the write-back statements;
* `Field.dilation`: dtype test that switches the fast path off, the `E > 0` guard, the neighbourhood of the
  generic path (diagonal added?) and its reducer; `erosion`, `highest_neighbor` likewise; `opening` / `closing`
  call order; `diffusion` (adjacency without diagonal, product order);
* `local_maxima`: threshold test (selection and write-back), initial depth, non-maximum test, depth update, stop
  test, final test and value; `get_local_maxima` selection;
* `custom_watershed` / `threshold_bifurcations`: threshold tests, label start value, `_argmax_within`, the sweep
  order key, the tests and statements of the three branches of the sweep, the `root[root == j] = q` test;
* `constrained_voronoi` edge-length term, `geodesic_kmeans` seed-update term and stop test;
* `Forest.__init__` guards, `check` tests, `define_graph_attributes` builders, `compute_children` / `isleaf` /
  `isroot` tests, `get_children` / `get_descendants` index guards, `subforest` parent rule and renumbering,
  `merge_simple_branches` test, `depth_from_leaves` start / update / stop, `tree_depth`,
  `propagate_upward_and` / `propagate_upward` start, loop count, tests; `all_distances` sentinel.

A source shape the translator does not recognise raises TieBroken.
"""
from __future__ import annotations

import ast
import os
import re
import textwrap
from fractions import Fraction


def _lean_str(s: str) -> str:
    return '"' + s.replace("\\", "\\\\").replace('"', '\\"').replace("\n", "\\n") + '"'


def _strs(xs):
    return "[" + ", ".join(_lean_str(x) for x in xs) + "]"


class _Tr:
    """expression translator: Python AST -> Lean term.  `env` maps source text to a Lean term, `funs` names arrays
    read by subscript (-> function application)."""

    def __init__(self, env, TieBroken, where, ty="Rat", funs=()):
        self.env, self.TieBroken, self.where, self.ty = env, TieBroken, where, ty
        self.funs = dict(funs) if isinstance(funs, dict) else {f: f for f in funs}

    def fail(self, node, why="unsupported"):
        raise self.TieBroken(f"{self.where}: {why}: {ast.unparse(node)}")

    def num(self, v, node):
        if isinstance(v, bool) or not isinstance(v, (int, float)):
            self.fail(node, "non-numeric constant")
        f = Fraction(v)
        if f.denominator != 1:
            if self.ty != "Rat":
                self.fail(node, "fraction in an integer expression")
            return f"(({f.numerator} : Rat) / {f.denominator})"
        if f < 0 and self.ty == "Nat":
            self.fail(node, "negative constant in a natural-number expression")
        return f"({f.numerator} : {self.ty})"

    def tr(self, n):
        src = ast.unparse(n)
        if src in self.env:
            return self.env[src]
        if isinstance(n, ast.Constant):
            return self.num(n.value, n)
        if isinstance(n, ast.UnaryOp) and isinstance(n.op, ast.USub):
            if isinstance(n.operand, ast.Constant):
                return self.num(-n.operand.value, n)
            return f"(-{self.tr(n.operand)})"
        if isinstance(n, ast.Subscript) and ast.unparse(n.value) in self.funs:
            return f"({self.funs[ast.unparse(n.value)]} {self.tr(n.slice)})"
        if isinstance(n, ast.BinOp):
            op = {ast.Add: "+", ast.Sub: "-", ast.Mult: "*"}.get(type(n.op))
            if isinstance(n.op, ast.Pow) and isinstance(n.right, ast.Constant) and n.right.value == 2:
                return f"({self.tr(n.left)} ^ 2)"
            if op is None or (op == "-" and self.ty == "Nat"):
                self.fail(n)
            return f"({self.tr(n.left)} {op} {self.tr(n.right)})"
        if isinstance(n, ast.Call) and not n.keywords:
            f = ast.unparse(n.func)
            if f in ("max", "min", "np.maximum", "np.minimum") and len(n.args) == 2:
                return f"({f.split('.')[-1][:3]} {self.tr(n.args[0])} {self.tr(n.args[1])})"
            if f == "np.absolute" and len(n.args) == 1:
                a = self.tr(n.args[0])
                return f"(if {a} < 0 then -{a} else {a})"
        self.fail(n)

    def test(self, n):
        if isinstance(n, ast.BoolOp):
            op = " || " if isinstance(n.op, ast.Or) else " && "
            return "(" + op.join(self.test(v) for v in n.values) + ")"
        if isinstance(n, ast.Compare) and len(n.ops) == 1:
            r = n.comparators[0]
            if isinstance(r, ast.Constant) and isinstance(r.value, bool) and isinstance(n.ops[0], ast.Eq):
                return f"({self.tr(n.left)} == {'true' if r.value else 'false'})"
            op = {ast.Lt: "<", ast.LtE: "≤", ast.Gt: ">", ast.GtE: "≥", ast.Eq: "=", ast.NotEq: "≠"}.get(type(n.ops[0]))
            if op is None:
                self.fail(n)
            return f"decide ({self.tr(n.left)} {op} {self.tr(r)})"
        self.fail(n, "not a test")


# ----------------------------------------------------------------------------------------------------------
def _walk(n):
    """every node below `n` that has a position, in source order (ast.walk is breadth-first)"""
    return sorted((x for x in ast.walk(n) if hasattr(x, "lineno")), key=lambda x: (x.lineno, x.col_offset))


def _translate(repo, TieBroken):
    def bad(msg):
        raise TieBroken(msg)

    def parse(rel):
        try:
            return ast.parse(open(os.path.join(repo, rel)).read())
        except Exception as e:  # pragma: no cover
            bad(f"{rel} does not parse: {e}")

    def method(tree, cls, name):
        scope = tree
        if cls:
            scope = next((n for n in _walk(tree) if isinstance(n, ast.ClassDef) and n.name == cls), None)
            if scope is None:
                bad(f"class {cls} not found")
        for n in scope.body:
            if isinstance(n, ast.FunctionDef) and n.name == name:
                return n
        bad(f"function {name} not found")

    def assigns(fn, target):
        return [n.value for n in _walk(fn)
                if isinstance(n, ast.Assign) and any(ast.unparse(t) == target for t in n.targets)]

    def one(vals, what):
        if len(vals) != 1:
            bad(f"{what}: {len(vals)} occurrences (one expected)")
        return vals[0]

    def the_assign(fn, target, where):
        return one(assigns(fn, target), f"{where}: assignment of {target}")

    def nodes(fn, kind, pred=lambda n: True):
        return [n for n in _walk(fn) if isinstance(n, kind) and pred(n)]

    def body_src(stmts):
        return [ast.unparse(s) for s in stmts if not (isinstance(s, ast.Expr) and isinstance(s.value, ast.Constant))]

    def diag_added(node, where):
        """adjacency used for the neighbourhoods: is the diagonal added?"""
        src = ast.unparse(node)
        if src == "self.to_coo_matrix()":
            return "false"
        if src == "self.to_coo_matrix() + dia_matrix((np.ones(self.V), 0), (self.V, self.V))":
            return "true"
        bad(f"{where}: unexpected adjacency {src}")

    def reducer(call, where, base, names=("max", "min")):
        """<base>.max(0) / .min(0) / .argmax() -> the take-over test of the running reduction (strict: first wins)"""
        if not (isinstance(call, ast.Call) and isinstance(call.func, ast.Attribute) and call.func.attr in names
                and ast.unparse(call.func.value) == base and not call.keywords):
            bad(f"{where}: unexpected reduction {ast.unparse(call)} (a {'/'.join(names)} of {base} expected)")
        args = [ast.unparse(a) for a in call.args]
        if args != (["0"] if call.func.attr in ("max", "min") else []):
            bad(f"{where}: unexpected arguments of {ast.unparse(call)}")
        return ">" if call.func.attr in ("max", "argmax") else "<"

    fld = parse("nipy/algorithms/graph/field.py")
    frs = parse("nipy/algorithms/graph/forest.py")
    L = ["/- GENERATED by harness/props/c12_translate.py from the text of nipy/algorithms/graph/field.py, forest.py",
         "   and _graph.pyx (`dilation`) - do not edit.  Props/C12Source.lean proves that these are what the model",
         "   implements. -/", "namespace NipyVerif.C12.Gen", ""]
    w = L.append

    # ------------------------------------------------------------------ _graph.pyx: dilation
    try:
        pyx = open(os.path.join(repo, "nipy/algorithms/graph/_graph.pyx")).read()
    except OSError as e:
        bad(f"_graph.pyx: {e}")
    m = re.search(r"^def dilation\(.*?\):\n(.*?)(?=^\S)", pyx + "\nX", re.S | re.M)
    if not m:
        bad("_graph.pyx: def dilation not found")
    body = "\n".join(l for l in m.group(1).split("\n") if not l.strip().startswith("cdef "))
    try:
        pd = ast.parse(textwrap.dedent(body))
    except SyntaxError as e:
        bad(f"_graph.pyx: body of dilation does not parse after removing the cdef lines: {e}")
    loops = nodes(pd, ast.For)
    if [ast.unparse(l.target) for l in loops] != ["d", "i", "j", "i"]:
        bad("_graph.pyx dilation: unexpected loop nest " + str([ast.unparse(l.target) for l in loops]))
    jloop = loops[2]
    if not (isinstance(jloop.iter, ast.Call) and ast.unparse(jloop.iter.func) == "range" and len(jloop.iter.args) == 2):
        bad("_graph.pyx dilation: unexpected inner range " + ast.unparse(jloop.iter))
    t = _Tr({"i": "i"}, TieBroken, "_graph.pyx dilation", ty="Nat", funs=["idx"])
    lo, hi = (t.tr(a) for a in jloop.iter.args)
    if len(jloop.body) != 1 or not isinstance(jloop.body[0], ast.If) or jloop.body[0].orelse:
        bad("_graph.pyx dilation: unexpected inner loop body")
    tk = jloop.body[0]
    nb = "field[neighb[j], d]"
    if body_src(tk.body) != [f"fmax = {nb}"]:
        bad("_graph.pyx dilation: unexpected take-over statement " + str(body_src(tk.body)))
    iloop = loops[1]
    ist = body_src(iloop.body)
    if len(ist) != 3 or ist[0] != "fmax = field[i, d]" or ist[2] != "res[i] = fmax":
        bad("_graph.pyx dilation: unexpected body of the loop over i: " + str(ist))
    wb = body_src(loops[3].body)
    w("/-! ## `_graph.pyx`: `dilation` (the compiled fast path) -/")
    w(f"def pyxStartSrc : String := {_lean_str(ist[0])}")
    w(f"def pyxLoSrc (idx : Nat → Nat) (i : Nat) : Nat := {lo}")
    w(f"def pyxHiSrc (idx : Nat → Nat) (i : Nat) : Nat := {hi}")
    w("/-- the neighbour's value `x` replaces the running maximum -/")
    w(f"def pyxTakeSrc (x fmax : Rat) : Bool := "
      f"{_Tr({nb: 'x', 'fmax': 'fmax'}, TieBroken, '_graph.pyx dilation').test(tk.test)}")
    w(f"def pyxWriteBackSrc : List String := {_strs([ist[2]] + wb)}")
    w(f"def pyxRangesSrc : List String := {_strs([ast.unparse(l.iter) for l in loops])}")
    w("")

    # ------------------------------------------------------------------ Field: morphology
    w("/-! ## `Field`: dilation, erosion, opening, closing, highest_neighbor, diffusion -/")
    fn = method(fld, "Field", "dilation")
    ifs = [n for n in fn.body if isinstance(n, ast.If)]
    if len(ifs) != 2 or ast.unparse(ifs[1].test) != "fast":
        bad("Field.dilation: two top-level tests expected (dtype, fast)")
    if ast.unparse(ifs[0].test) != "self.field.dtype != np.float64" or ifs[0].orelse or \
            [s for s in body_src(ifs[0].body) if not s.startswith("warn(")] != ["fast = False"]:
        bad("Field.dilation: unexpected dtype test " + ast.unparse(ifs[0]))
    w("/-- `if self.field.dtype != np.float64: fast = False` then `if fast:` - does the compiled path run -/")
    w("def dilFastSrc (fast is64 : Bool) : Bool := if is64 != true then false else fast")
    fast_b, slow_b = ifs[1].body, ifs[1].orelse
    g = [n for n in fast_b if isinstance(n, ast.If)]
    if len(g) != 1 or g[0].orelse:
        bad("Field.dilation: fast branch without a single guard")
    w(f"def dilGuardSrc (E : Nat) : Bool := {_Tr({'self.E': 'E'}, TieBroken, 'Field.dilation', ty='Nat').test(g[0].test)}")
    floops = nodes(g[0], ast.For)
    if len(floops) != 1 or ast.unparse(floops[0].iter) != "range(nbiter)" or \
            body_src(floops[0].body) != ["dilation(self.field, idx, neighb)"]:
        bad("Field.dilation: unexpected loop of the fast branch")
    if ast.unparse(the_assign(g[0], "(idx, neighb, _)", "Field.dilation")) != "self.compact_neighb()":
        bad("Field.dilation: idx, neighb do not come from compact_neighb()")
    sl = ast.Module(body=slow_b, type_ignores=[])
    w(f"def dilDiagSrc : Bool := {diag_added(the_assign(sl, 'adj', 'Field.dilation'), 'Field.dilation')}")
    if ast.unparse(the_assign(sl, "rows", "Field.dilation")) != "adj.tolil().rows":
        bad("Field.dilation: unexpected rows")
    sloops = nodes(sl, ast.For)
    if len(sloops) != 1 or ast.unparse(sloops[0].iter) != "range(nbiter)":
        bad("Field.dilation: unexpected loop of the generic branch")
    upd = the_assign(sloops[0], "self.field", "Field.dilation")
    ok = (isinstance(upd, ast.Call) and ast.unparse(upd.func) == "np.array" and len(upd.args) == 1
          and isinstance(upd.args[0], ast.ListComp) and len(upd.args[0].generators) == 1
          and ast.unparse(upd.args[0].generators[0].target) == "row"
          and ast.unparse(upd.args[0].generators[0].iter) == "rows" and not upd.args[0].generators[0].ifs)
    if not ok:
        bad("Field.dilation: unexpected update " + ast.unparse(upd))
    w(f"def dilTakeSrc (x m : Rat) : Bool := decide (x {reducer(upd.args[0].elt, 'Field.dilation', 'self.field[row]')} m)")

    fn = method(fld, "Field", "erosion")
    w(f"def eroDiagSrc : Bool := {diag_added(the_assign(fn, 'adj', 'Field.erosion'), 'Field.erosion')}")
    if ast.unparse(the_assign(fn, "lil", "Field.erosion")) != "adj.tolil().rows.tolist()":
        bad("Field.erosion: unexpected rows")
    el = nodes(fn, ast.For)
    if [ast.unparse(l.iter) for l in el] != ["range(nbiter)", "enumerate(lil)"] or \
            ast.unparse(el[1].target) != "(k, neighbors)":
        bad("Field.erosion: unexpected loops")
    w(f"def eroTakeSrc (x m : Rat) : Bool := decide (x "
      f"{reducer(the_assign(el[1], 'nf[k]', 'Field.erosion'), 'Field.erosion', 'self.field[neighbors]')} m)")
    w(f"def eroStmtsSrc : List String := {_strs(body_src(el[0].body)[:1] + body_src(el[0].body)[-1:])}")

    fn = method(fld, "Field", "highest_neighbor")
    w(f"def hnDiagSrc : Bool := {diag_added(the_assign(fn, 'adj', 'highest_neighbor'), 'highest_neighbor')}")
    hn = the_assign(fn, "hneighb", "highest_neighbor")
    ok = (isinstance(hn, ast.Call) and ast.unparse(hn.func) == "np.array" and isinstance(hn.args[0], ast.ListComp)
          and ast.unparse(hn.args[0].generators[0].target) == "row"
          and ast.unparse(hn.args[0].generators[0].iter) == "rows"
          and isinstance(hn.args[0].elt, ast.Subscript) and ast.unparse(hn.args[0].elt.value) == "row")
    if not ok:
        bad("highest_neighbor: unexpected expression " + ast.unparse(hn))
    w("/-- `row[self.field[row, refdim].argmax()]`: a later member of the row replaces the best so far -/")
    w(f"def hnTakeSrc (x best : Rat) : Bool := decide (x "
      f"{reducer(hn.args[0].elt.slice, 'highest_neighbor', 'self.field[row, refdim]', ('argmax', 'argmin'))} best)")

    for nm in ("opening", "closing"):
        fn = method(fld, "Field", nm)
        calls = [s for s in body_src(fn.body) if s != "nbiter = int(nbiter)"]
        seq = []
        for s in calls:
            mm = re.fullmatch(r"self\.(\w+)\(nbiter\)", s)
            if not mm:
                bad(f"Field.{nm}: unexpected statement {s}")
            seq.append(mm.group(1))
        w(f"def {nm}SeqSrc : List String := {_strs(seq)}")

    fn = method(fld, "Field", "diffusion")
    w(f"def diffDiagSrc : Bool := {diag_added(the_assign(fn, 'adj', 'Field.diffusion'), 'Field.diffusion')}")
    dl = nodes(fn, ast.For)
    if len(dl) != 1 or ast.unparse(dl[0].iter) != "range(nbiter)":
        bad("Field.diffusion: unexpected loop")
    w(f"def diffStepSrc : List String := {_strs(body_src(dl[0].body))}")
    w("")

    fn = method(fld, "Field", "subfield")
    w(f"def subfieldSrc : List String := {_strs([x.split(chr(10))[0] for x in body_src(fn.body)])}")
    fn = method(fld, "Field", "copy")
    w(f"def copySrc : List String := {_strs(body_src(fn.body))}")
    fn = method(fld, "Field", "set_field")
    w(f"def setFieldSrc : List String := {_strs([x.split(chr(10))[0] for x in body_src(fn.body)])}")
    w("")

    # ------------------------------------------------------------------ thresholds
    def thresh(fn, where, mask_target):
        """the selection `self.subfield(<col> >= th)` and the write-back mask must be the same test"""
        sf = the_assign(fn, "sf", where)
        if not (isinstance(sf, ast.Call) and ast.unparse(sf.func) == "self.subfield" and len(sf.args) == 1):
            bad(f"{where}: sf is not self.subfield(...)")
        sel = sf.args[0]
        wbs = [n.targets[0].slice for n in _walk(fn) if isinstance(n, ast.Assign)
               and isinstance(n.targets[0], ast.Subscript) and ast.unparse(n.targets[0].value) == mask_target
               and isinstance(n.targets[0].slice, ast.Compare)]
        wbm = one(wbs, f"{where}: masked write-back into {mask_target}")
        out = []
        for node in (sel, wbm):
            if not (isinstance(node, ast.Compare) and len(node.ops) == 1 and
                    ast.unparse(node.left) in ("self.field.T[refdim]", "self.field[:, refdim]") and
                    ast.unparse(node.comparators[0]) == "th"):
                bad(f"{where}: unexpected threshold test {ast.unparse(node)}")
            out.append(_Tr({ast.unparse(node.left): "x", "th": "th"}, TieBroken, where).test(node))
        return out

    w("/-! ## `local_maxima`, `get_local_maxima` -/")
    fn = method(fld, "Field", "local_maxima")
    sel, wbk = thresh(fn, "local_maxima", "depth")
    w(f"def lmaxThreshSrc (x th : Rat) : Bool := {sel}")
    w(f"def lmaxWriteSrc (x th : Rat) : Bool := {wbk}")
    w(f"def lmaxStartSrc (V : Nat) : Nat := "
      f"{_Tr({'sf.V': 'V', 'np.ones(sf.V, np.int_)': '1'}, TieBroken, 'local_maxima', ty='Nat').tr(the_assign(fn, 'ldepth', 'local_maxima'))}")
    lp = one(nodes(fn, ast.For), "local_maxima: loop")
    if ast.unparse(lp.iter) != "range(sf.V)" or ast.unparse(lp.target) != "k":
        bad("local_maxima: unexpected loop " + ast.unparse(lp.iter))
    st = body_src(lp.body)
    if st[:2] != ["dilated_field_old = sf.field.ravel().copy()", "sf.dilation(1)"] or len(lp.body) != 5:
        bad("local_maxima: unexpected loop body " + str(st))
    nm_ = the_assign(lp, "non_max", "local_maxima")
    w(f"def lmaxNonMaxSrc (new old : Rat) : Bool := "
      f"{_Tr({'sf.field.ravel()': 'new', 'dilated_field_old': 'old'}, TieBroken, 'local_maxima').test(nm_)}")
    w(f"def lmaxUpdSrc (k ld : Nat) : Nat := "
      f"{_Tr({'k': 'k', 'ldepth[non_max]': 'ld'}, TieBroken, 'local_maxima', ty='Nat').tr(the_assign(lp, 'ldepth[non_max]', 'local_maxima'))}")
    stop = lp.body[4]
    if not isinstance(stop, ast.If) or stop.orelse or len(stop.body) != 2 or not isinstance(stop.body[1], ast.Break):
        bad("local_maxima: unexpected stop statement")
    w(f"def lmaxStopSrc : String := {_lean_str(ast.unparse(stop.test))}")
    fin = stop.body[0]
    if not (isinstance(fin, ast.Assign) and isinstance(fin.targets[0], ast.Subscript)
            and ast.unparse(fin.targets[0].value) == "ldepth"):
        bad("local_maxima: unexpected final assignment")
    w(f"def lmaxFinalTestSrc (cur init : Rat) : Bool := "
      f"{_Tr({'sf.field.ravel()': 'cur', 'initial_field': 'init'}, TieBroken, 'local_maxima').test(fin.targets[0].slice)}")
    w(f"def lmaxFinalValSrc (k : Nat) : Nat := {_Tr({'k': 'k'}, TieBroken, 'local_maxima', ty='Nat').tr(fin.value)}")
    w(f"def lmaxLoopSrc : List String := {_strs(st[:2] + [ast.unparse(the_assign(fn, 'initial_field', 'local_maxima'))])}")
    fn = method(fld, "Field", "get_local_maxima")
    w(f"def glmaxSrc : List String := {_strs(body_src(fn.body))}")
    w("")

    w("/-! ## `custom_watershed`, `threshold_bifurcations`, `_argmax_within` -/")
    fn = method(fld, "Field", "custom_watershed")
    sel, wbk = thresh(fn, "custom_watershed", "label")
    w(f"def wsThreshSrc (x th : Rat) : Bool := {sel}")
    w(f"def wsWriteSrc (x th : Rat) : Bool := {wbk}")
    w(f"def wsStartSrc : Int := "
      f"{_Tr({'np.ones(self.V, np.int_)': '(1 : Int)'}, TieBroken, 'custom_watershed', ty='Int').tr(the_assign(fn, 'label', 'custom_watershed'))}")
    w(f"def wsIdxSrc : String := {_lean_str(ast.unparse(the_assign(fn, 'idx', 'custom_watershed')))}")
    w(f"def wsBasinsSrc : List String := "
      f"{_strs([ast.unparse(the_assign(fn, t_, 'custom_watershed')) for t_ in ('hneighb', 'aux', 'llabel', 'n_bassins')] + [ast.unparse(v) for v in assigns(fn, 'edges')])}")
    fn = method(fld, None, "_argmax_within")
    am = one([n for n in fn.body if isinstance(n, ast.Return)], "_argmax_within: return").value
    if ast.unparse(the_assign(fn, "inds", "_argmax_within")) != "np.nonzero(members)[0]" or not (
            isinstance(am, ast.Subscript) and ast.unparse(am.value) == "inds"):
        bad("_argmax_within: unexpected shape")
    red = am.slice
    if not (isinstance(red, ast.Call) and ast.unparse(red.func) in ("np.argmax", "np.argmin")
            and [ast.unparse(a) for a in red.args] == ["values[inds]"] and not red.keywords):
        bad("_argmax_within: unexpected reduction " + ast.unparse(red))
    w("/-- `inds[np.argmax(values[inds])]`: a later member replaces the best so far -/")
    w(f"def argmaxWithinTakeSrc (x best : Rat) : Bool := decide (x {'>' if ast.unparse(red.func) == 'np.argmax' else '<'} best)")

    fn = method(fld, "Field", "threshold_bifurcations")
    sel, wbk = thresh(fn, "threshold_bifurcations", "label")
    w(f"def bifThreshSrc (x th : Rat) : Bool := {sel}")
    w(f"def bifWriteSrc (x th : Rat) : Bool := {wbk}")
    w(f"def bifIdxSrc : String := {_lean_str(ast.unparse(the_assign(fn, 'idx', 'threshold_bifurcations')))}")
    order = the_assign(fn, "order", "threshold_bifurcations")
    if not (isinstance(order, ast.Call) and ast.unparse(order.func) == "np.argsort" and len(order.args) == 1
            and not order.keywords):
        bad("threshold_bifurcations: order is not np.argsort(<key>)")
    w("/-- the key `np.argsort` sorts increasingly (`x` = the float64 value of the field) -/")
    w(f"def bifOrderKeySrc (x : Rat) : Rat := "
      f"{_Tr({'initial_field.astype(np.float64)': 'x', 'initial_field': 'x'}, TieBroken, 'threshold_bifurcations').tr(order.args[0])}")
    w(f"def bifRowsSrc : String := {_lean_str(ast.unparse(the_assign(fn, 'rows', 'threshold_bifurcations')))}")
    w(f"def bifTablesSrc : List String := "
      f"{_strs([ast.unparse(the_assign(fn, 'llabel', 'threshold_bifurcations')), ast.unparse(the_assign(fn, '(parent, root)', 'threshold_bifurcations')), ast.unparse(assigns(fn, 'q')[0]) if assigns(fn, 'q') else '<absent>', ast.unparse(the_assign(fn, 'parent', 'threshold_bifurcations'))])}")
    lp = one(nodes(fn, ast.For, lambda n: ast.unparse(n.iter) == "order"), "threshold_bifurcations: sweep")
    if len(lp.body) != 1 or not isinstance(lp.body[0], ast.If):
        bad("threshold_bifurcations: unexpected sweep body")
    top = lp.body[0]
    tt = top.test
    if not (isinstance(tt, ast.Call) and isinstance(tt.func, ast.Attribute) and tt.func.attr == "any"
            and not tt.args and isinstance(tt.func.value, ast.Compare)
            and ast.unparse(tt.func.value.left) == "llabel[rows[i]]"):
        bad("threshold_bifurcations: unexpected test of the sweep " + ast.unparse(tt))
    ti = _Tr({"llabel[rows[i]]": "l", "nlabel[0]": "l", "len(nlabel)": "n", "root": "r", "j": "j"}, TieBroken,
             "threshold_bifurcations", ty="Int")
    w("/-- `(llabel[rows[i]] > -1).any()`: a neighbour with label `l` is already labelled -/")
    w(f"def bifLabelledSrc (l : Int) : Bool := {ti.test(tt.func.value)}")
    inner = top.body
    if len(inner) != 4 or [ast.unparse(s.targets[0]) if isinstance(s, ast.Assign) else "" for s in inner[::2]] != \
            ["nlabel", "nlabel"] or not isinstance(inner[1], ast.If) or not isinstance(inner[3], ast.If):
        bad("threshold_bifurcations: unexpected labelled branch " + str(body_src(inner)))
    if ast.unparse(inner[0].value) != "np.unique(llabel[rows[i]])" or ast.unparse(inner[2].value) != "np.unique(root[nlabel])" \
            or body_src(inner[1].body) != ["nlabel = nlabel[1:]"] or inner[1].orelse:
        bad("threshold_bifurcations: unexpected computation of nlabel")
    w(f"def bifDropSrc (l : Int) : Bool := {ti.test(inner[1].test)}")
    w(f"def bifNlabelSrc : List String := {_strs([ast.unparse(inner[0].value), ast.unparse(inner[2].value)])}")
    tn = _Tr({"len(nlabel)": "n", "root": "r", "j": "j"}, TieBroken, "threshold_bifurcations", ty="Nat")
    w(f"def bifRegularSrc (n : Nat) : Bool := {tn.test(inner[3].test)}")
    w(f"def bifRegularStmtsSrc : List String := {_strs(body_src(inner[3].body))}")
    sad = inner[3].orelse
    w(f"def bifSaddleStmtsSrc : List String := {_strs(body_src(sad))}")
    w(f"def bifNewStmtsSrc : List String := {_strs(body_src(top.orelse))}")
    rr = [n.targets[0].slice for n in _walk(ast.Module(body=sad, type_ignores=[])) if isinstance(n, ast.Assign)
          and isinstance(n.targets[0], ast.Subscript) and isinstance(n.targets[0].slice, ast.Compare)
          and ast.unparse(n.targets[0].value) == "root"]
    w("/-- `root[root == j] = q`: the entries with root `r` that are re-rooted -/")
    w(f"def bifRerootSrc (r j : Nat) : Bool := {tn.test(one(rr, 'threshold_bifurcations: re-rooting'))}")
    w("")

    # ------------------------------------------------------------------ voronoi / kmeans
    w("/-! ## `constrained_voronoi`, `geodesic_kmeans` -/")
    fn = method(fld, "Field", "constrained_voronoi")
    wt = the_assign(fn, "weights", "constrained_voronoi")
    ok = (isinstance(wt, ast.Call) and ast.unparse(wt.func) == "np.sqrt" and len(wt.args) == 1
          and isinstance(wt.args[0], ast.Call) and ast.unparse(wt.args[0].func) == "np.sum"
          and len(wt.args[0].args) == 2 and ast.unparse(wt.args[0].args[1]) == "1")
    if not ok:
        bad("constrained_voronoi: weights is not np.sqrt(np.sum(<term>, 1))")
    w("/-- per-feature term of the squared edge length (`a`, `b` = the float64 values at the two ends) -/")
    w(f"def vorTermSrc (a b : Rat) : Rat := "
      f"{_Tr({'field[self.edges.T[0]]': 'a', 'field[self.edges.T[1]]': 'b'}, TieBroken, 'constrained_voronoi').tr(wt.args[0].args[0])}")
    w(f"def vorSrc : List String := "
      f"{_strs([ast.unparse(the_assign(fn, 'field', 'constrained_voronoi')), ast.unparse(the_assign(fn, 'g', 'constrained_voronoi')), ast.unparse(assigns(fn, 'label')[-1])])}")
    fn = method(fld, "Field", "geodesic_kmeans")
    main = one([l for l in nodes(fn, ast.For) if ast.unparse(l.iter) == "range(maxiter)"], "geodesic_kmeans: main loop")
    brk = one([n for n in main.body if isinstance(n, ast.If) and any(isinstance(s, ast.Break) for s in n.body)],
              "geodesic_kmeans: stop test")
    w(f"def gkmStopSrc (old new eps : Rat) : Bool := "
      f"{_Tr({'inertia_old': 'old', 'inertia': 'new', 'eps': 'eps'}, TieBroken, 'geodesic_kmeans').test(brk.test)}")
    tj = assigns(main, "tj")
    tj = one(tj, "geodesic_kmeans: tj")
    ok = (isinstance(tj, ast.Call) and ast.unparse(tj.func) in ("np.argmin", "np.argmax") and len(tj.args) == 1
          and isinstance(tj.args[0], ast.Call) and ast.unparse(tj.args[0].func) == "np.sum")
    if not ok:
        bad("geodesic_kmeans: unexpected seed update " + ast.unparse(tj))
    w(f"def gkmTermSrc (c x : Rat) : Rat := "
      f"{_Tr({'cent': 'c', 'self.field[lj]': 'x'}, TieBroken, 'geodesic_kmeans').tr(tj.args[0].args[0])}")
    w(f"def gkmPickSrc (x best : Rat) : Bool := decide (x {'<' if ast.unparse(tj.func) == 'np.argmin' else '>'} best)")
    w(f"def gkmSrc : List String := {_strs([ast.unparse(the_assign(main, 'label', 'geodesic_kmeans')), ast.unparse(the_assign(main, 'cent', 'geodesic_kmeans')), ast.unparse(the_assign(main, 'seeds[j]', 'geodesic_kmeans'))])}")
    w("")

    # ------------------------------------------------------------------ Forest
    w("/-! ## `Forest` -/")
    fn = method(frs, "Forest", "__init__")
    raises = []
    for n in _walk(fn):
        if isinstance(n, ast.If) and any(isinstance(s, ast.Raise) for s in n.body):
            raises.append(n.test)
    if [ast.unparse(r) for r in raises][0::3] != ["V < 1", "self.check() == 0"] or len(raises) != 4:
        bad("Forest.__init__: unexpected guards " + str([ast.unparse(r) for r in raises]))
    ti = _Tr({"V": "V", "self.V": "V", "np.size(parents)": "n", "parents.min()": "mn", "parents.max()": "mx"},
             TieBroken, "Forest.__init__", ty="Int")
    w(f"def ctorNoVertexSrc (V : Int) : Bool := {ti.test(raises[0])}")
    w(f"def ctorSizeBadSrc (n V : Int) : Bool := {ti.test(raises[1])}")
    w(f"def ctorRangeBadSrc (mn mx V : Int) : Bool := {ti.test(raises[2])}")
    w(f"def ctorCheckSrc : String := {_lean_str(ast.unparse(raises[3]))}")
    w(f"def ctorOrderSrc : List String := {_strs([s for s in body_src(fn.body) if s.startswith(('self.define', 'self.children', 'if self.check'))][:3] and [ast.unparse(s).split(chr(10))[0] for s in fn.body[-3:]])}")

    fn = method(frs, "Forest", "check")
    wl = one(nodes(fn, ast.While), "check: while")
    tn = _Tr({"self.parents[w]": "pw", "w": "w", "v": "v", "q": "q", "self.V": "V"}, TieBroken, "Forest.check", ty="Nat")
    w(f"def checkTrivialSrc (V : Nat) : Bool := {tn.test(one([n.test for n in fn.body if isinstance(n, ast.If)], 'check: V == 1'))}")
    w("/-- `while self.parents[w] != w` -/")
    w(f"def checkGoOnSrc (pw w : Nat) : Bool := {tn.test(wl.test)}")
    wb_ = wl.body
    if len(wb_) != 4 or body_src(wb_[:1]) != ["w = self.parents[w]"] or body_src(wb_[2:3]) != ["q += 1"] \
            or not all(isinstance(wb_[k], ast.If) and body_src(wb_[k].body) == ["b = 0", "break"] for k in (1, 3)):
        bad("Forest.check: unexpected loop body " + str(body_src(wb_)))
    w("/-- after `w = self.parents[w]`: back at the start -/")
    w(f"def checkCycleSrc (w v : Nat) : Bool := {tn.test(wb_[1].test)}")
    w("/-- after `q += 1` -/")
    w(f"def checkOverrunSrc (q V : Nat) : Bool := {tn.test(wb_[3].test)}")
    w(f"def checkStartSrc : List String := {_strs(body_src(one(nodes(fn, ast.For), 'check: for').body)[:2])}")

    fn = method(frs, "Forest", "define_graph_attributes")
    iv = the_assign(fn, "i", "define_graph_attributes")
    ok = (isinstance(iv, ast.Subscript) and ast.unparse(iv.slice) == "0" and isinstance(iv.value, ast.Call)
          and ast.unparse(iv.value.func) == "np.nonzero" and isinstance(iv.value.args[0], ast.Compare))
    if not ok:
        bad("define_graph_attributes: unexpected selection " + ast.unparse(iv))
    tn = _Tr({"self.parents": "pi", "np.arange(self.V)": "i"}, TieBroken, "define_graph_attributes", ty="Nat")
    w("/-- `np.nonzero(self.parents != np.arange(self.V))[0]` -/")
    w(f"def nonRootSrc (pi i : Nat) : Bool := {tn.test(iv.value.args[0])}")

    def hstack(node, env, where):
        if not (isinstance(node, ast.Call) and ast.unparse(node.func) == "np.hstack" and len(node.args) == 1
                and isinstance(node.args[0], ast.Tuple)):
            bad(f"{where}: not an np.hstack((..)): {ast.unparse(node)}")
        out = []
        for e in node.args[0].elts:
            s = ast.unparse(e)
            if s not in env:
                bad(f"{where}: unexpected block {s}")
            out.append(env[s])
        return "(" + " ++ ".join(out) + ")"
    env = {"i": "i", "self.parents[i]": "pi"}
    w(f"def edgeE1Src (i pi : List Nat) : List Nat := {hstack(the_assign(fn, 'E1', 'define_graph_attributes'), env, 'define_graph_attributes')}")
    w(f"def edgeE2Src (i pi : List Nat) : List Nat := {hstack(the_assign(fn, 'E2', 'define_graph_attributes'), env, 'define_graph_attributes')}")
    ed = [ast.unparse(v) for v in assigns(fn, "self.edges")]
    if "np.vstack((E1, E2)).astype(np.int_).T" not in ed:
        bad("define_graph_attributes: edges are not np.vstack((E1, E2)).T: " + str(ed))
    env = {"np.ones(np.size(i))": "List.replicate n (1 : Int)", "-np.ones(np.size(i))": "List.replicate n (-1 : Int)"}
    w(f"def edgeWeightsSrc (n : Nat) : List Int := {hstack(assigns(fn, 'self.weights')[-1], env, 'define_graph_attributes')}")
    w(f"def edgeCountSrc : String := {_lean_str(ast.unparse(the_assign(fn, 'self.E', 'define_graph_attributes')))}")

    fn = method(frs, "Forest", "compute_children")
    rm = [n for n in _walk(fn) if isinstance(n, ast.Call) and ast.unparse(n.func) == "K.remove_edges"]
    rm = one(rm, "compute_children: remove_edges")
    ti = _Tr({"K.weights": "w", "self.weights": "w"}, TieBroken, "compute_children", ty="Int")
    w("/-- `K.remove_edges(<test>)` keeps the edges for which the test holds -/")
    w(f"def childEdgeSrc (w : Int) : Bool := {ti.test(rm.args[0])}")
    w(f"def childRowsSrc : String := {_lean_str(ast.unparse(assigns(fn, 'self.children')[-1]))}")
    fn = method(frs, "Forest", "isleaf")
    lf = [n for n in _walk(fn) if isinstance(n, ast.Assign) and ast.unparse(n.targets[0]).startswith("leaves[")]
    lf = one(lf, "isleaf: assignment")
    sub = lf.targets[0].slice
    ok = (isinstance(sub, ast.Subscript) and ast.unparse(sub.value) == "self.edges" and isinstance(sub.slice, ast.Tuple)
          and len(sub.slice.elts) == 2 and isinstance(sub.slice.elts[1], ast.Constant) and ast.unparse(lf.value) == "0")
    if not ok:
        bad("isleaf: unexpected assignment " + ast.unparse(lf))
    w(f"def leafEdgeSrc (w : Int) : Bool := {ti.test(sub.slice.elts[0])}")
    w(f"def leafColSrc : Nat := {int(sub.slice.elts[1].value)}")
    w(f"def leafStartSrc : String := {_lean_str(ast.unparse(the_assign(fn, 'leaves', 'isleaf')))}")
    fn = method(frs, "Forest", "isroot")
    rt = the_assign(fn, "roots", "isroot")
    if not (isinstance(rt, ast.Call) and ast.unparse(rt.func) == "np.array" and isinstance(rt.args[0], ast.Compare)):
        bad("isroot: unexpected expression")
    w(f"def isRootSrc (pv v : Nat) : Bool := "
      f"{_Tr({'self.parents': 'pv', 'np.arange(self.V)': 'v'}, TieBroken, 'isroot', ty='Nat').test(rt.args[0])}")

    ti = _Tr({"v": "v", "self.V": "V"}, TieBroken, "get_children", ty="Int")
    fn = method(frs, "Forest", "get_children")
    gi = [n for n in _walk(fn) if isinstance(n, ast.If) and any(isinstance(s, ast.Raise) for s in n.body)]
    w(f"def childIndexHighSrc (v V : Int) : Bool := {ti.test(one(gi, 'get_children: guard').test)}")
    w(f"def childAllSrc (v : Int) : Bool := {ti.test(one([n.test for n in fn.body if isinstance(n, ast.If) and n.orelse], 'get_children: v == -1'))}")
    fn = method(frs, "Forest", "get_descendants")
    gi = [n.test for n in fn.body if isinstance(n, ast.If) and any(isinstance(s, ast.Raise) for s in n.body)]
    if len(gi) != 2:
        bad("get_descendants: two index guards expected")
    w(f"def descIndexLowSrc (v : Int) : Bool := {ti.test(gi[0])}")
    w(f"def descIndexHighSrc (v V : Int) : Bool := {ti.test(gi[1])}")
    w(f"def descSrc : List String := {_strs([ast.unparse(n) for n in _walk(fn) if isinstance(n, ast.Return)] + [ast.unparse(n.value) for n in _walk(fn) if isinstance(n, ast.Expr) and not isinstance(n.value, ast.Constant)])}")

    fn = method(frs, "Forest", "subforest")
    jv = the_assign(fn, "j", "subforest")
    ok = (isinstance(jv, ast.Subscript) and isinstance(jv.value, ast.Call) and ast.unparse(jv.value.func) == "np.nonzero"
          and isinstance(jv.value.args[0], ast.Compare))
    if not ok or ast.unparse(assigns(fn, "parents[j]")[0] if assigns(fn, "parents[j]") else fn) != "j":
        bad("subforest: unexpected detachment rule")
    tn = _Tr({"valid[self.parents]": "(if validP then 1 else 0)"}, TieBroken, "subforest", ty="Nat")
    w("/-- `parents[np.nonzero(valid[self.parents] == 0)[0]] = j`: the node becomes its own parent -/")
    w(f"def subDetachSrc (validP : Bool) : Bool := {tn.test(jv.value.args[0])}")
    ps_ = [ast.unparse(v) for v in assigns(fn, "parents")]
    w(f"def subStmtsSrc : List String := {_strs(ps_ + [ast.unparse(the_assign(fn, 'renumb', 'subforest')), ast.unparse(the_assign(fn, 'F', 'subforest'))])}")
    fn = method(frs, "Forest", "merge_simple_branches")
    mt = one([n for n in _walk(fn) if isinstance(n, ast.If)], "merge_simple_branches: test")
    if body_src(mt.body) != ["valid[k] = 0"]:
        bad("merge_simple_branches: unexpected body")
    w(f"def mergeDropSrc (n : Nat) : Bool := {_Tr({'np.size(children[k])': 'n'}, TieBroken, 'merge_simple_branches', ty='Nat').test(mt.test)}")
    w(f"def mergeSrc : List String := {_strs([ast.unparse(the_assign(fn, 'valid', 'merge_simple_branches')), ast.unparse(the_assign(fn, 'children', 'merge_simple_branches')), ast.unparse(one([n for n in _walk(fn) if isinstance(n, ast.Return)], 'merge: return'))])}")

    fn = method(frs, "Forest", "depth_from_leaves")
    ti = _Tr({"self.isleaf().astype(np.int_)": "(if leaf then 1 else 0)", "depth[i]": "di", "depth[self.parents[i]]": "dp"},
             TieBroken, "depth_from_leaves", ty="Int")
    w(f"def depthStartSrc (leaf : Bool) : Int := {ti.tr(assigns(fn, 'depth')[0])}")
    dl = nodes(fn, ast.For)
    if [ast.unparse(l.iter) for l in dl] != ["range(self.V)", "range(self.V)"]:
        bad("depth_from_leaves: unexpected loops")
    di = one([n for n in dl[1].body if isinstance(n, ast.If)], "depth_from_leaves: guard")
    w(f"def depthGuardSrc (pi i : Nat) : Bool := {_Tr({'self.parents[i]': 'pi', 'i': 'i'}, TieBroken, 'depth_from_leaves', ty='Nat').test(di.test)}")
    w(f"def depthUpdSrc (di dp : Int) : Int := {ti.tr(the_assign(di, 'depth[self.parents[i]]', 'depth_from_leaves'))}")
    dstop = one([n for n in dl[0].body if isinstance(n, ast.If)], "depth_from_leaves: stop")
    w(f"def depthStopSrc : List String := {_strs([ast.unparse(the_assign(dl[0], 'dc', 'depth_from_leaves')), ast.unparse(dstop.test)] + body_src(dstop.body))}")
    fn = method(frs, "Forest", "tree_depth")
    w(f"def treeDepthSrc (m : Int) : Int := "
      f"{_Tr({'depth.max()': 'm'}, TieBroken, 'tree_depth', ty='Int').tr(one([n for n in fn.body if isinstance(n, ast.Return)], 'tree_depth: return').value)}")

    fn = method(frs, "Forest", "propagate_upward_and")
    st0 = one([n for n in fn.body if isinstance(n, ast.Assign) and ast.unparse(n.targets[0]).startswith("prop[")],
              "propagate_upward_and: start")
    if ast.unparse(st0.value) != "True" or not isinstance(st0.targets[0].slice, ast.Compare):
        bad("propagate_upward_and: unexpected start")
    tb = _Tr({"self.isleaf()": "leaf", "prop[i]": "pi"}, TieBroken, "propagate_upward_and", ty="Bool")
    w("/-- `prop[self.isleaf() == False] = True` -/")
    w(f"def pandStartSrc (leaf prop : Bool) : Bool := if {tb.test(st0.targets[0].slice)} then true else prop")
    pl = nodes(fn, ast.For)
    if [ast.unparse(l.iter) for l in pl] != ["range(self.tree_depth())", "range(self.V)"]:
        bad("propagate_upward_and: unexpected loops " + str([ast.unparse(l.iter) for l in pl]))
    pt = one([n for n in pl[1].body if isinstance(n, ast.If)], "propagate_upward_and: test")
    if body_src(pt.body) != ["prop[self.parents[i]] = False"]:
        bad("propagate_upward_and: unexpected update " + str(body_src(pt.body)))
    w(f"def pandTestSrc (pi : Bool) : Bool := {tb.test(pt.test)}")
    fn = method(frs, "Forest", "propagate_upward")
    pl = nodes(fn, ast.For)
    if [ast.unparse(l.iter) for l in pl] != ["range(1, depth.max() + 1)", "range(self.V)"]:
        bad("propagate_upward: unexpected loops " + str([ast.unparse(l.iter) for l in pl]))
    pts = [n for n in _walk(pl[1]) if isinstance(n, ast.If)]
    if len(pts) != 2 or body_src(pts[1].body) != ["label[i] = np.unique(label[ch[i]])[0]"]:
        bad("propagate_upward: unexpected tests")
    w(f"def pupLevelSrc (di j : Int) : Bool := {_Tr({'depth[i]': 'di', 'j': 'j'}, TieBroken, 'propagate_upward', ty='Int').test(pts[0].test)}")
    w(f"def pupSingleSrc (n : Nat) : Bool := {_Tr({'np.size(np.unique(label[ch[i]]))': 'n'}, TieBroken, 'propagate_upward', ty='Nat').test(pts[1].test)}")
    w(f"def pupSrc : List String := {_strs([ast.unparse(the_assign(fn, 'ch', 'propagate_upward')), ast.unparse(the_assign(fn, 'depth', 'propagate_upward'))] + body_src(pts[1].body))}")

    fn = method(frs, "Forest", "reorder_from_leaves_to_roots")
    rl = one(nodes(fn, ast.For), "reorder_from_leaves_to_roots: loop")
    if ast.unparse(rl.iter) != "range(self.V)" or ast.unparse(rl.target) != "i" or len(rl.body) != 1 or not (
            isinstance(rl.body[0], ast.Assign) and isinstance(rl.body[0].targets[0], ast.Subscript)
            and ast.unparse(rl.body[0].targets[0].value) == "iorder"):
        bad("reorder_from_leaves_to_roots: unexpected loop " + ast.unparse(rl))
    if ast.unparse(the_assign(fn, "iorder", "reorder_from_leaves_to_roots")) != "np.arange(self.V)":
        bad("reorder_from_leaves_to_roots: iorder does not start as arange(V)")
    tn = _Tr({"i": "i"}, TieBroken, "reorder_from_leaves_to_roots", ty="Nat", funs=["order"])
    w("/-- `iorder[<slot>] = <value>` for `i = 0 .. V-1`, starting from `arange(V)` -/")
    w(f"def reorderSlotSrc (order : Nat → Nat) (i : Nat) : Nat := {tn.tr(rl.body[0].targets[0].slice)}")
    w(f"def reorderValSrc (i : Nat) : Nat := {tn.tr(rl.body[0].value)}")
    tn = _Tr({"order": "(order i)"}, TieBroken, "reorder_from_leaves_to_roots", ty="Nat",
             funs={"iorder": "iorder", "self.parents": "p"})
    w("/-- entry `i` of the new parent array -/")
    w(f"def reorderParentSrc (iorder p order : Nat → Nat) (i : Nat) : Nat := "
      f"{tn.tr(the_assign(fn, 'parents', 'reorder_from_leaves_to_roots'))}")
    w(f"def reorderStmtsSrc : List String := {_strs([x.split(chr(10))[0] for x in body_src(fn.body)])}")

    fn = method(frs, "Forest", "all_distances")
    sen = [n.targets[0].slice for n in _walk(fn) if isinstance(n, ast.Assign) and ast.unparse(n.targets[0]).startswith("dg[")]
    sen = one(sen, "all_distances: sentinel")
    if not (isinstance(sen, ast.Compare) and ast.unparse(sen.left) == "dg" and isinstance(sen.ops[0], ast.Eq)):
        bad("all_distances: unexpected sentinel test")
    w("/-- the value `floyd` leaves for unreachable pairs (`s` = sum of the absolute weights) -/")
    w(f"def distSentinelSrc (s : Rat) : Rat := {_Tr({'np.sum(self.weights)': 's'}, TieBroken, 'all_distances').tr(sen.comparators[0])}")
    w(f"def distSrc : List String := {_strs([ast.unparse(v) for v in assigns(fn, 'self.weights')] + [ast.unparse(the_assign(fn, 'dg', 'all_distances'))] + [ast.unparse(n.value) for n in _walk(fn) if isinstance(n, ast.Return)])}")
    w("")
    w("end NipyVerif.C12.Gen")
    w("")
    return [("NipyVerif/Gen/C12Source.lean", "\n".join(L))]


def translate(repo, TieBroken):
    """-> [(relative lean path, content)]; anything unexpected in the source is a broken tie, never a guess"""
    try:
        return _translate(repo, TieBroken)
    except TieBroken:
        raise
    except Exception as e:   # noqa: BLE001  (IndexError / AttributeError / ... on a shape not foreseen above)
        raise TieBroken(f"c12_translate: source shape not recognised ({type(e).__name__}: {e})")
