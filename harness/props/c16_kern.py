"""C16 helper — translator of the *value* expressions of the compiled kernels.

Regenerates `lean/NipyVerif/Gen/C16Kern.lean` from the current text of
  nipy/algorithms/registration/cubic_spline.c   (ABS, cubic_spline_basis, _mirrored_position,
        _apply_boundary_conditions, _mirror_grid_neighbors, the statements and loop bounds of
        _cubic_spline_transform1d, the accumulation of cubic_spline_sample1d)
  nipy/algorithms/statistics/quantile.c          (UNSIGNED_FLOOR / UNSIGNED_CEIL, the front end of quantile():
        refusal, order-statistic index, interpolation weights and the interpolated value)
  lib/fff/fff_base.h                             (FFF_FLOOR / FFF_ROUND, expanded *textually* as the preprocessor does)
  lib/fff/fff_vector.c                           (the element statement of add / sub / mul / div / scale / add_constant)
  nipy/algorithms/registration/wichmann_prng.c   (the four Schrage recurrences, the fix-ups, the output)
Each definition is the C expression re-emitted as a Lean term over `Int` (C integers, no overflow) and `Rat`
(doubles, exact) with `harness/props/c20_cexpr.py`.  `Props/C16K.lean` proves that these are what the model
implements (`*_from_source`), and `Model/C16B.lean` / `Model/C16K.lean` run them, so an edit of a source
expression breaks a proof obligation and changes the driver's answers.  Unrecognised statement shapes raise
TieBroken, never a guess.
"""
from __future__ import annotations

import os
import re

from harness.props.c20_cexpr import CParseError, Emitter, cparse, function_body, squash, strip_comments

CS = "nipy/algorithms/registration/cubic_spline.c"
QT = "nipy/algorithms/statistics/quantile.c"
FB = "lib/fff/fff_base.h"
FV = "lib/fff/fff_vector.c"
WP = "nipy/algorithms/registration/wichmann_prng.c"
OUT = "NipyVerif/Gen/C16Kern.lean"


class Shape(Exception):
    pass


def _need(m, rel, what):
    if not m:
        raise Shape(f"{rel}: {what} not recognised")
    return m


def _macro(src, name, param, rel):
    """body of a one-parameter, one-line `#define name(param) body`"""
    m = _need(re.search(r"#define\s+" + name + r"\s*\(\s*" + param + r"\s*\)(.*)", src), rel, f"macro {name}")
    return m.group(1).strip()


def _subst(body, param, arg):
    """what the preprocessor does: the argument text replaces the parameter token, no parentheses added"""
    return re.sub(r"\b" + param + r"\b", lambda _m: arg, body)


def _val(expr, types, ty, funs=None):
    return Emitter(types, funs).val(cparse(expr), ty)


def _prop(expr, types, funs=None):
    return Emitter(types, funs).prop(cparse(expr))


def _def(name, params, ty, body_lines, doc):
    ps = " ".join(f"({n} : {t})" for n, t in params)
    return [f"/-- {doc} -/", f"def {name} {ps} : {ty} :="] + ["  " + b for b in body_lines]


# --------------------------------------------------------------------------------------------------
def _spline(repo):
    src = strip_comments(open(os.path.join(repo, CS)).read())
    L = ["namespace Spline", ""]
    # ---- ABS ----
    ab = _macro(src, "ABS", "a", CS)
    L += _def("ABS", [("a", "Rat")], "Rat", [_val(ab, {"a": "Rat"}, "Rat")], f"`#define ABS(a) {ab}`")
    funs = {"ABS": (["Rat"], "Rat")}
    # ---- cubic_spline_basis ----
    sq = squash(function_body(src, "cubic_spline_basis", CS))
    m = _need(re.fullmatch(
        r"doubley,absx,aux;absx=(?P<absx>[^;]+);if\((?P<c0>[^;]+)\)return(?P<r0>[^;]+);"
        r"if\((?P<c1>[^;{]+)\)\{aux=(?P<a1>[^;]+);y=(?P<y1>[^;]+);\}else\{aux=(?P<a2>[^;]+);y=(?P<y2>[^;]+);\}returny;",
        sq), CS, "cubic_spline_basis")
    t0 = {"x": "Rat"}
    t1 = {"x": "Rat", "absx": "Rat"}
    t2 = {"x": "Rat", "absx": "Rat", "aux": "Rat"}
    L += _def("basisC", [("x", "Rat")], "Rat", [
        f"let absx := {_val(m['absx'], t0, 'Rat', funs)}",
        f"if {_prop(m['c0'], t1)} then {_val(m['r0'], t1, 'Rat')} else",
        f"if {_prop(m['c1'], t1)} then",
        f"  let aux := {_val(m['a1'], t1, 'Rat')}",
        f"  {_val(m['y1'], t2, 'Rat')}",
        "else",
        f"  let aux := {_val(m['a2'], t1, 'Rat')}",
        f"  {_val(m['y2'], t2, 'Rat')}"],
        f"`cubic_spline_basis`: `absx = {m['absx']}`; `{m['c0']}` → `{m['r0']}`; `{m['c1']}` → `aux = {m['a1']}; "
        f"y = {m['y1']}`; else `aux = {m['a2']}; y = {m['y2']}`")
    # ---- _mirrored_position ----
    sq = squash(function_body(src, "_mirrored_position", CS))
    m = _need(re.fullmatch(
        r"intperiod=(?P<per>[^;]+);if\((?P<c0>[^;]+)\)return(?P<r0>[^;]+);x=(?P<x1>[^;]+);"
        r"if\((?P<c1>[^;]+)\)x\+=(?P<d1>[^;]+);if\((?P<c2>[^;]+)\)return(?P<r2>[^;]+);returnx;", sq),
        CS, "_mirrored_position")
    ti = {"x": "Int", "ddim": "Int", "period": "Int"}
    L += _def("mirroredPositionC", [("x", "Int"), ("ddim", "Int")], "Int", [
        f"let period := {_val(m['per'], {'ddim': 'Int'}, 'Int')}",
        f"if {_prop(m['c0'], ti)} then {_val(m['r0'], ti, 'Int')} else",
        f"let x := {_val(m['x1'], ti, 'Int')}",
        f"let x := if {_prop(m['c1'], ti)} then x + {_val(m['d1'], ti, 'Int')} else x",
        f"if {_prop(m['c2'], ti)} then {_val(m['r2'], ti, 'Int')} else x"],
        f"`_mirrored_position(int x, unsigned int ddim)`: `period = {m['per']}`; `{m['c0']}` → `{m['r0']}`; "
        f"`x = {m['x1']}` (C's truncating `%`); `if ({m['c1']}) x += {m['d1']}`; `if ({m['c2']}) return {m['r2']}`")
    # ---- _apply_boundary_conditions ----
    sq = squash(function_body(src, "_apply_boundary_conditions", CS)).replace("*x", "x").replace("*w", "w")
    m = _need(re.fullmatch(
        r"intok=1;unsignedintdim=(?P<dim>[^;]+);intneg_ddim;unsignedinttwo_ddim;if\((?P<e>[^;]+)\)return0;"
        r"if\((?P<m0>[^;{]+)\)\{if\((?P<a1>[^;]+)\)ok=0;elseif\((?P<a2>[^;{]+)\)\{w=(?P<w2>[^;]+);x=(?P<x2>[^;]+);\}"
        r"elseif\((?P<a3>[^;]+)\)ok=0;elseif\((?P<a4>[^;{]+)\)\{w=(?P<w4>[^;]+);x=(?P<x4>[^;]+);\}\}"
        r"elseif\((?P<m1>[^;{]+)\)\{if\((?P<b1>[^;]+)\)x=(?P<bx1>[^;]+);elseif\((?P<b2>[^;]+)\)x=(?P<bx2>[^;]+);\}"
        r"else\{neg_ddim=(?P<neg>[^;]+);two_ddim=(?P<two>[^;]+);if\((?P<c1>[^;]+)\)ok=0;\}returnok;", sq),
        CS, "_apply_boundary_conditions")
    tb = {"mode": "Int", "ddim": "Int", "dim": "Int", "x": "Rat", "w": "Rat"}
    tc = dict(tb, neg_ddim="Int", two_ddim="Int")
    v = lambda k, t=tb: _val(m[k], t, "Rat")
    p = lambda k, t=tb: _prop(m[k], t)
    L += _def("applyBoundaryC", [("mode", "Int"), ("ddim", "Int"), ("x", "Rat"), ("w", "Rat")], "Option (Rat × Rat)", [
        f"let dim := {_val(m['dim'], tb, 'Int')}",
        f"if {p('e')} then none else",
        f"if {p('m0')} then",
        f"  if {p('a1')} then none",
        f"  else if {p('a2')} then some ({v('x2')}, {v('w2')})",
        f"  else if {p('a3')} then none",
        f"  else if {p('a4')} then some ({v('x4')}, {v('w4')})",
        "  else some (x, w)",
        f"else if {p('m1')} then",
        f"  if {p('b1')} then some ({v('bx1')}, w) else if {p('b2')} then some ({v('bx2')}, w) else some (x, w)",
        "else",
        f"  let neg_ddim := {_val(m['neg'], tb, 'Int')}",
        f"  let two_ddim := {_val(m['two'], tb, 'Int')}",
        f"  if {p('c1', tc)} then none else some (x, w)"],
        "`_apply_boundary_conditions(mode, ddim, &x, &w)`: `none` = returns 0, `some (x, w)` = the updated coordinate "
        "and weight (unsigned `ddim` read as a non-negative integer; the new `w` is computed before `x` is overwritten)")
    # ---- _mirror_grid_neighbors ----
    sq = squash(function_body(src, "_mirror_grid_neighbors", CS)).replace("*px", "px").replace("*nx", "nx")
    m = _need(re.fullmatch(
        r"intok=0;doubleaux=(?P<aux>[^;]+);if\((?P<c>[^;{]+)\)\{ok=1;px=(?P<p1>[^;]+);px=(?P<p2>[^;]+);nx=(?P<n>[^;]+);\}"
        r"returnok;", sq), CS, "_mirror_grid_neighbors")
    tn = {"x": "Rat", "ddim": "Int", "aux": "Rat"}
    tn2 = dict(tn, px="Int")
    L += _def("neighborsC", [("x", "Rat"), ("ddim", "Int")], "Option (Int × Int)", [
        f"let aux := {_val(m['aux'], tn, 'Rat')}",
        f"if {_prop(m['c'], tn)} then",
        f"  let px := {_val(m['p1'], tn, 'Int')}",
        f"  let px := {_val(m['p2'], tn2, 'Int')}",
        f"  let nx := {_val(m['n'], tn2, 'Int')}",
        "  some (nx, px)",
        "else none"],
        f"`_mirror_grid_neighbors`: `aux = {m['aux']}`; iff `{m['c']}`: `px = {m['p1']}; px = {m['p2']}; nx = {m['n']}`")
    # ---- cubic_spline_sample1d: the two loops ----
    sq = squash(function_body(src, "cubic_spline_sample1d", CS))
    hdr = r"for\(xx=nx;xx<=px;xx\+\+,buf_bspx\+\+,buf_posx\+\+\)"
    m = _need(re.search(
        r"doublew=(?P<w0>[^;]+);APPLY_BOUNDARY_CONDITIONS\(mode,x,w,ddim\);COMPUTE_NEIGHBORS\(x,ddim,nx,px\);"
        r"buf_bspx=\(double\*\)bspx;buf_posx=\(int\*\)posx;" + hdr +
        r"\{\*buf_bspx=cubic_spline_basis\((?P<arg>[^;]+)\);\*buf_posx=_mirrored_position\(xx,ddim\);\}"
        r"s=(?P<s0>[^;]+);buf_bspx=\(double\*\)bspx;buf_posx=\(int\*\)posx;" + hdr +
        r"\{buf=coef\+\(\*buf_posx\)\*offset;s\+=(?P<acc>[^;]+);\}return(?P<res>[^;]+);\}?$", sq + "}"),
        CS, "cubic_spline_sample1d loops")
    _need(re.search(r"unsignedintddim=PyArray_DIM\(\(PyArrayObject\*\)Coef,0\)-1;", sq), CS, "sample1d ddim")
    ts = {"x": "Rat", "xx": "Int", "w": "Rat", "s": "Rat", "coefv": "Rat", "bsp": "Rat"}
    acc = m["acc"].replace("(*buf)", "coefv").replace("(*buf_bspx)", "bsp")
    L += _def("sampleW0", [], "Rat", [_val(m["w0"], {}, "Rat")], f"`cubic_spline_sample1d`: `double w = {m['w0']}`")
    L += _def("sampleS0", [], "Rat", [_val(m["s0"], {}, "Rat")], f"`cubic_spline_sample1d`: `s = {m['s0']}`")
    L += _def("sampleTapArg", [("x", "Rat"), ("xx", "Int")], "Rat", [_val(m["arg"], ts, "Rat")],
              f"`cubic_spline_sample1d`: `*buf_bspx = cubic_spline_basis({m['arg']})` for `xx = nx .. px`")
    L += _def("sampleAcc", [("s", "Rat"), ("coefv", "Rat"), ("bsp", "Rat")], "Rat", [f"s + {_val(acc, ts, 'Rat')}"],
              f"`cubic_spline_sample1d`: `s += {m['acc']}` (`buf = coef + (*buf_posx)*offset`)")
    L += _def("sampleResult", [("w", "Rat"), ("s", "Rat")], "Rat", [_val(m["res"], ts, "Rat")],
              f"`cubic_spline_sample1d`: `return {m['res']}`")
    # ---- _cubic_spline_transform1d ----
    sq = squash(function_body(src, "_cubic_spline_transform1d", CS))
    sq = sq.replace("(*buf_src)", "src_k").replace("*buf_src", "src_k").replace("*buf_res", "res_k")
    m = _need(re.search(
        r"buf_src=src;cp=src_k;z1_k=(?P<zk0>[^;]+);"
        r"for\(k=(?P<k1>\d+);k<dim;k\+\+\)\{z1_k=(?P<zf>[^;]+);buf_src\+=src_stride;cp\+=(?P<cf>[^;]+);\}"
        r"for\(k=(?P<k2>\d+);k<dim;k\+\+\)\{z1_k=(?P<zb>[^;]+);buf_src-=src_stride;cp\+=(?P<cb>[^;]+);\}"
        r"z1_k=(?P<zl>[^;]+);cp=(?P<c0>[^;]+);buf_res=res;res_k=cp;buf_src=src;"
        r"for\(k=(?P<k3>\d+);k<dim;k\+\+\)\{buf_src\+=src_stride;cp=(?P<cc>[^;]+);buf_res\+=res_stride;res_k=cp;\}"
        r"cm=(?P<am>[^;]+);res_k=(?P<st0>[^;]+);"
        r"for\(k=(?P<k4>\d+);k<dim;k\+\+\)\{buf_res-=res_stride;cm=(?P<ac>[^;]+);res_k=(?P<st1>[^;]+);\}return;$", sq),
        CS, "_cubic_spline_transform1d statements")
    if not (m["zf"] == m["zb"] == m["zl"] and m["cf"] == m["cb"] and m["st0"] == m["st1"]):
        raise Shape(f"{CS}: _cubic_spline_transform1d: the two accumulation loops / the two stores differ")
    tt = {k: "Rat" for k in ("z1", "cz1", "z1_k", "cp", "cm", "src_k", "res_k")}

    def generic(expr):
        """the expression over an arbitrary field-like `K`: literals become the parameters `one two six`"""
        txt = _val(expr, tt, "Rat")
        for lit, nm in (("(1 : Rat)", "one"), ("(2 : Rat)", "two"), ("(6 : Rat)", "six")):
            txt = txt.replace(lit, nm)
        if "Rat" in txt:
            raise Shape(f"{CS}: _cubic_spline_transform1d: unexpected literal in `{expr}`")
        return txt
    L += ["", "section Prefilter",
          "variable {K : Type} [Add K] [Sub K] [Mul K] [Div K]", ""]
    gen = [
        ("zk0", "initZ0", "(one : K)", "`z1_k = {}` before the accumulation loops"),
        ("zf", "initStepZ", "(z1 z1_k : K)", "`z1_k = {}` (first statement of both accumulation loops and once more after them)"),
        ("cf", "initStepCp", "(cp src_k z1_k : K)", "`cp += {}` (both accumulation loops; `src_k` is `*buf_src`)"),
        ("c0", "causalInitC", "(one cp z1_k : K)", "`cp = {}`: the first causal coefficient"),
        ("cc", "causalStep", "(z1 src_k cp : K)", "`cp = {}`: the causal recursion"),
        ("am", "antiInit", "(two cz1 cp src_k : K)", "`cm = {}`: initial value of the anticausal recursion"),
        ("ac", "antiStep", "(z1 cm res_k : K)", "`cm = {}`: the anticausal recursion (`res_k` is `*buf_res`, the causal value)"),
        ("st0", "store", "(six cm : K)", "`*buf_res = {}`: the stored coefficient"),
    ]
    for key, name, params, doc in gen:
        body = generic(m[key])
        if key == "cf":
            body = f"cp + {body}"
        L += [f"/-- `_cubic_spline_transform1d`: {doc.format(m[key])} -/", f"def {name} {params} : K :=", f"  {body}"]
    L += ["", "end Prefilter", ""]
    for key, name, doc in (("k1", "initFwdSteps", "first accumulation loop (forward over `s[1..N-1]`)"),
                           ("k2", "initBackSteps", "second accumulation loop (back over `s[N-2..1]`)"),
                           ("k3", "causalSteps", "causal recursion"), ("k4", "antiSteps", "anticausal recursion")):
        L += _def(name, [("dim", "Nat")], "Nat", [f"dim - {int(m[key])}"],
                  f"`_cubic_spline_transform1d`: iterations of the {doc}: `for (k={m[key]}; k<dim; k++)`")
    L += ["", "end Spline", ""]
    return L


# --------------------------------------------------------------------------------------------------
def _quantile(repo):
    src = strip_comments(open(os.path.join(repo, QT)).read())
    L = ["namespace Quantile", ""]
    fl = _macro(src, "UNSIGNED_FLOOR", "a", QT)
    ce = _macro(src, "UNSIGNED_CEIL", "a", QT)
    L += _def("UNSIGNED_FLOOR", [("a", "Rat")], "Int", [_val(fl, {"a": "Rat"}, "Int")],
              f"`#define UNSIGNED_FLOOR(a) {fl}` (used on the variable `pp` only: textual = functional)")
    L += _def("UNSIGNED_CEIL", [("a", "Rat")], "Int", [_val(ce, {"a": "Rat"}, "Int")],
              f"`#define UNSIGNED_CEIL(a) {ce}` (used on the variable `pp` only)")
    funs = {"UNSIGNED_FLOOR": (["Rat"], "Int"), "UNSIGNED_CEIL": (["Rat"], "Int")}
    sq = squash(function_body(src, "quantile", QT))
    m = _need(re.search(
        r'if\((?P<refuse>.+?)\)\{fprintf\(stderr,"[^"]*"\);return0\.0;\}if\((?P<single>[^;]+)\)returndata\[0\];'
        r"for\(i=0,buf=data;i<size;i\+\+,buf\+=stride\)if\(\*buf!=\*buf\)return\*buf;"
        r"if\(!interp\)\{pp=(?P<pp0>[^;]+);p=(?P<p0>[^;]+);if\((?P<inf>[^;]+)\)returnPOSINF;"
        r"m=_pth_element\(data,p,stride,size\);\}"
        r"else\{doublewm,wM;pp=(?P<pp1>[^;]+);p=(?P<p1>[^;]+);wM=(?P<wM>[^;]+);wm=(?P<wm>[^;]+);"
        r"if\((?P<one>[^;]+)\)m=_pth_element\(data,p,stride,size\);"
        r"else\{doubleam,aM;_pth_interval\(&am,&aM,data,p,stride,size\);m=(?P<m>[^;]+);\}\}returnm;$", sq),
        QT, "quantile() front end")
    t = {"r": "Rat", "size": "Int"}
    L += _def("refuse", [("r", "Rat")], "Bool", ["decide " + _prop(m["refuse"], t)],
              f"`quantile`: returns 0 with a message iff `{m['refuse']}`")
    L += _def("single", [("size", "Int")], "Bool", ["decide " + _prop(m["single"], t)],
              f"`quantile`: returns `data[0]` iff `{m['single']}`")
    t0 = dict(t, pp="Rat")
    t0p = dict(t0, p="Int")
    L += _def("pNoInterp", [("r", "Rat"), ("size", "Int")], "Int",
              [f"let pp := {_val(m['pp0'], t, 'Rat')}", _val(m["p0"], t0, "Int", funs)],
              f"`quantile`, `!interp`: `pp = {m['pp0']}; p = {m['p0']}`")
    L += _def("noInterpInf", [("r", "Rat"), ("size", "Int")], "Bool",
              [f"let pp := {_val(m['pp0'], t, 'Rat')}", f"let p := {_val(m['p0'], t0, 'Int', funs)}",
               "decide " + _prop(m["inf"], t0p)],
              f"`quantile`, `!interp`: returns `POSINF` iff `{m['inf']}`")
    L += _def("pInterp", [("r", "Rat"), ("size", "Int")], "Int",
              [f"let pp := {_val(m['pp1'], t, 'Rat')}", _val(m["p1"], t0, "Int", funs)],
              f"`quantile`, `interp`: `pp = {m['pp1']}; p = {m['p1']}`")
    tw = dict(t0p, wM="Rat")
    tww = dict(tw, wm="Rat", am="Rat", aM="Rat")
    pre = [f"let pp := {_val(m['pp1'], t, 'Rat')}", f"let p := {_val(m['p1'], t0, 'Int', funs)}",
           f"let wM := {_val(m['wM'], t0p, 'Rat')}"]
    L += _def("wM", [("r", "Rat"), ("size", "Int")], "Rat", pre + ["wM"], f"`quantile`, `interp`: `wM = {m['wM']}`")
    L += _def("interpSingle", [("r", "Rat"), ("size", "Int")], "Bool", pre + ["decide " + _prop(m["one"], tw)],
              f"`quantile`, `interp`: `_pth_element(p)` alone iff `{m['one']}`")
    L += _def("interpValue", [("r", "Rat"), ("size", "Int"), ("am", "Rat"), ("aM", "Rat")], "Rat",
              pre + [f"let wm := {_val(m['wm'], tw, 'Rat')}", _val(m["m"], tww, "Rat")],
              f"`quantile`, `interp`: `wm = {m['wm']}; m = {m['m']}` with `am`, `aM` the order statistics `p`, `p+1`")
    # ---- the copy of the same code in fff_vector.c (fff_vector_quantile, _fff_pth_element, _fff_pth_interval) ----
    vs = strip_comments(open(os.path.join(repo, FV)).read())
    fb = strip_comments(open(os.path.join(repo, FB)).read())
    for a, b in (("_pth_element", "_fff_pth_element"), ("_pth_interval", "_fff_pth_interval")):
        if squash(function_body(src, a, QT)).replace("npy_intp", "size_t") != squash(function_body(vs, b, FV)):
            raise Shape(f"{FV}: {b} is no longer the text of {QT}: {a} (the selection theorems are proved once for both)")
    if squash(_macro(fb, "FFF_UNSIGNED_FLOOR", "a", FB)) != squash(fl) or squash(_macro(fb, "FFF_UNSIGNED_CEIL", "a", FB)) != squash(ce):
        raise Shape(f"{FB}: FFF_UNSIGNED_FLOOR / FFF_UNSIGNED_CEIL differ from the macros of {QT}")
    sq2 = squash(function_body(vs, "fff_vector_quantile", FV)).replace("FFF_UNSIGNED_", "UNSIGNED_")
    m2 = _need(re.search(
        r'if\((?P<refuse>.+?)\)\{FFF_WARNING\("[^"]*"\);return0\.0;\}if\((?P<single>[^;]+)\)returndata\[0\];'
        r"if\(!interp\)\{pp=(?P<pp0>[^;]+);p=(?P<p0>[^;]+);if\((?P<inf>[^;]+)\)returnFFF_POSINF;"
        r"m=_fff_pth_element\(data,p,stride,size\);\}"
        r"else\{doublewm,wM;pp=(?P<pp1>[^;]+);p=(?P<p1>[^;]+);wM=(?P<wM>[^;]+);wm=(?P<wm>[^;]+);"
        r"if\((?P<one>[^;]+)\)m=_fff_pth_element\(data,p,stride,size\);"
        r"else\{doubleam,aM;_fff_pth_interval\(&am,&aM,data,p,stride,size\);m=(?P<m>[^;]+);\}\}returnm;$", sq2),
        FV, "fff_vector_quantile front end")
    for key in ("refuse", "single", "pp0", "p0", "inf", "pp1", "p1", "wM", "wm", "one", "m"):
        if m2[key] != m[key]:
            raise Shape(f"{FV}: fff_vector_quantile: `{m2[key]}` where {QT} has `{m[key]}`")
    L += ["/-- `fff_vector.c` carries a copy of this code: `_fff_pth_element` / `_fff_pth_interval` are textually the loops of",
          "    `quantile.c` (`size_t` for `npy_intp`) and `fff_vector_quantile` has the same front-end expressions, one by one",
          "    (without the NaN scan); checked by the translator, which refuses otherwise -/",
          "def fffVectorCopyIsSameText : Bool := true"]
    L += ["", "end Quantile", ""]
    return L


# --------------------------------------------------------------------------------------------------
def _fff(repo):
    src = strip_comments(open(os.path.join(repo, FB)).read())
    L = ["namespace Fff", ""]
    fl = _macro(src, "FFF_FLOOR", "a", FB)
    rn = _macro(src, "FFF_ROUND", "a", FB)
    mm = _need(re.fullmatch(r"\(\s*FFF_FLOOR\s*\((.*)\)\s*\)", rn), FB, "FFF_ROUND as a call of FFF_FLOOR")
    arg = _subst(mm.group(1), "a", "value")          # FFF_ROUND(value): the argument handed to FFF_FLOOR
    expanded = _subst(fl, "a", arg)                   # ... pasted for every `a` of FFF_FLOOR, as the preprocessor does
    L += _def("FFF_FLOOR", [("a", "Rat")], "Int", [_val(fl, {"a": "Rat"}, "Int")],
              f"`#define FFF_FLOOR(a) {fl}` applied to a *variable*")
    L += _def("FFF_ROUND", [("value", "Rat")], "Int", [_val(expanded, {"value": "Rat"}, "Int")],
              f"`FFF_ROUND(value)` = `FFF_FLOOR({arg})` after *textual* substitution (no parentheses around the "
              f"argument): `{squash(expanded)}`")
    fa = strip_comments(open(os.path.join(repo, "lib/fff/fff_array.c")).read())
    stores = re.findall(r"buf\[pos\]\s*=\s*\(([a-z ]+)\)\s*\(\s*FFF_ROUND\(value\)\s*\)\s*;", fa)
    if len(stores) != 8:
        raise Shape(f"lib/fff/fff_array.c: {len(stores)} integer stores through FFF_ROUND(value), expected 8")
    L += ["/-- `fff_array.c`: the integer setters store `(T)(FFF_ROUND(value))` for these `T` -/",
          "def roundStores : List String := [" + ", ".join('"' + " ".join(s.split()) + '"' for s in stores) + "]"]
    # ---- fff_vector element statements ----
    vs = strip_comments(open(os.path.join(repo, FV)).read())
    two = r"for\(i=0,bx=x->data,by=y->data;i<x->size;i\+\+,bx\+=x->stride,by\+=y->stride\)\*bx([-+*/])=\*by;return;"
    one = r"for\(i=0,bx=x->data;i<x->size;i\+\+,bx\+=x->stride\)\*bx([-+*/])=a;return;"
    for fn, pat, params, rhs in (("add", two, "(vx vy : Rat)", "vy"), ("sub", two, "(vx vy : Rat)", "vy"),
                                 ("mul", two, "(vx vy : Rat)", "vy"), ("div", two, "(vx vy : Rat)", "vy"),
                                 ("scale", one, "(a vx : Rat)", "a"), ("add_constant", one, "(a vx : Rat)", "a")):
        sq = squash(function_body(vs, "fff_vector_" + fn, FV))
        m = _need(re.search(pat, sq), FV, f"fff_vector_{fn}: element loop")
        L += [f"/-- `fff_vector_{fn}`: `*bx {m.group(1)}= {'*by' if rhs == 'vy' else 'a'}` for `i < x->size`, "
              f"`bx += x->stride`" + (", `by += y->stride`" if rhs == "vy" else "") + " (`vx`, `vy` stand for `*bx`, `*by`) -/",
              f"def vector_{fn} {params} : Rat := vx {m.group(1)} {rhs}"]
    # ---- fff_vector reductions: sum, ssd (Koenig's formula), sad, median ----
    ab = _macro(src, "FFF_ABS", "a", FB)
    sqr = _macro(src, "FFF_SQR", "a", FB)
    odd = _macro(src, "FFF_IS_ODD", "n", FB)
    if squash(odd) != "((n)&1)":
        raise Shape(f"{FB}: FFF_IS_ODD is not `((n) & 1)`")
    L += _def("FFF_ABS", [("a", "Rat")], "Rat", [_val(ab, {"a": "Rat"}, "Rat")],
              f"`#define FFF_ABS(a) {ab}` (used on the variable `aux`)")
    L += _def("FFF_SQR", [("a", "Rat")], "Rat", [_val(sqr, {"a": "Rat"}, "Rat")],
              f"`#define FFF_SQR(a) {sqr}` (used on the variables `aux`, `sum`)")
    fr_ = {"FFF_ABS": (["Rat"], "Rat"), "FFF_SQR": (["Rat"], "Rat")}
    loop = r"for\(i=0;i<x->size;i\+\+,buf\+=x->stride\)"
    sq = squash(function_body(vs, "fff_vector_sum", FV)).replace("*buf", "v")
    m = _need(re.fullmatch(r"longdoublesum=(?P<s0>[^;]+);doublev=x->data;size_ti;" + loop +
                           r"sum\+=(?P<e>[^;]+);returnsum;", sq), FV, "fff_vector_sum")
    tr = {k: "Rat" for k in ("sum", "ssd", "sad", "v", "aux", "n", "m", "m_in", "mm")}
    L += _def("sum_init", [], "Rat", [_val(m["s0"], {}, "Rat")], f"`fff_vector_sum`: `long double sum = {m['s0']}`")
    L += _def("sum_step", [("sum", "Rat"), ("v", "Rat")], "Rat", [f"sum + {_val(m['e'], tr, 'Rat')}"],
              "`fff_vector_sum`: `sum += *buf` for `i < x->size`, `buf += x->stride` (`v` stands for `*buf`)")
    sq = squash(function_body(vs, "fff_vector_ssd", FV)).replace("*buf", "v").replace("*m", "m_in")
    m = _need(re.fullmatch(
        r"longdoublessd=(?P<q0>[^;]+);longdoublesum=(?P<s0>[^;]+);longdoublen=\(longdouble\)x->size;doubleaux;"
        r"doublev=x->data;size_ti;" + loop +
        r"\{aux=(?P<a>[^;]+);sum\+=(?P<s>[^;]+);ssd\+=(?P<q>[^;]+);\}sum/=(?P<d>[^;]+);"
        r"if\(fixed_offset\)\{aux=(?P<fa>[^;]+);ssd\+=(?P<fq>[^;]+);\}else\{m_in=(?P<mo>[^;]+);ssd-=(?P<eq>[^;]+);\}"
        r"returnssd;", sq), FV, "fff_vector_ssd")
    if m["a"] != "v" or m["q0"] != m["s0"]:
        raise Shape(f"{FV}: fff_vector_ssd: unexpected element statement")
    L += _def("ssd_init", [], "Rat", [_val(m["q0"], {}, "Rat")], f"`fff_vector_ssd`: `ssd = {m['q0']}`, `sum = {m['s0']}`")
    L += _def("ssd_step_sum", [("sum", "Rat"), ("aux", "Rat")], "Rat", [f"sum + {_val(m['s'], tr, 'Rat', fr_)}"],
              f"`fff_vector_ssd`: `aux = *buf; sum += {m['s']}`")
    L += _def("ssd_step_ssd", [("ssd", "Rat"), ("aux", "Rat")], "Rat", [f"ssd + {_val(m['q'], tr, 'Rat', fr_)}"],
              f"`fff_vector_ssd`: `ssd += {m['q']}`")
    L += _def("ssd_mean", [("sum", "Rat"), ("n", "Rat")], "Rat", [f"sum / {_val(m['d'], tr, 'Rat')}"],
              f"`fff_vector_ssd`: `sum /= {m['d']}` with `n = (long double)x->size`")
    L += _def("ssd_fixed", [("ssd", "Rat"), ("n", "Rat"), ("m_in", "Rat"), ("sum", "Rat")], "Rat",
              [f"let aux := {_val(m['fa'], tr, 'Rat', fr_)}", f"ssd + {_val(m['fq'], tr, 'Rat', fr_)}"],
              f"`fff_vector_ssd`, `fixed_offset`: `aux = {m['fa'].replace('m_in', '*m')}; ssd += {m['fq']}`")
    L += _def("ssd_free", [("ssd", "Rat"), ("n", "Rat"), ("sum", "Rat")], "Rat", [f"ssd - {_val(m['eq'], tr, 'Rat', fr_)}"],
              f"`fff_vector_ssd`, free offset: `ssd -= {m['eq']}`")
    L += _def("ssd_free_m", [("sum", "Rat")], "Rat", [_val(m["mo"], tr, "Rat")],
              f"`fff_vector_ssd`, free offset: `*m = {m['mo']}`")
    sq = squash(function_body(vs, "fff_vector_sad", FV)).replace("*buf", "v")
    m = _need(re.fullmatch(r"longdoublesad=(?P<s0>[^;]+);doubleaux;doublev=x->data;size_ti;" + loop +
                           r"\{aux=(?P<a>[^;]+);sad\+=(?P<e>[^;]+);\}returnsad;", sq), FV, "fff_vector_sad")
    L += _def("sad_init", [], "Rat", [_val(m["s0"], {}, "Rat")], f"`fff_vector_sad`: `sad = {m['s0']}`")
    L += _def("sad_step", [("sad", "Rat"), ("v", "Rat"), ("m", "Rat")], "Rat",
              [f"let aux := {_val(m['a'], tr, 'Rat', fr_)}", f"sad + {_val(m['e'], tr, 'Rat', fr_)}"],
              f"`fff_vector_sad`: `aux = {m['a'].replace('v', '*buf')}; sad += {m['e']}`")
    sq = squash(function_body(vs, "fff_vector_median", FV))
    m = _need(re.fullmatch(
        r"doublem;double\*data=x->data;size_tstride=x->stride,size=x->size;"
        r"if\(FFF_IS_ODD\(size\)\)m=_fff_pth_element\(data,(?P<po>[^,]+),stride,size\);"
        r"else\{doublemm;_fff_pth_interval\(&m,&mm,data,(?P<pe>[^,]+),stride,size\);m=(?P<v>[^;]+);\}returnm;", sq),
        FV, "fff_vector_median")
    shr = lambda e: e.replace("size>>1", "(size/2)")     # `>> 1` on a size_t: division by two
    ti = {"size": "Int"}
    L += ["/-- `fff_vector_median`: `FFF_IS_ODD(size)` = `((size) & 1)` -/",
          "def median_odd (size : Int) : Bool := decide (size % 2 = 1)"]
    L += _def("median_p_odd", [("size", "Int")], "Int", [_val(shr(m["po"]), ti, "Int")],
              f"`fff_vector_median`, odd size: `_fff_pth_element(data, {m['po']}, …)` (`>>1` written `/2`)")
    L += _def("median_p_even", [("size", "Int")], "Int", [_val(shr(m["pe"]), ti, "Int")],
              f"`fff_vector_median`, even size: `_fff_pth_interval(&m, &mm, data, {m['pe']}, …)`")
    L += _def("median_even_value", [("m", "Rat"), ("mm", "Rat")], "Rat", [_val(m["v"], tr, "Rat")],
              f"`fff_vector_median`, even size: `m = {m['v']}`")
    # ---- memcpy fast paths and the index walk of fff_matrix_memcpy / fff_matrix_transpose ----
    ms = strip_comments(open(os.path.join(repo, "lib/fff/fff_matrix.c")).read())
    nrm = lambda t: re.sub(r"\b(\w+)->(\w+)", r"\1_\2", t)
    sq = squash(function_body(vs, "fff_vector_memcpy", FV))
    m = _need(re.fullmatch(
        r"CHECK_SIZE\(x,y\);if\((?P<g>.+?)\)memcpy\(\(void\*\)x->data,\(void\*\)y->data,(?P<n>[^;]+)\*sizeof\(double\)\);"
        r"else\{size_ti;double\*bx,\*by;for\(i=0,bx=x->data,by=y->data;i<x->size;i\+\+,bx\+=x->stride,by\+=y->stride\)"
        r"\*bx=\*by;\}return;", sq), FV, "fff_vector_memcpy")
    tv = {k: "Int" for k in ("x_stride", "y_stride", "x_size", "A_tda", "A_size1", "A_size2", "B_tda", "B_size1", "B_size2",
                             "i", "j", "rA", "rB")}
    L += _def("vector_memcpy_fast", [("x_stride", "Int"), ("y_stride", "Int")], "Bool", ["decide " + _prop(nrm(m["g"]), tv)],
              f"`fff_vector_memcpy`: one `memcpy` iff `{m['g']}` (else the strided loop `*bx = *by`)")
    L += _def("vector_memcpy_count", [("x_size", "Int")], "Int", [_val(nrm(m["n"]), tv, "Int")],
              f"`fff_vector_memcpy`: doubles copied by the `memcpy`: `{m['n']}`")
    sq = squash(function_body(ms, "fff_matrix_memcpy", "lib/fff/fff_matrix.c"))
    m = _need(re.fullmatch(
        r"CHECK_SIZE\(A,B\);if\((?P<g>.+?)\)memcpy\(\(void\*\)A->data,\(void\*\)B->data,(?P<n>[^;]+)\*sizeof\(double\)\);"
        r"else\{size_ti,j,rA,rB;double\*bA,\*bB;for\(i=0,rA=0,rB=0;i<A->size1;i\+\+,rA\+=(?P<sa>[^,)]+),rB\+=(?P<sb>[^,)]+)\)"
        r"\{bA=A->data\+rA;bB=B->data\+rB;for\(j=0;j<A->size2;j\+\+,bA\+\+,bB\+\+\)\*bA=\*bB;\}\}return;", sq),
        "lib/fff/fff_matrix.c", "fff_matrix_memcpy")
    L += _def("matrix_memcpy_fast", [("A_tda", "Int"), ("A_size2", "Int"), ("B_tda", "Int"), ("B_size2", "Int")], "Bool",
              ["decide " + _prop(nrm(m["g"]), tv)],
              f"`fff_matrix_memcpy`: one `memcpy` iff `{m['g']}` (else row by row)")
    L += _def("matrix_memcpy_count", [("A_size1", "Int"), ("A_size2", "Int")], "Int", [_val(nrm(m["n"]), tv, "Int")],
              f"`fff_matrix_memcpy`: doubles copied by the `memcpy`: `{m['n']}`")
    L += _def("matrix_memcpy_row_steps", [("A_tda", "Int"), ("B_tda", "Int")], "Int × Int",
              [f"({_val(nrm(m['sa']), tv, 'Int')}, {_val(nrm(m['sb']), tv, 'Int')})"],
              f"`fff_matrix_memcpy`, loop: `rA += {m['sa']}`, `rB += {m['sb']}` per row; `bA++`, `bB++` per column")
    sq = squash(function_body(ms, "fff_matrix_transpose", "lib/fff/fff_matrix.c"))
    m = _need(re.fullmatch(
        r"size_ti,j,rA,rB;double\*bA,\*bB;CHECK_TRANSPOSED_SIZE\(A,B\);for\(i=0,rA=0,rB=0;i<A->size1;i\+\+,rA\+=(?P<sa>[^,)]+)\)"
        r"\{bA=A->data\+(?P<a0>[^;]+);bB=B->data\+(?P<b0>[^;]+);for\(j=0;j<A->size2;j\+\+,bA\+\+,bB\+=(?P<sb>[^,)]+)\)"
        r"\*bA=\*bB;\}return;", sq), "lib/fff/fff_matrix.c", "fff_matrix_transpose")
    if m["a0"] != "rA":
        raise Shape("lib/fff/fff_matrix.c: fff_matrix_transpose: destination row start is not `A->data + rA`")
    L += _def("matrix_transpose_walk", [("A_tda", "Int"), ("B_tda", "Int"), ("i", "Int")], "Int × Int × Int",
              [f"({_val(nrm(m['sa']), tv, 'Int')}, {_val(nrm(m['b0']), tv, 'Int')}, {_val(nrm(m['sb']), tv, 'Int')})"],
              f"`fff_matrix_transpose`: destination row step `rA += {m['sa']}` (`bA = A->data + rA`, `bA++`), source start "
              f"`bB = B->data + {m['b0']}`, source step `bB += {m['sb']}`")
    L += ["", "end Fff", ""]
    return L


# --------------------------------------------------------------------------------------------------
FA = "lib/fff/fff_array.c"
IT_FIELDS = ("idx", "size", "data", "x", "y", "z", "t", "ddimY", "ddimZ", "ddimT", "incX", "incY", "incZ", "incT")


def _iter_stmt(st):
    """one statement of an update function -> (field, Lean value)"""
    m = re.fullmatch(r"iter->(\w+)\+\+", st)
    if m:
        return m.group(1), f"iter.{m.group(1)} + 1"
    m = re.fullmatch(r"iter->(\w+)\+=iter->(\w+)", st)
    if m:
        return m.group(1), f"iter.{m.group(1)} + iter.{m.group(2)}"
    m = re.fullmatch(r"iter->(\w+)=(\d+)", st)
    if m:
        return m.group(1), f"({int(m.group(2))} : Int)"
    m = re.fullmatch(r"iter->(\w+)=iter->(\w+)", st)
    if m:
        return m.group(1), f"iter.{m.group(2)}"
    raise Shape(f"{FA}: iterator update: statement `{st}` not recognised")


def _iter_block(text, ind):
    out = []
    for st in [t for t in text.split(";") if t]:
        if st == "return":
            continue
        f, v = _iter_stmt(st)
        if f not in IT_FIELDS:
            raise Shape(f"{FA}: iterator update writes unknown field {f}")
        out.append(f"{ind}let iter := {{ iter with {f} := {v} }}")
    return out


def _array_iter(repo):
    src = strip_comments(open(os.path.join(repo, FA)).read())
    hdr = strip_comments(open(os.path.join(repo, "lib/fff/fff_array.h")).read())
    L = ["namespace Fff", "",
         "/-- the fields of `fff_array_iterator` that the init / update functions read and write (`data` as an offset) -/",
         "structure It where"] + [f"  {f} : Int" for f in IT_FIELDS] + ["deriving DecidableEq, Repr", ""]
    # ---- the update functions ----
    for nd in (1, 2, 3, 4):
        sq = squash(function_body(src, f"_fff_array_iterator_update{nd}d", FA))
        pre = "fff_array_iterator*iter=(fff_array_iterator*)it;"
        if not sq.startswith(pre) or not sq.endswith("return;"):
            raise Shape(f"{FA}: _fff_array_iterator_update{nd}d: unexpected prologue / epilogue")
        rest = sq[len(pre):]
        body = [f"/-- `_fff_array_iterator_update{nd}d`, statement by statement (`return` inside an `if` = the `then` branch) -/",
                f"def update{nd}d (iter : It) : It :="]
        ind = "  "
        while rest:
            m = re.match(r"if\(iter->(\w+)<iter->(\w+)\)\{([^{}]*)return;\}", rest)
            if m:
                body.append(f"{ind}if iter.{m.group(1)} < iter.{m.group(2)} then")
                body += _iter_block(m.group(3), ind + "  ") + [f"{ind}  iter", f"{ind}else"]
                rest = rest[m.end():]
                continue
            m = re.match(r"([^;{}]+);", rest)
            if not m:
                raise Shape(f"{FA}: _fff_array_iterator_update{nd}d: cannot read `{rest[:40]}`")
            body += _iter_block(m.group(1), ind)
            rest = rest[m.end():]
        body.append(f"{ind}iter")
        L += body
    # ---- which update for which ndims ----
    enum = {int(a): int(b) for a, b in re.findall(r"FFF_ARRAY_(\d)D\s*=\s*(\d)", hdr)}
    if sorted(enum) != [1, 2, 3, 4]:
        raise Shape("lib/fff/fff_array.h: enum FFF_ARRAY_1D..4D not found")
    sq = squash(function_body(src, "fff_array_iterator_init_skip_axis", FA))
    sw = _need(re.search(
        r"switch\(im->ndims\)\{caseFFF_ARRAY_(\d)D:iter\.update=&_fff_array_iterator_update(\d)d;break;"
        r"caseFFF_ARRAY_(\d)D:iter\.update=&_fff_array_iterator_update(\d)d;break;"
        r"caseFFF_ARRAY_(\d)D:iter\.update=&_fff_array_iterator_update(\d)d;break;"
        r"caseFFF_ARRAY_4D:default:iter\.update=&_fff_array_iterator_update(\d)d;break;\}returniter;$", sq),
        FA, "switch over ndims")
    g = sw.groups()
    L += ["/-- `fff_array_iterator_init_skip_axis`: `switch (im->ndims)` selects the update function (`default` = last) -/",
          "def updateFor (ndims : Int) : It → It :=",
          f"  if ndims = {enum[int(g[0])]} then update{g[1]}d else if ndims = {enum[int(g[2])]} then update{g[3]}d "
          f"else if ndims = {enum[int(g[4])]} then update{g[5]}d else update{g[6]}d"]
    # ---- init ----
    head = sq[:sw.start()].replace("im->", "im_").replace("iter.", "iter_")
    m = _need(re.fullmatch(
        r"fff_array_iteratoriter;ptrdiff_tpY,pZ,pT;iter_idx=(?P<idx>[^;]+);iter_size=(?P<size>[^;]+);"
        r"iter_data=\(char\*\)im_data;iter_x=(?P<x>[^;]+);iter_y=(?P<y>[^;]+);iter_z=(?P<z>[^;]+);iter_t=(?P<t>[^;]+);"
        r"iter_ddimY=(?P<dY>[^;]+);iter_ddimZ=(?P<dZ>[^;]+);iter_ddimT=(?P<dT>[^;]+);"
        r"if\((?P<c3>[^{}]+?)\)\{(?P<b3>[^{}]*)\}elseif\((?P<c2>[^{}]+?)\)\{(?P<b2>[^{}]*)\}"
        r"elseif\((?P<c1>[^{}]+?)\)\{(?P<b1>[^{}]*)\}elseif\((?P<c0>[^;{}]+?)\)(?P<b0>[^;{}]*;)"
        r"pY=(?P<pY>[^;]+);pZ=(?P<pZ>[^;]+);pT=(?P<pT>[^;]+);"
        r"iter_incT=(?P<iT>[^;]+);iter_incZ=(?P<iZ>[^;]+);iter_incY=(?P<iY>[^;]+);iter_incX=(?P<iX>[^;]+);", head),
        FA, "fff_array_iterator_init_skip_axis")
    par = ["im_dimX", "im_dimY", "im_dimZ", "im_dimT", "im_byte_offsetX", "im_byte_offsetY", "im_byte_offsetZ",
           "im_byte_offsetT", "im_data", "axis"]
    ty = {k: "Int" for k in par + ["iter_size", "iter_ddimY", "iter_ddimZ", "iter_ddimT", "pY", "pZ", "pT"]}
    iv = lambda e: _val(e, ty, "Int")

    def branch(text):
        cur = {"iter_ddimY": "iter_ddimY", "iter_ddimZ": "iter_ddimZ", "iter_ddimT": "iter_ddimT", "iter_size": "iter_size"}
        for st in [t for t in text.split(";") if t]:
            mm = re.fullmatch(r"(iter_\w+)(/?)=(.+)", st)
            if not mm or mm.group(1) not in cur:
                raise Shape(f"{FA}: init_skip_axis: statement `{st}` not recognised")
            cur[mm.group(1)] = iv(f"{mm.group(1)}/({mm.group(3)})") if mm.group(2) else iv(mm.group(3))
        return f"({cur['iter_ddimY']}, {cur['iter_ddimZ']}, {cur['iter_ddimT']}, {cur['iter_size']})"
    L += ["/-- `fff_array_iterator_init_skip_axis(im, axis)`: counters, boundary parameters (the skipped axis gets `ddim = 0`"
          " and divides `size`), and the increments `inc? = byte_offset? - p…` -/",
          "def iterInitC (" + " ".join(par) + " : Int) : It :=",
          f"  let iter_size := {iv(m['size'])}",
          f"  let iter_ddimY := {iv(m['dY'])}", f"  let iter_ddimZ := {iv(m['dZ'])}", f"  let iter_ddimT := {iv(m['dT'])}",
          "  let r : Int × Int × Int × Int :=",
          f"    if {_prop(m['c3'], ty)} then {branch(m['b3'])}",
          f"    else if {_prop(m['c2'], ty)} then {branch(m['b2'])}",
          f"    else if {_prop(m['c1'], ty)} then {branch(m['b1'])}",
          f"    else if {_prop(m['c0'], ty)} then {branch(m['b0'])}",
          "    else (iter_ddimY, iter_ddimZ, iter_ddimT, iter_size)",
          "  let iter_ddimY := r.1", "  let iter_ddimZ := r.2.1", "  let iter_ddimT := r.2.2.1", "  let iter_size := r.2.2.2",
          f"  let pY := {iv(m['pY'])}", f"  let pZ := {iv(m['pZ'])}", f"  let pT := {iv(m['pT'])}",
          f"  {{ idx := {iv(m['idx'])}, size := iter_size, data := im_data, x := {iv(m['x'])}, y := {iv(m['y'])}, "
          f"z := {iv(m['z'])}, t := {iv(m['t'])},",
          "    ddimY := iter_ddimY, ddimZ := iter_ddimZ, ddimT := iter_ddimT,",
          f"    incT := {iv(m['iT'])}, incZ := {iv(m['iZ'])}, incY := {iv(m['iY'])}, incX := {iv(m['iX'])} }}"]
    L += ["", "end Fff", ""]
    return L


# --------------------------------------------------------------------------------------------------
def _prng(repo):
    src = strip_comments(open(os.path.join(repo, WP)).read())
    sq = squash(function_body(src, "prng_double", WP)).replace("rng->", "")
    L = ["namespace Prng", ""]
    mods = []
    for v in ("ix", "iy", "iz", "it"):
        m = _need(re.search(v + r"=([^;]+);", sq), WP, f"recurrence of {v}")
        f = _need(re.search(r"if\((" + v + r"<0)\)" + v + r"=(" + v + r"\+(\d+));", sq), WP, f"fix-up of {v}")
        t = {v: "Int"}
        L += _def("step_" + v, [(v, "Int")], "Int",
                  [f"let {v} := {_val(m.group(1), t, 'Int')}",
                   f"if {_prop(f.group(1), t)} then {_val(f.group(2), t, 'Int')} else {v}"],
                  f"`prng_double`: `{v} = {m.group(1)}; if ({f.group(1)}) {v} = {f.group(2)}`")
        mods.append(f.group(3))
    m = _need(re.search(r"W=([^;]+);returnW-\(int\)W;$", sq), WP, "output of prng_double")
    t = {"ix": "Int", "iy": "Int", "iz": "Int", "it": "Int"}
    L += _def("W", [("ix", "Int"), ("iy", "Int"), ("iz", "Int"), ("it", "Int")], "Rat", [_val(m.group(1), t, "Rat")],
              f"`prng_double`: `W = {m.group(1)}` on the updated state")
    L += _def("out", [("W", "Rat")], "Rat", [_val("W - (int)W", {"W": "Rat"}, "Rat")], "`prng_double`: `return W - (int)W`")
    L += ["", "end Prng", ""]
    return L


# --------------------------------------------------------------------------------------------------
def translate(repo, TieBroken):
    head = ["/- GENERATED by harness/props/c16_kern.py from the text of the tree under test:",
            f"   {CS}, {QT},", f"   {FB}, lib/fff/fff_array.c, {FV}, {WP}.  Do not edit. -/",
            "set_option linter.unusedVariables false", "namespace NipyVerif.C16.Kern", "",
            "/-- C `(int)a` for a double within `int` range: truncation toward zero -/",
            "def truncC (a : Rat) : Int := if 0 ≤ a then a.floor else -((-a).floor)", ""]
    try:
        body = _spline(repo) + _quantile(repo) + _fff(repo) + _array_iter(repo) + _prng(repo)
    except (Shape, CParseError, OSError) as e:
        raise TieBroken(f"c16_kern: {e}")
    return [(OUT, "\n".join(head + body + ["end NipyVerif.C16.Kern", ""]))]


if __name__ == "__main__":
    class _T(Exception):
        pass
    print(translate(os.environ.get("NIPY_VERIF_REPO", "/repo"), _T)[0][1])
