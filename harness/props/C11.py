"""C11 — graph algorithms return what their graph-theoretic definitions say.

Correspondence: every anchored routine of nipy.algorithms.graph (dijkstra/floyd,
voronoi_labelling, cc, kruskal, mst, the structural operations and queries, knn/eps_nn/
cross_knn/cross_eps/graph_3d_grid, the matrix builders, BipartiteGraph operations,
euclidean_distance) against the Lean model `NipyVerif.Model.C11` / `C11B`; the model
also evaluates, on its own output, the certificates (`| ok`) — which are theorems now for
dijkstra / voronoi / cc / kruskal and a per-output check for `mst`.  The direction tables
of `graph_3d_grid` are regenerated from the source (`harness/props/c11_more.py`).  Oracle: the clauses of the property evaluated on the real code against
independent brute-force references (own Dijkstra/union-find/Kruskal, SciPy csgraph
as a second reference where it is applicable).
"""
from __future__ import annotations

import heapq
import itertools
import signal
from fractions import Fraction

import numpy as np

from harness.core import PropertyCheck
from harness.props import c11_more as M2
from harness.props import c11_w3 as W3
from harness.util import Snapshot, close, errname
from harness.util import fr as _fr

INF = float("inf")
WCHOICES = [0.0, 0.5, 1.0, 1.0, 1.0, 2.0, 2.0, 3.0, 0.25, 1.5, 4.0]
TINY_EPS = 1e-16
TINY_X = 1e-15


# ----------------------------------------------------------------------
# references (no nipy code)
# ----------------------------------------------------------------------
def ref_dist(V, edges, seeds):
    adj = [[] for _ in range(V)]
    for u, v, w in edges:
        adj[u].append((v, w))
    d = [INF] * V
    h = []
    for s in seeds:
        d[s] = 0.0
        h.append((0.0, s))
    heapq.heapify(h)
    done = [False] * V
    while h:
        du, u = heapq.heappop(h)
        if done[u]:
            continue
        done[u] = True
        for v, w in adj[u]:
            if du + w < d[v]:
                d[v] = du + w
                heapq.heappush(h, (d[v], v))
    return d


def ref_bellman(V, edges, seeds):
    d = [INF] * V
    for s in seeds:
        d[s] = 0.0
    for _ in range(V):
        ch = False
        for u, v, w in edges:
            if d[u] + w < d[v]:
                d[v] = d[u] + w
                ch = True
        if not ch:
            break
    return d


class UF:
    def __init__(self, n):
        self.p = list(range(n))

    def find(self, a):
        while self.p[a] != a:
            self.p[a] = self.p[self.p[a]]
            a = self.p[a]
        return a

    def union(self, a, b):
        a, b = self.find(a), self.find(b)
        if a == b:
            return False
        self.p[max(a, b)] = min(a, b)
        return True


def ref_components(V, edges):
    uf = UF(V)
    for u, v, _ in edges:
        uf.union(u, v)
    roots = {}
    lab = []
    for v in range(V):
        r = uf.find(v)
        if r not in roots:
            roots[r] = len(roots)
        lab.append(roots[r])
    return lab


def ref_mst_weight(V, edges):
    uf = UF(V)
    tot, cnt = 0.0, 0
    for u, v, w in sorted(edges, key=lambda e: e[2]):
        if uf.union(u, v):
            tot += w
            cnt += 1
    return tot, cnt


def dense(V, edges):
    A = np.zeros((V, V))
    for u, v, w in edges:
        A[u, v] += w
    return A


def is_symmetric(V, edges):
    c = {}
    for u, v, w in edges:
        c[(u, v, w)] = c.get((u, v, w), 0) + 1
    return all(c.get((v, u, w), 0) == n for (u, v, w), n in c.items())


# ----------------------------------------------------------------------
# text helpers
# ----------------------------------------------------------------------
def fr(x):
    x = float(x)
    if x != x:
        return "nan"
    if x in (INF, -INF):
        return "inf" if x > 0 else "-inf"
    return _fr(x)


def frs(xs):
    return " ".join(fr(x) for x in xs)


def gline(V, edges):
    return f"{V} {len(edges)} " + " ".join(f"{u} {v} {fr(w)}" for u, v, w in edges)


def gobs(g, sort=True):
    """canonical text of a WeightedGraph: V E i j w ... (sorted when the order is not defined)"""
    E = int(g.E)
    ed = np.asarray(g.edges).reshape(-1, 2) if E else np.zeros((0, 2), int)
    w = np.asarray(g.weights, float).ravel() if E else np.zeros(0)
    rows = [(int(a), int(b), float(c)) for (a, b), c in zip(ed.tolist(), w.tolist())]
    if sort:
        rows.sort()
    return " ".join([str(int(g.V)), str(len(rows))] + [f"{a} {b} {fr(c)}" for a, b, c in rows])


def gedges(g):
    E = int(g.E)
    if not E:
        return []
    return [(int(a), int(b), float(c)) for (a, b), c in
            zip(np.asarray(g.edges).tolist(), np.asarray(g.weights, float).ravel().tolist())]


def consistent(g):
    E = int(g.E)
    ne = 0 if (isinstance(g.edges, list) and not g.edges) else np.shape(g.edges)[0]
    return E == ne == np.size(g.weights)


def exact_weights(edges):
    """path sums of these weights are exact in double precision (multiples of 2^-20 below 2^20)"""
    return all(abs(w) < 2 ** 20 and float(w * 2 ** 20).is_integer() for _, _, w in edges)


def dtxt(d):
    return " ".join("inf" if x == INF else fr(x) for x in d)


class _Timeout(Exception):
    pass


def _alarm(signum, frame):
    raise _Timeout()


def with_timeout(f, seconds=2.0):
    old = signal.signal(signal.SIGALRM, _alarm)
    try:
        # repeating: nipy has bare `except:` clauses that would swallow a single alarm
        signal.setitimer(signal.ITIMER_REAL, seconds, 0.02)
        return f()
    finally:
        while True:
            try:
                signal.setitimer(signal.ITIMER_REAL, 0)
                break
            except _Timeout:
                continue
        signal.signal(signal.SIGALRM, old)


# ----------------------------------------------------------------------
class C11(PropertyCheck):
    id = "C11"
    title = "Graph algorithms return what their graph-theoretic definitions say"
    lean_modules = ["NipyVerif.Props.C11", "NipyVerif.Props.C11W", "NipyVerif.Props.C11Bor"]
    driver = "Drivers/C11.lean"
    rule = ("cases are operation histories on one graph object obtained from the constructor or from a builder "
            "(wgraph_from_coo_matrix on coo / csr / csc / lil input with SciPy's int32 indices, wgraph_from_adjacency, knn, "
            "eps_nn, mst, wgraph_from_3d_grid, complete_graph, concatenate_graphs): a query that may memoise, then in-place / "
            "copying structural operations — normalize(0 / 1 / 2), (anti_)symmeterize, remove_trivial_edges, "
            "cut_redundancies, copy, subgraph and remove_edges with the selector as 0/1, bool, signed scores, floats, a "
            "column or uint8, set_weights, set_euclidian (coordinates in several integer types and memory layouts), "
            "set_gaussian, concatenate_graphs, from_3d_grid, voronoi_diagram — each followed by shortest-path, Voronoi, "
            "component, spanning-forest, adjacency, compact_neighb, degree, incidence, neighbour-list, is_connected and "
            "main_cc queries, every step compared with the model and with a recomputation from the object's current "
            "edges; weighted (multi)digraphs / symmetric graphs with seeds and a vertex mask, edge indices in "
            "int8…int64 / uint8 / uint16 and weights in int8…int64 / uint8 / uint16 when integral (every structural "
            "operation, every query, the matrix builders from dense / Fortran-ordered / coo / csr / csc / lil input, the "
            "unweighted base class; graphs on 40-300 vertices also through concatenate_graphs and compact_neighb); point "
            "clouds with k and eps (knn, eps_nn, mst, euclidean_distance) and pairs of point clouds (cross_knn, cross_eps), "
            "near and far from the origin, given as float64 or int8…int64 / uint8 / uint16 and as C / Fortran / strided / "
            "negative-stride / read-only arrays; bipartite graphs with left/right vertex masks and from coo input with "
            "stored zeros; seed/sample sets for voronoi_diagram (a single seed included); complete graphs; sets of lattice "
            "coordinates in signed / unsigned / float types; thorough enumerates every "
            "digraph on <= 4 vertices, every weighted digraph on 3 vertices and every weighted symmetric graph "
            "on 4 vertices with weights in {0,1,2}, every undirected graph on 5 vertices, every subset of the 2x2x2 lattice "
            "cube; non-trivial = at least one edge (graphs), at least two points, or a history of >= 3 calls; distinct by "
            "full JSON of the case")
    assumptions = [
        "Euclidean distances (a sqrt) are a parameter of the knn / eps_nn models: the matrix nipy computed is passed "
        "to the model as exact dyadic rationals; euclidean_distance and set_euclidian are modelled exactly up to the sqrt "
        "(sqDist_eq_def, edgeSq) and the returned roots are accepted when s*s is within 2^-48 (relative) of the exact square",
        "compact_neighb is modelled as written (argsort of edges[:,0] * float(V) + edges[:,1], slices cut at the cumulated "
        "out-degrees; compact_slice_perm proves the slices hold exactly the out-edges); the double-precision key is the "
        "integer key under V*V <= 2^53, which the model checks on every line (cnExact) and the generator never exceeds; "
        "np.argsort's order among rows with equal keys (repetitions of one pair) is not modelled: a slice is compared as a "
        "multiset. scipy's lil row order is modelled as sorted distinct targets",
        "np.argsort tie order (kruskal, cross_knn, voronoi_diagram) is not modelled: sorted weights / admissible pairs "
        "are the canonical observation; for voronoi_diagram the pair of nearest seeds cross_knn returns for every sample "
        "is a parameter of the model, certified on every line (nearest2OK: distinct, nearest, second nearest)",
        "Voronoi labels are specified up to ties: with weights whose path sums are exact in double precision the labels "
        "must equal the model's (loop as written); after normalize / set_gaussian / set_euclidian / on builder outputs "
        "with inexact lengths a label is accepted iff its seed is a nearest one by the model's exact distances within 1e-12",
        "set_gaussian / voronoi_diagram: the exponent -d^2/(2 sigma) is exact in the model; exp is applied by the "
        "implementation only (compared through log to 1e-9, and by the oracle against numpy)",
        "normalize(2): the two diagonal scalings 1/s**.5 the implementation hands back are parameters of the model, "
        "certified on every line (r >= 0, r*r*s within 2^-40 of 1, r = 1 where the sum is 0); the product r1[i]*a[i,j]*r2[j] "
        "is exact in the model and compared to 1e-9. On directed graphs the documentation gives no meaning beyond "
        "'nothing is performed where the sum is 0': the oracle states the zero / sign pattern, the model the code as written",
        "mst (Boruvka on point clouds): the loop is modelled as written on the squared distances; minimality follows from "
        "mst_certificate_sound through the certificate mstCertB the model evaluates on every output (reported as `ok`); "
        "cut_steps_certificate / boruvka_rounds_minimum show the certificate holds for every spanning result of abstract "
        "Boruvka rounds (ties included); that mstLinks / mstMerge as written refine such rounds is the open lemma",
        "graph_3d_grid: distinct lattice points (the property quantifies over sets of coordinates)",
        "cross_knn / cross_eps use the squared Euclidean metric (weights and eps threshold), as their code and tests do",
        "kruskal pads its edge array with 2k-2 rows (0,0) of weight 0; the padding is not counted as part of the forest",
        "knn: pairs at distance 0 cannot be represented by wgraph_from_adjacency and are accepted either way",
        "normalize is divided in floating point: compared with the exact model to 1e-9",
        "BipartiteGraph.subgraph_right compares the mask length with V (as written and as its docstring says); the "
        "oracle states the documented result only where V = W",
        "dtype / layout presentations are not part of the model (it works on the numbers): the oracle demands the "
        "float64 / intp answer for every presentation; float32 is not presented (nipy then computes in single precision)",
        "cliques (replicator dynamics), show (plotting) are executed / excluded without a clause of the property",
    ]
    level_note = ("dijkstra, voronoi_labelling, cc and kruskal are proved correct for all inputs from their loop "
                  "invariants (no certificate); compact_neighb's slices are proved to be the out-edges for the key "
                  "arithmetic as written (injectivity / lexicographic order of i*V+j, dtype bound as hypothesis); "
                  "graph_3d_grid is proved against the unit-offset definition for all "
                  "sets of lattice points with tables regenerated from the source; structural operations (also "
                  "normalize(2) with certified scalings, remove_edges for any selector, csc input), eps/knn "
                  "builders, main_cc and voronoi_diagram (given the certified nearest pairs) are proved against the "
                  "adjacency matrix / reachability; Boruvka's algorithm is proved to return a minimum spanning "
                  "forest with ties (cut_steps_minimum, boruvka_round_cut_steps, boruvka_rounds_minimum: lightest "
                  "proposals per component, examined in any order, accepted iff the ends are not yet connected) - "
                  "that the loops of mst as written (mstLinks / argminR, the ufFind merge, cc relabelling, fuel) "
                  "refine these abstract rounds is not proved (mst_minimal_of_cut_rows_partial names the glue): "
                  "minimality of mst itself stays certificate-based; cross_knn selection and cliques are oracle-only")

    def translators(self):
        return [("NipyVerif/Gen/C11Grid.lean", M2.grid_lean_text())]

    # ------------------------------------------------------------------
    # generation
    # ------------------------------------------------------------------
    XDTYPES = [None, None, None, None, "int64", "int32", "int16", "int8", "uint8", "uint16"]
    IWCHOICES = [0.0, 1.0, 1.0, 2.0, 3.0, 4.0, 100.0, 120.0, 200.0]
    WDTYPES = [None, None, None, None, None, "int64", "int32", "int16", "uint8", "int8", "uint16"]

    def _rand_graph(self, rng, V, sym, dens=None, big=False, integral=False):
        edges = []
        WCH = self.IWCHOICES if integral else WCHOICES
        if dens is None:
            dens = rng.choice([0.0, 0.15, 0.3, 0.5, 0.8])
        pairs = [(u, v) for u in range(V) for v in range(V) if (u < v if sym else u != v)]
        if big:
            m = int(rng.choice([0.5, 1, 2, 3]) * V)
            pairs = [(rng.randrange(V), rng.randrange(V)) for _ in range(m)]
            pairs = [(u, v) for u, v in pairs if u != v]
            dens = 1.0
        for u, v in pairs:
            if rng.random() < dens:
                w = rng.choice(WCH)
                edges.append([u, v, w])
                if sym:
                    edges.append([v, u, w])
                if rng.random() < 0.15:      # parallel edge
                    w2 = rng.choice(WCH)
                    edges.append([u, v, w2])
                    if sym:
                        edges.append([v, u, w2])
        for v in range(V):
            if rng.random() < 0.08:          # self-loop
                edges.append([v, v, rng.choice(WCH)])
        rng.shuffle(edges)
        return edges

    def _gcase(self, rng, V, edges, sym, big=False):
        ns = rng.choice([1, 1, 2, 2, 3, 5]) if V > 1 else 1
        seeds = rng.sample(range(V), min(ns, V))
        if rng.random() < 0.03:
            seeds = []
        valid = [1 if rng.random() < 0.6 else 0 for _ in range(V)]
        if rng.random() < 0.05:
            valid = [0] * V
        c = {"kind": "g", "V": V, "e": edges, "seeds": seeds, "valid": valid, "sym": bool(sym),
             "edtype": rng.choice([None, None, None, "int32", "int16", "uint8", "int8", "uint16", "int64"]),
             # how the caller stores the weights ("type=int" in the class docstring): applied when every weight is
             # a value of that type
             "wdtype": rng.choice(self.WDTYPES)}
        if big:
            c["big"] = True
        return c

    def _exhaustive(self, rng, tier):
        out = []
        # every digraph on 3 vertices (no loops), weights {absent,0,1,2}
        pairs3 = [(u, v) for u in range(3) for v in range(3) if u != v]
        combos = list(itertools.product([None, 0.0, 1.0, 2.0], repeat=6))
        if tier == "quick":
            combos = rng.sample(combos, 150)
        for ws in combos:
            e = [[u, v, w] for (u, v), w in zip(pairs3, ws) if w is not None]
            out.append(self._gcase(rng, 3, e, False))
        # every digraph on 4 vertices (topology), random weights
        pairs4 = [(u, v) for u in range(4) for v in range(4) if u != v]
        masks = range(1 << 12) if tier != "quick" else rng.sample(range(1 << 12), 150)
        for m in masks:
            e = [[u, v, rng.choice([0.0, 1.0, 1.0, 2.0, 0.5])] for b, (u, v) in enumerate(pairs4) if m >> b & 1]
            out.append(self._gcase(rng, 4, e, False))
        # every weighted symmetric graph on 4 vertices
        up4 = [(u, v) for u in range(4) for v in range(u + 1, 4)]
        combos = list(itertools.product([None, 0.0, 1.0, 2.0], repeat=6))
        if tier == "quick":
            combos = rng.sample(combos, 150)
        for ws in combos:
            e = []
            for (u, v), w in zip(up4, ws):
                if w is not None:
                    e += [[u, v, w], [v, u, w]]
            out.append(self._gcase(rng, 4, e, True))
        # every undirected graph on 5 vertices, random weights
        up5 = [(u, v) for u in range(5) for v in range(u + 1, 5)]
        masks = range(1 << 10) if tier != "quick" else rng.sample(range(1 << 10), 100)
        for m in masks:
            e = []
            for b, (u, v) in enumerate(up5):
                if m >> b & 1:
                    w = rng.choice([0.0, 1.0, 1.0, 2.0, 3.0])
                    e += [[u, v, w], [v, u, w]]
            out.append(self._gcase(rng, 5, e, True))
        return out

    def _points(self, rng, n, dim):
        style = rng.choice(["grid", "grid", "dup", "line", "half", "far", "far"])
        far = [rng.choice([0, 100, 120, 181, 1000]) for _ in range(dim)]   # coordinates far from the origin
        pts = []
        for _ in range(n):
            if style == "half":
                p = [rng.randrange(-6, 7) / 2 for _ in range(dim)]
            elif style == "line":
                p = [float(rng.randrange(0, 6))] + [0.0] * (dim - 1)
            elif style == "far":
                p = [float(far[d] + rng.randrange(0, 4) * rng.choice([1, 1, 20])) for d in range(dim)]
            else:
                p = [float(rng.randrange(0, 4)) for _ in range(dim)]
            pts.append(p)
        if style == "dup" and n > 1:
            for _ in range(max(1, n // 3)):
                pts[rng.randrange(n)] = list(pts[rng.randrange(n)])
        if rng.random() < 0.04:
            pts = [list(pts[0]) for _ in range(n)]     # all identical
        return pts

    QUERIES = ["dij", "dij", "floyd", "vor", "cc", "kru", "dense", "compact", "deg", "linc", "rinc", "lon", "isc", "mcc"]
    MUTS = ["normalize", "normalize", "normalize", "symmeterize", "symmeterize", "anti_symmeterize", "rte", "cut", "copy",
            "sub", "setw", "assignw", "euclid", "remove_edges", "remove_edges", "scalew", "gauss", "concat", "from_grid",
            "vdiag"]
    STARTS = ["ctor", "ctor", "ctor", "ctor", "coo", "coo", "csr", "csc", "lil", "adj", "knn", "eps", "mst", "grid",
              "complete", "cat"]

    def _hist_case(self, rng):
        """query -> in-place / copying operation -> query ... on one object; the first step always builds
        whatever a query may memoise, every mutation is followed by at least one shortest-path query.  The object
        is obtained from the constructor or from a builder (SciPy hands back int32 indices, the point-cloud
        builders inexact lengths)."""
        V = rng.choice([2, 3, 4, 4, 5, 6, 8])
        style = rng.choice(["sym", "symedges", "directed"])
        start = rng.choice(self.STARTS)
        wide = rng.random() < 0.12 and start in ("ctor", "coo", "csr", "csc", "lil")
        integral = rng.random() < 0.3
        if wide:      # more vertices than a narrow index type can square: V*V > 255 (uint8), sparse edges
            V = rng.choice([17, 20, 24, 33, 40, 70, 130])
            edges = self._rand_graph(rng, V, style != "directed", big=True, integral=integral)
        else:
            edges = self._rand_graph(rng, V, style != "directed", rng.choice([0.3, 0.5, 0.8]), integral=integral)
        if rng.random() < 0.04:
            edges = []                 # a graph without edges goes through every operation as well
        if style == "symedges":        # symmetric edge set, asymmetric weights: symmeterize keeps E
            edges = [[u, v, rng.choice((self.IWCHOICES if integral else WCHOICES)[1:])] for u, v, _ in edges]
        if rng.random() < 0.5:         # no stored zero: the E-preserving operations really keep E
            edges = [[u, v, w if w > 0 else 1.0] for u, v, w in edges]
        c = {"kind": "hist", "V": V, "e": edges, "start": start,
             # how the caller stores the edge indices (label / mesh files give narrow integer types, SciPy int32)
             "edtype": rng.choice([None, None, None, "int32", "int16", "uint8", "int8", "uint16", "int64"]),
             "wdtype": rng.choice(self.WDTYPES)}
        if start in ("knn", "eps", "mst"):
            n = rng.choice([2, 3, 4, 5, 6, 8])
            c["X"] = self._points(rng, n, rng.choice([1, 2, 3]))
            c["k"] = rng.choice([1, 1, 2, 3])
            c["eps"] = rng.choice([1.0, 1.5, 2.0, 3.0])
            c["V"], c["e"] = n, []
        elif start == "grid":
            cells = [(x, y, z) for x in range(3) for y in range(3) for z in range(2)]
            pts = rng.sample(cells, rng.choice([2, 3, 4, 6, 8]))
            c["xyz"] = [list(p) for p in pts]
            c["k"] = rng.choice([6, 18, 26])
            c["V"], c["e"] = len(pts), []
        elif start == "complete":
            c["V"], c["e"] = rng.choice([1, 2, 3, 4]), []
        V = c["V"]
        steps = [[rng.choice(["dij", "floyd", "vor", "compact"]), [rng.randrange(V) for _ in range(2)]]]
        for _ in range(rng.choice([1, 2, 2, 3, 4])):
            m = rng.choice(self.MUTS)
            arg = None
            if m == "normalize":
                arg = rng.choice([0, 0, 1, 2, 2])
            elif m in ("sub", "remove_edges"):
                arg = [1 if rng.random() < 0.75 else 0 for _ in range(64)]
                if rng.random() < 0.05:
                    arg = [0] * 64
            elif m in ("setw", "assignw"):
                arg = [rng.choice(self.IWCHOICES if integral else WCHOICES) for _ in range(64)]
            elif m in ("euclid", "gauss", "vdiag"):
                arg = [float(rng.randrange(0, 9)) for _ in range(16)]
            elif m == "scalew":
                arg = rng.choice([2.0, 0.5, 4.0])
            elif m == "from_grid":
                arg = [rng.randrange(0, 3) for _ in range(16)] + [rng.choice([6, 18, 26])]
            elif m == "concat":
                arg = rng.choice(["self", "self", "edgeless", "loop"])
            steps.append([m, arg])
            qs = [rng.choice(["dij", "floyd", "vor"])] + [rng.choice(self.QUERIES) for _ in range(rng.choice([0, 1, 2]))]
            for qn in qs:
                steps.append([qn, [rng.randrange(8) for _ in range(rng.choice([1, 2, 3]))]])
        c["steps"] = steps
        return c

    def generate(self, rng, tier):
        q = tier == "quick"
        cases = [
            # the two defects named in the design, and the smallest no-edge graph
            {"kind": "g", "V": 3, "e": [[0, 1, 3.0], [0, 1, 5.0], [1, 2, 1.0]], "seeds": [0], "valid": [1, 1, 1], "sym": False},
            {"kind": "g", "V": 3, "e": [], "seeds": [0], "valid": [1, 0, 1], "sym": True},
            {"kind": "pts", "X": [[0.0], [0.5], [1.0], [3.0], [7.0]], "k": 4, "eps": 1.0},
            {"kind": "pts", "X": [[0.0, 0.0], [0.0, 1.0], [1.0, 0.0], [1.0, 1.0]], "k": 1, "eps": 1.0},
        ]
        cases += [
            {"kind": "hist", "V": 4, "e": [[0, 1, 1.0], [1, 2, 2.0], [2, 3, 3.0], [3, 0, 4.0], [0, 2, 10.0], [2, 0, 1.0]],
             "steps": [["floyd", [0, 1, 2, 3]], ["normalize", c], ["floyd", [0, 1, 2, 3]], ["dij", [0]], ["vor", [0, 3]]]}
            for c in (0, 1)] + [
            {"kind": "hist", "V": 5, "e": [[0, 1, 1.0], [1, 0, 9.0], [1, 2, 2.0], [2, 1, 8.0], [2, 3, 7.0], [3, 2, 3.0]],
             "steps": [["dij", [0]], ["vor", [0, 3]], ["symmeterize", None], ["dij", [0]], ["vor", [0, 3]],
                       ["euclid", [0.0, 5.0, 6.0, 7.0, 9.0]], ["floyd", [0, 3]], ["vor", [0, 3]]]}]
        cases += self._exhaustive(rng, tier)
        for _ in range(250 if q else 3000):
            V = rng.choice([1, 2, 3, 4, 5, 6, 8, 10, 14, 20, 30])
            sym = rng.random() < 0.6
            cases.append(self._gcase(rng, V, self._rand_graph(rng, V, sym, integral=rng.random() < 0.3), sym))
        for _ in range(12 if q else 120):
            V = rng.choice([40, 80, 150, 300])
            sym = rng.random() < 0.7
            cases.append(self._gcase(rng, V, self._rand_graph(rng, V, sym, big=True, integral=rng.random() < 0.3), sym,
                                     big=True))
        for _ in range(260 if q else 3000):   # operation histories on ONE graph object
            cases.append(self._hist_case(rng))
        for _ in range(20 if q else 150):     # malformed: a negative weight
            V = rng.choice([2, 3, 5])
            e = self._rand_graph(rng, V, False, 0.6)
            if e:
                e[rng.randrange(len(e))][2] = -1.0
            cases.append(self._gcase(rng, V, e, False))
        for _ in range(180 if q else 3000):
            n = rng.choice([1, 2, 3, 4, 5, 6, 8, 12, 20])
            dim = rng.choice([1, 2, 3, 4])
            X = self._points(rng, n, dim)
            k = rng.choice([1, 1, 2, 3, max(1, n - 2), max(1, n - 1), n, n + 3])
            cases.append({"kind": "pts", "X": X, "k": k,
                          "eps": rng.choice([0.0, 0.5, 1.0, 1.0, 1.5, 2.0, 3.0, 100.0, -1.0]),
                          # the same coordinates as the caller may hold them (voxel indices, labels: integer types)
                          "xdt": rng.choice(self.XDTYPES), "lay": rng.choice(W3.LAYOUTS)})
        for _ in range(120 if q else 1500):
            dim = rng.choice([1, 2, 3, 4])
            X = self._points(rng, rng.choice([1, 2, 3, 5, 8]), dim)
            Y = self._points(rng, rng.choice([1, 2, 3, 5, 8]), dim)
            n2 = len(Y)
            cases.append({"kind": "xpts", "X": X, "Y": Y, "k": rng.choice([1, 1, 2, max(1, n2 - 1), n2, n2 + 2]),
                          "eps": rng.choice([0.0, 0.5, 1.0, 2.0, 4.0, 9.5, 100.0]),
                          "xdt": rng.choice(self.XDTYPES), "ydt": rng.choice(self.XDTYPES), "lay": rng.choice(W3.LAYOUTS)})
        for _ in range(150 if q else 2000):
            n = rng.choice([1, 2, 3, 4, 6, 9, 15, 27, 40])
            style = rng.choice(["box", "aniso", "clusters", "diag", "segments", "segments", "slab", "slab", "tripod"])
            off = [rng.randrange(-5, 6) for _ in range(3)]
            if style == "box":
                ext = [rng.choice([1, 2, 2, 3, 4])] * 3
            elif style == "aniso":      # long thin / flat boxes: the extents enter the base of the positional code
                ext = [rng.choice([0, 1, 2, 3, 6, 12, 25]) for _ in range(3)]
            else:
                ext = [rng.choice([2, 4, 9]) for _ in range(3)]
            if style == "segments":     # union of lattice segments along unit offsets: L-, V- and anti-diagonal shapes,
                cells = set()           # far from filling their bounding box
                for _ in range(rng.choice([1, 2, 2, 3])):
                    p0 = [rng.randrange(0, 4) for _ in range(3)]
                    d = rng.choice([o for o in itertools.product((-1, 0, 1), repeat=3) if any(o)])
                    thick = rng.random() < 0.5
                    for t in range(rng.choice([2, 5, 9, 14, 22])):
                        c = (p0[0] + t * d[0], p0[1] + t * d[1], p0[2] + t * d[2])
                        cells.add(c)
                        if thick:
                            o = rng.choice([(1, 0, 0), (0, 1, 0), (0, 0, 1), (1, 1, 0), (0, 1, 1), (1, 1, 1), (1, -1, 0)])
                            cells.add((c[0] + o[0], c[1] + o[1], c[2] + o[2]))
                cells = sorted(cells)
                n = rng.choice([n, n, len(cells)])
            elif style == "slab":       # two adjacent lattice planes s.p = c, c+1 cut by a cube: small coordinate sums,
                E = rng.choice([3, 4, 6, 9])   # large coordinate differences
                sg = [rng.choice([-1, 1]) for _ in range(3)]
                c0 = rng.randrange(-E, E + 1)
                cells = [(x, y, z) for x in range(E + 1) for y in range(E + 1) for z in range(E + 1)
                         if sg[0] * x + sg[1] * y + sg[2] * z in (c0, c0 + 1)] or [(0, 0, 0)]
                n = rng.choice([n, len(cells), len(cells)])
            elif style == "tripod":     # three axis-parallel legs of different lengths from a small cube
                legs = [rng.choice([2, 5, 9, 17]) for _ in range(3)]
                cells = sorted({(x, y, z) for x in range(2) for y in range(2) for z in range(2)}
                               | {(t, a, b) for t in range(legs[0]) for a in (0, 1) for b in (0, 1)}
                               | {(a, t, b) for t in range(legs[1]) for a in (0, 1) for b in (0, 1)}
                               | {(a, b, t) for t in range(legs[2]) for a in (0, 1) for b in (0, 1)})
                n = rng.choice([n, len(cells)])
            elif style == "clusters":     # two small clusters at opposite corners of the box
                a = [(x, y, z) for x in range(2) for y in range(2) for z in range(2)]
                cells = a + [(ext[0] + x, ext[1] + y, ext[2] + z) for x, y, z in a]
            elif style == "diag":       # a staircase through the box plus its first neighbours
                cells = sorted({(min(t + dx, ext[0]), min(t + dy, ext[1]), min(t + dz, ext[2]))
                                for t in range(max(ext) + 1) for dx in (0, 1) for dy in (0, 1) for dz in (0, 1)})
            else:
                cells = [(x, y, z) for x in range(ext[0] + 1) for y in range(ext[1] + 1) for z in range(ext[2] + 1)]
            pts = rng.sample(cells, min(n, len(cells)))
            cases.append({"kind": "grid", "xyz": [[p[0] + off[0], p[1] + off[1], p[2] + off[2]] for p in pts],
                          "k": rng.choice([6, 18, 26, 26]),
                          "xdt": rng.choice([None, None, None, "int8", "uint8", "int16", "uint16", "int32", "uint32", "int64",
                                             "float64"]),
                          "lay": rng.choice(W3.LAYOUTS)})
        for _ in range(120 if q else 1500):
            cases.append(M2.gen_bip(rng))
        for _ in range(40 if q else 400):
            cases.append(M2.gen_vd(rng))
        for n in ([1, 2, 3, 5] if q else range(1, 13)):
            cases.append({"kind": "complete", "n": n})
        if not q:   # every subset of the 2x2x2 cube, every neighbourhood system
            cube = list(itertools.product([0, 1], repeat=3))
            for m in range(1, 256):
                pts = [list(c) for b, c in enumerate(cube) if m >> b & 1]
                for k in (6, 18, 26):
                    cases.append({"kind": "grid", "xyz": pts, "k": k})
        return cases

    # ------------------------------------------------------------------
    def run_case(self, case):
        import warnings
        warnings.filterwarnings("ignore")
        from nipy.algorithms.graph import graph as G
        self._edtype = case.get("edtype")
        self._wdtype = case.get("wdtype")
        if case["kind"] == "bip":
            return M2.bip_case(case)
        if case["kind"] == "vd":
            return M2.vd_case(case, G)
        return getattr(self, "_" + case["kind"])(case, G)

    # ---- graphs ------------------------------------------------------
    _edtype = None
    _wdtype = None

    def _mk(self, G, V, edges):
        if edges:
            dt = np.intp
            if self._edtype and V - 1 <= np.iinfo(self._edtype).max:
                dt = np.dtype(self._edtype)
            w = np.array([w for _, _, w in edges], dtype=float)
            if self._wdtype and W3.representable(w, self._wdtype):
                w = w.astype(self._wdtype)      # the same numbers as the caller may hold them
            return G.WeightedGraph(V, np.array([[u, v] for u, v, _ in edges], dtype=dt), w)
        return G.WeightedGraph(V)

    def _how(self):
        h = [f"edge indices {self._edtype}" if self._edtype else "", f"weights {self._wdtype}" if self._wdtype else ""]
        h = ", ".join(x for x in h if x)
        return f" [{h}]" if h else ""

    def _g(self, c, G):
        V, edges, seeds = c["V"], [tuple(e) for e in c["e"]], c["seeds"]
        sym = is_symmetric(V, edges)
        big = c.get("big", False)
        neg = any(w < 0 for _, _, w in edges)
        gl = gline(V, edges)
        lines, impl, fails, tags = [], [], [], ["graph", "sym" if sym else "directed"]
        if not edges:
            tags.append("no-edges")
        if len({(u, v) for u, v, _ in edges}) < len(edges):
            tags.append("parallel")
        if any(w == 0 for _, _, w in edges):
            tags.append("zero-weight")
        if any(u == v for u, v, _ in edges):
            tags.append("self-loop")

        def call(name, f):
            """run a nipy routine; an exception on an input the property quantifies over is a failure"""
            try:
                return True, f()
            except _Timeout:
                fails.append(f"{name} did not terminate within 2 s")
                return False, "timeout"
            except Exception as e:
                return False, errname(e)

        def add(line, obs):
            lines.append(line)
            impl.append(obs)

        A = dense(V, edges) if not big else None

        # --- dijkstra / floyd
        seedsets = [seeds] + ([[s] for s in seeds[:2]])
        for ss in seedsets:
            arg = np.array(ss, dtype=np.intp)
            ok, r = call("dijkstra", lambda: self._mk(G, V, edges).dijkstra(arg))
            sl = f"{len(ss)} " + " ".join(map(str, ss))
            if neg:
                add(f"dij {gl} {sl}".strip(), "error:valueError" if not ok else dtxt(r) + " | ok")
                if ok:
                    fails.append("dijkstra accepted a negative weight")
                tags.append("neg-weight")
                break
            if not ok:
                fails.append(f"dijkstra(seed={ss}) raised {r} on V={V} edges={edges[:8]}")
                add(f"dij {gl} {sl}".strip(), r)
                continue
            add(f"dij {gl} {sl}".strip(), dtxt(r) + " | ok")
            want = ref_dist(V, edges, ss)
            if list(r) != want or (V <= 6 and ref_bellman(V, edges, ss) != want):
                j = next((i for i in range(V) if r[i] != want[i]), 0)
                fails.append(f"dijkstra(seed={ss}): distance to vertex {j} is {r[j]}, true minimum path length {want[j]} "
                             f"(edges {edges[:8]})")
        if not neg and seeds and not big:
            ok, r = call("dijkstra", lambda: self._mk(G, V, edges).dijkstra(int(seeds[0])))
            if not ok or list(r) != ref_dist(V, edges, seeds[:1]):
                fails.append(f"dijkstra(int seed {seeds[0]}) = {r} differs from the true distances")
            ok, F = call("floyd", lambda: self._mk(G, V, edges).floyd(np.array(seeds, dtype=np.intp)))
            if not ok:
                fails.append(f"floyd(seeds={seeds}) raised {F}")
            else:
                F = np.atleast_2d(F)
                for row, s in zip(F, seeds):
                    if list(row) != ref_dist(V, edges, [s]):
                        fails.append(f"floyd row for seed {s} = {list(row)} differs from the true distances")
                        break
            if V <= 8 and edges and all(w > 0 for _, _, w in edges):
                from scipy.sparse.csgraph import dijkstra as sp_dij
                M = np.full((V, V), INF)
                for u, v, w in edges:
                    M[u, v] = min(M[u, v], w)
                M[~np.isfinite(M)] = 0
                ok, F = call("floyd", lambda: self._mk(G, V, edges).floyd())
                if ok and not np.array_equal(np.atleast_2d(F), sp_dij(M, directed=True)):
                    fails.append("floyd() differs from scipy.sparse.csgraph.dijkstra")
        if neg:
            if fails:
                fails[0] += self._how()
            return {"lines": lines, "impl": impl, "oracle": fails[0] if fails else None,
                    "nontrivial": True, "tags": tags, "mutated": None}

        # --- voronoi
        ok, lab = call("voronoi_labelling", lambda: self._mk(G, V, edges).voronoi_labelling(np.array(seeds, dtype=np.intp)))
        sl = f"{len(seeds)} " + " ".join(map(str, seeds))
        if not ok:
            fails.append(f"voronoi_labelling(seed={seeds}) raised {lab}")
            add(f"vor {gl} {sl}".strip(), lab)
        else:
            add(f"vor {gl} {sl}".strip(), "VOR 1 " + " ".join(str(int(x)) for x in lab))
            dS = ref_dist(V, edges, seeds)
            dI = [ref_dist(V, edges, [s]) for s in seeds]
            for v in range(V):
                li = int(lab[v])
                if dS[v] == INF:
                    if li != -1:
                        fails.append(f"voronoi_labelling: unreachable vertex {v} labelled {li}")
                        break
                elif not (0 <= li < len(seeds)) or dI[li][v] != dS[v]:
                    fails.append(f"voronoi_labelling(seed={seeds}): vertex {v} labelled {li} but its nearest seed is at "
                                 f"distance {dS[v]}" + (f", seed {li} at {dI[li][v]}" if 0 <= li < len(seeds) else ""))
                    break

        # --- connected components
        ok, lab = call("cc", lambda: self._mk(G, V, edges).cc())
        if not ok:
            fails.append(f"cc raised {lab}")
            add(f"cc {gl}", lab)
        else:
            add(f"cc {gl}" if sym else f"ccd {gl}", " ".join(str(int(x)) for x in lab) + (" | ok" if sym else ""))
            if sym:
                want = ref_components(V, edges)
                if [int(x) for x in lab] != want:
                    fails.append(f"cc labels {list(map(int, lab))} are not the components by reachability {want} "
                                 f"(numbered 0..k-1 by first vertex)")
                k = max(want) + 1
                ok, ic = call("is_connected", lambda: self._mk(G, V, edges).is_connected())
                if not ok or bool(ic) != (k == 1):
                    fails.append(f"is_connected = {ic} but the graph has {k} component(s)")
                if edges:
                    ok, mc = call("main_cc", lambda: self._mk(G, V, edges).main_cc())
                    sizes = [want.count(j) for j in range(k)]
                    if not ok:
                        fails.append(f"main_cc raised {mc}")
                    else:
                        mc = [int(x) for x in np.atleast_1d(mc)]
                        labs = {want[v] for v in mc}
                        if len(labs) != 1 or sizes[next(iter(labs))] != max(sizes) or len(mc) != max(sizes):
                            fails.append(f"main_cc = {mc} is not a largest component (sizes {sizes})")

        # --- kruskal
        if sym:
            ok, K = call("kruskal", lambda: self._mk(G, V, edges).kruskal())
            if not ok:
                fails.append(f"kruskal raised {K}")
                add(f"kru {gl}", K)
            else:
                ke = gedges(K)
                want = ref_components(V, edges)
                k = max(want) + 1
                real = ke[: 2 * (V - k)]
                pad = ke[2 * (V - k):]
                ws = sorted(w for (_, _, w) in real[::2])
                add(f"kru {gl}", f"{k} | {frs(ws)} | ok".replace("  ", " "))
                eset = set(edges)
                uf = UF(V)
                bad = None
                if len(ke) != 2 * V - 2 or any(e != (0, 0, 0.0) for e in pad):
                    bad = f"edge array of {len(ke)} rows, expected {2 * (V - k)} forest rows and (0,0) padding"
                for i in range(0, len(real), 2):
                    (a, b, w), (b2, a2, w2) = real[i], real[i + 1]
                    if (a, b, w) != (a2, b2, w2) or (a, b, w) not in eset:
                        bad = f"row {i}: {(a, b, w)} / {(b2, a2, w2)} is not an edge of the graph in both directions"
                        break
                    if not uf.union(a, b):
                        bad = f"edge {(a, b)} closes a cycle"
                        break
                if bad is None:
                    if ref_components(V, [(a, b, w) for a, b, w in real]) != want:
                        bad = "the forest does not span every component"
                    elif sum(ws) != ref_mst_weight(V, edges)[0]:
                        bad = f"total weight {sum(ws)} but the minimum spanning forest weighs {ref_mst_weight(V, edges)[0]}"
                if bad:
                    fails.append(f"kruskal: {bad} (V={V}, edges={edges[:10]})")

        if not big:
            self._structural(c, G, V, edges, gl, A, sym, call, add, fails)
        else:
            # large graphs: the row arithmetic of concatenate_graphs and the slices of compact_neighb
            e2 = edges[::-1][: max(1, len(edges) // 2)]
            ok, g = call("concatenate_graphs", lambda: G.concatenate_graphs(self._mk(G, V, edges), self._mk(G, V, e2)))
            if not ok:
                fails.append(f"concatenate_graphs raised {g} (V={V}, E1={len(edges)}, E2={len(e2)})")
            else:
                add(f"cat {gl} {gline(V, e2)}", gobs(g, sort=False))
                if int(g.V) != 2 * V or not consistent(g) or gedges(g) != edges + [(V + a, V + b, w) for a, b, w in e2]:
                    bad = next((i for i, (x, y) in enumerate(zip(gedges(g), edges + [(V + a, V + b, w) for a, b, w in e2]))
                                if x != y), 0)
                    fails.append(f"concatenate_graphs of two graphs on {V} vertices: row {bad} is "
                                 f"{(gedges(g) + [None] * (bad + 1))[bad]}, expected the second graph's row shifted by {V}")
            try:
                W3.compact_line(self._mk(G, V, edges), V, edges, add, fails.append)
            except Exception as e:      # noqa: BLE001
                fails.append(f"compact_neighb raised {type(e).__name__}: {e} (V={V})")
        if fails:
            fails[0] += self._how()
        return {"lines": lines, "impl": impl, "oracle": fails[0] if fails else None,
                "nontrivial": bool(edges), "tags": tags, "mutated": None}

    def _structural(self, c, G, V, edges, gl, A, sym, call, add, fails):
        mk = lambda: self._mk(G, V, edges)   # noqa: E731
        # adjacency export
        ok, M = call("to_coo_matrix", lambda: mk().to_coo_matrix().toarray())
        if not ok:
            fails.append(f"to_coo_matrix raised {M}")
        else:
            add(f"dense {gl}", frs(M.ravel().tolist()))
            if not np.array_equal(M, A):
                fails.append("to_coo_matrix().toarray() is not the weighted adjacency matrix (parallel edges added)")
        ok, M = call("adjacency", lambda: mk().adjacency().toarray())
        if not ok or not np.array_equal(M, dense(V, [(u, v, 1.0) for u, v, _ in edges])):
            fails.append(f"adjacency() is not the edge-count matrix ({M if not ok else ''})")

        # queries that only read the rows: degrees, incidences, neighbour lists, connectivity
        for which in ("deg", "linc", "rinc", "lon", "isc", "mcc"):
            try:
                M2.query_lines(mk(), V, edges, sym, which, add, fails.append)
            except Exception as e:
                fails.append(f"{which} query raised {type(e).__name__}: {e} (V={V}, edges={edges[:8]})")
        M2.builder_lines(G, V, edges, A, add, fails)
        # lil_cc called directly on the rows in edge-list order (unsorted, repeated targets): the very lists the model's
        # breadth-first loop walks
        try:
            lab = [int(x) for x in G.lil_cc([[b for a, b, _ in edges if a == v] for v in range(V)])]
            add(f"cc {gl}" if sym else f"ccd {gl}", " ".join(map(str, lab)) + (" | ok" if sym else ""))
            if sym and lab != ref_components(V, edges):
                fails.append(f"lil_cc labels {lab} are not the components by reachability {ref_components(V, edges)}")
        except Exception as e:      # noqa: BLE001
            fails.append(f"lil_cc raised {type(e).__name__}: {e} (V={V}, edges={edges[:8]})")
        try:
            W3.compact_line(mk(), V, edges, add, fails.append)
        except Exception as e:      # noqa: BLE001
            fails.append(f"compact_neighb raised {type(e).__name__}: {e} (V={V}, edges={edges[:8]})")
        # remove_edges: an edge is removed iff its entry of `valid` is 0, whatever the type of the selector
        keep01 = np.array([(3 * i + len(edges) + V) % 4 != 0 for i in range(len(edges))], dtype=np.int64)
        for kind in ([W3.SELECTOR_KINDS[(len(edges) + V) % len(W3.SELECTOR_KINDS)], "scores"] if edges else ["int"]):
            valid = W3.selector(keep01, kind)
            def f():
                g = mk()
                g.remove_edges(valid)
                return g
            ok, g = call("remove_edges", f)
            if not ok:
                fails.append(f"remove_edges({kind} selector) raised {g} (E={len(edges)})")
                continue
            W3.rme_line(V, edges, valid, self._rows_txt(g), add)
            if not consistent(g) or gedges(g) != [e for e, k_ in zip(edges, keep01) if k_]:
                fails.append(f"remove_edges(valid={np.asarray(valid).ravel().tolist()}): E={int(g.E)}, rows "
                             f"{np.asarray(g.edges).tolist()[:8]} are not the rows whose entry is not 0 (edges {edges[:8]})")
        # set_euclidian on a small integer embedding, presented in several dtypes
        Xe = np.array([[float((3 * v + k_) % 7) for k_ in range(1 + V % 2)] for v in range(V)])
        for xdt in ([None, ["int64", "uint8", "int8", "int16", "uint16"][(V + len(edges)) % 5]]):
            def f():
                g = mk()
                g.set_euclidian(W3.present(Xe, xdt, W3.LAYOUTS[(V + len(edges)) % len(W3.LAYOUTS)]))
                return g
            ok, g = call("set_euclidian", f)
            if not ok:
                fails.append(f"set_euclidian raised {g} on a graph with {len(edges)} edges (X as {xdt or 'float64'})")
                continue
            W3.euclid_line(V, edges, Xe, np.asarray(g.weights, float) if edges else np.zeros(0), add)
            want = [(a, b, float(np.sqrt(((Xe[a] - Xe[b]) ** 2).sum()))) for a, b, _ in edges]
            if not consistent(g) or gedges(g) != want:
                fails.append(f"set_euclidian(X as {xdt or 'float64'}): weights {np.asarray(g.weights).tolist()[:6]} are not "
                             f"the distances {[w for _, _, w in want][:6]} between the embedded end points")
        M2.base_graph_oracle(G, V, edges, fails)
        if edges:
            # set_gaussian on a small integer embedding (sigma = 0 means the mean squared length)
            dim = 1 + (len(edges) + V) % 3
            X = np.array([[float(((v + 1) * (k + 2) * 7) % 5) for k in range(dim)] for v in range(V)])
            for sigma in (0.0, 2.0, -1.0)[: 3 if V % 3 == 0 else 2]:
                M2.gauss_line(G, mk, V, edges, X, sigma, add, fails)
            ok, cl = call("cliques", lambda: mk().cliques())
            if not ok:
                fails.append(f"cliques raised {cl} (V={V}, edges={edges[:8]})")
            elif np.shape(cl) != (V,):
                fails.append("cliques: labelling does not have one entry per vertex")
        ok, F = call("floyd", lambda: mk().floyd())
        if not ok:
            fails.append(f"floyd() raised {F}")
        elif np.atleast_2d(F).shape != (V, V) or any(list(np.atleast_2d(F)[s_]) != ref_dist(V, edges, [s_]) for s_ in range(V)):
            fails.append("floyd(): a row differs from the true single-source distances")

        def same(B, want, what, tol=0.0):
            if B.shape != want.shape or not (np.array_equal(B, want) if tol == 0 else np.allclose(B, want, rtol=tol, atol=tol)):
                fails.append(f"{what}: adjacency matrix {B.tolist()} expected {want.tolist()} (edges {edges[:8]})")
                return False
            return True

        def unique_pairs(g, what):
            pr = [(a, b) for a, b, _ in gedges(g)]
            if len(set(pr)) != len(pr):
                fails.append(f"{what}: an edge appears more than once")

        # symmeterize / anti_symmeterize
        for name, op, want in (("sym", "symmeterize", (A + A.T) / 2), ("asym", "anti_symmeterize", (A - A.T) / 2)):
            def f():
                g = mk()
                getattr(g, op)()
                return g
            ok, g = call(op, f)
            if not ok:
                fails.append(f"{op} raised {g} (V={V}, edges={edges[:8]})")
                add(f"{name} {gl}", g)
                continue
            add(f"{name} {gl}", gobs(g))
            if not consistent(g):
                fails.append(f"{op}: E, edges and weights have different lengths")
            elif same(dense(V, gedges(g)), want, op):
                unique_pairs(g, op)
        # cut_redundancies
        ok, g = call("cut_redundancies", lambda: mk().cut_redundancies())
        if not ok:
            fails.append(f"cut_redundancies raised {g} (V={V}, edges={edges[:8]})")
            add(f"cut {gl}", g)
        else:
            add(f"cut {gl}", gobs(g))
            if same(dense(V, gedges(g)), A, "cut_redundancies"):
                unique_pairs(g, "cut_redundancies")
                if {(a, b) for a, b, _ in gedges(g)} != {(a, b) for a, b, _ in edges}:
                    fails.append("cut_redundancies: the set of connected pairs changed")
        # remove_trivial_edges
        def f():
            g = mk()
            e = g.remove_trivial_edges()
            return g, e
        ok, r = call("remove_trivial_edges", f)
        if not ok:
            fails.append(f"remove_trivial_edges raised {r}")
            add(f"rte {gl}", r)
        else:
            g, e = r
            add(f"rte {gl}", gobs(g, sort=False))
            if int(e) != int(g.E) or not consistent(g) or gedges(g) != [x for x in edges if x[0] != x[1]]:
                fails.append(f"remove_trivial_edges: edges {gedges(g)} are not the non-loop edges of {edges}")
        # subgraph
        valid = np.array(c["valid"])
        ok, g = call("subgraph", lambda: mk().subgraph(valid))
        vl = f"{V} " + " ".join(str(int(x)) for x in valid)
        if not ok:
            fails.append(f"subgraph raised {g} (valid={c['valid']})")
            add(f"sub {gl} {vl}", g)
        elif g is None:
            add(f"sub {gl} {vl}", "none")
            if valid.sum() > 0:
                fails.append("subgraph returned None although vertices are kept")
        else:
            add(f"sub {gl} {vl}", gobs(g, sort=False))
            keep = np.nonzero(valid)[0]
            if valid.sum() == 0 or int(g.V) != len(keep) or not consistent(g):
                fails.append(f"subgraph: {int(g.V)} vertices for mask {c['valid']}")
            else:
                same(dense(int(g.V), gedges(g)), A[np.ix_(keep, keep)], f"subgraph(valid={c['valid']})")
                if len(gedges(g)) != sum(1 for u, v, _ in edges if valid[u] and valid[v]):
                    fails.append("subgraph: number of edges differs from the edges between kept vertices")
        # concatenate with a rotated copy of itself
        e2 = [((u + 1) % V, (v + 1) % V, w) for u, v, w in edges[: max(0, len(edges) - 1)]]
        ok, g = call("concatenate_graphs", lambda: G.concatenate_graphs(mk(), self._mk(G, V, e2)))
        if not ok:
            fails.append(f"concatenate_graphs raised {g} (E1={len(edges)}, E2={len(e2)})")
            add(f"cat {gl} {gline(V, e2)}", g)
        else:
            add(f"cat {gl} {gline(V, e2)}", gobs(g, sort=False))
            want = np.zeros((2 * V, 2 * V))
            want[:V, :V] = A
            want[V:, V:] = dense(V, e2)
            if int(g.V) != 2 * V or not consistent(g):
                fails.append("concatenate_graphs: wrong number of vertices / inconsistent arrays")
            else:
                same(dense(2 * V, gedges(g)), want, "concatenate_graphs")
        # normalize
        for cc_ in (0, 1, 2):
            def f():
                g = mk()
                r = g.normalize(cc_)
                return g, r
            ok, r = call("normalize", f)
            if not ok:
                fails.append(f"normalize({cc_}) raised {r} (V={V}, edges={edges[:8]})")
                if cc_ < 2:
                    add(f"norm {cc_} {gl}", r)
                continue
            g, ret = r
            rs, cs = A.sum(1), A.sum(0)
            if cc_ == 2 and edges:
                W3.norm2_line(V, edges, gobs(g), ret, add)
                if not sym:       # no documented meaning beyond "nothing is performed where the sum is 0"
                    if not consistent(g) or not np.array_equal(np.sign(dense(V, gedges(g))), np.sign(A)):
                        fails.append(f"normalize(2) changed the zero / sign pattern of the adjacency matrix (edges {edges[:8]})")
                    continue
            if cc_ < 2:
                sums = rs if cc_ == 0 else cs
                retv = np.asarray(ret, float).ravel()
                add(f"norm {cc_} {gl}", gobs(g) + " | " + frs(retv.tolist()))
            if not consistent(g):
                fails.append(f"normalize({cc_}): {int(g.E)} edges but {np.size(g.weights)} weights (edges {edges[:8]})")
                continue
            B = dense(V, gedges(g))
            with np.errstate(all="ignore"):
                if cc_ == 0:
                    want = A / np.where(rs == 0, 1, rs)[:, None]
                elif cc_ == 1:
                    want = A / np.where(cs == 0, 1, cs)[None, :]
                else:
                    want = A / np.sqrt(np.where(rs == 0, 1, rs)[:, None] * np.where(cs == 0, 1, cs)[None, :])
            if not same(B, want, f"normalize({cc_})", 1e-12):
                continue
            if cc_ < 2:
                tot = B.sum(1) if cc_ == 0 else B.sum(0)
                if not np.allclose(tot[sums != 0], 1, atol=1e-12) or not np.array_equal(retv, sums):
                    fails.append(f"normalize({cc_}): sums {tot.tolist()} / returned {retv.tolist()}")

    def _complete(self, c, G):
        n = c["n"]
        fails = []
        g = G.complete_graph(n)
        if not np.array_equal(dense(n, gedges(g)), np.ones((n, n))) or int(g.E) != n * n:
            fails.append(f"complete_graph({n}): adjacency matrix is not all ones")
        return {"lines": [f"complete {n}"], "impl": [gobs(g)], "oracle": fails[0] if fails else None,
                "nontrivial": n >= 2, "tags": ["complete"], "mutated": None}

    # ---- operation histories on one object ---------------------------
    def _start(self, G, c):
        """the object a history starts from, and how it was obtained"""
        from scipy import sparse as sp
        start = c.get("start", "ctor")
        V, edges = c["V"], [tuple(e) for e in c["e"]]
        if start in ("coo", "csr", "csc", "lil") and edges:
            i = np.array([e[0] for e in edges]); j = np.array([e[1] for e in edges])
            w = np.array([e[2] for e in edges], dtype=float)
            m = sp.coo_matrix((w, (i, j)), shape=(V, V))
            m = {"coo": m, "csr": m.tocsr(), "csc": m.tocsc(), "lil": m.tolil()}[start]
            return G.wgraph_from_coo_matrix(m), f"wgraph_from_coo_matrix({start} matrix)"
        if start == "adj" and edges:
            return G.wgraph_from_adjacency(dense(V, edges)), "wgraph_from_adjacency"
        if start == "cat" and edges:
            return (G.concatenate_graphs(self._mk(G, V, edges), self._mk(G, V, edges[::-1])),
                    "concatenate_graphs(g, g reversed)")
        if start in ("knn", "eps", "mst"):
            X = np.array(c["X"], dtype=float)
            if start == "knn":
                return G.knn(X, c["k"]), f"knn(X, {c['k']})"
            if start == "eps":
                return G.eps_nn(X, c["eps"]), f"eps_nn(X, {c['eps']})"
            return with_timeout(lambda: G.mst(X)), "mst(X)"
        if start == "grid":
            return G.wgraph_from_3d_grid(np.array(c["xyz"], dtype=np.intp).reshape(-1, 3), c["k"]), \
                f"wgraph_from_3d_grid(xyz, {c['k']})"
        if start == "complete":
            return G.complete_graph(V), f"complete_graph({V})"
        return self._mk(G, V, edges), "WeightedGraph(V, edges, weights)" + self._how()

    @staticmethod
    def _rows_txt(g):
        """V, the E the object claims, and the rows its arrays really hold"""
        ed = np.asarray(g.edges).reshape(-1, 2)
        w = np.asarray(g.weights, float).ravel()
        return " ".join([str(int(g.V)), str(int(g.E))] + [f"{int(a)} {int(b)} {fr(x)}" for (a, b), x in zip(ed.tolist(), w.tolist())])

    def _hist(self, c, G):
        lines, impl, fails, tags = [], [], [], ["history", "start:" + c.get("start", "ctor")]
        trail = []
        try:
            g, origin = self._start(G, c)
        except _Timeout:
            return {"lines": [], "impl": [], "oracle": f"mst(X) did not terminate within 2 s (X={c.get('X')})",
                    "nontrivial": True, "tags": tags, "mutated": None}
        except Exception as e:
            return {"lines": [], "impl": [], "oracle": f"building the graph ({c.get('start')}) raised "
                    f"{type(e).__name__}: {e} (case {str(c)[:200]})", "nontrivial": True, "tags": tags, "mutated": None}
        V0, edges0 = int(g.V), gedges(g)

        def add(line, obs):
            lines.append(line)
            impl.append(obs)

        def fail(msg):
            fails.append(f"after {origin}{' -> ' if trail else ''}{' -> '.join(trail)}: {msg} "
                         f"(start V={V0} edges={edges0[:10]}, current edges={gedges(g)[:10]})")

        def eqd(a, b):
            return len(a) == len(b) and all((x == y) or (x != INF and y != INF and close(x, y, 1e-9, 1e-12))
                                             for x, y in zip(a, b))
        if not consistent(g):
            fail("E, edges and weights of the new graph have different lengths")

        for name, arg in c["steps"]:
            if fails:
                break
            cur, V = gedges(g), int(g.V)
            gl = gline(V, cur)
            neg = any(w < 0 for _, _, w in cur)
            sym = is_symmetric(V, cur)
            label = name if arg is None or isinstance(arg, list) else f"{name}({arg})"
            try:
                # ------------------------------------------------ queries
                if name in ("dij", "floyd", "vor"):
                    seeds = list(dict.fromkeys(int(x) % V for x in arg))
                    sl = f"{len(seeds)} " + " ".join(map(str, seeds))
                    sa = np.array(seeds, dtype=np.intp)
                    if neg:
                        try:
                            g.dijkstra(sa) if name != "vor" else g.voronoi_labelling(sa)
                            fail(f"{name} accepted a negative weight")
                        except ValueError:
                            add(f"{'vor' if name == 'vor' else 'dij'} {gl} {sl}", "error:valueError")
                        trail.append(label)
                        continue
                    if name == "dij":
                        r = [float(x) for x in g.dijkstra(sa)]
                        add(f"dij {gl} {sl}", dtxt(r) + " | ok")
                        want = ref_dist(V, cur, seeds)
                        if not eqd(r, want):
                            fail(f"dijkstra(seed={seeds}) = {r} but the true distances of the current graph are {want}")
                    elif name == "floyd":
                        F = np.atleast_2d(g.floyd(sa))
                        for row, s_ in zip(F, seeds):
                            r = [float(x) for x in row]
                            add(f"dij {gl} 1 {s_}", dtxt(r) + " | ok")
                            want = ref_dist(V, cur, [s_])
                            if not eqd(r, want):
                                fail(f"floyd row of seed {s_} = {r} but the true distances of the current graph are {want}")
                                break
                    else:
                        lab = [int(x) for x in g.voronoi_labelling(sa)]
                        add(f"vor {gl} {sl}", f"VOR {int(exact_weights(cur))} " + " ".join(map(str, lab)))
                        dS = ref_dist(V, cur, seeds)
                        dI = [ref_dist(V, cur, [s_]) for s_ in seeds]
                        for v in range(V):
                            li = lab[v]
                            if (dS[v] == INF and li != -1) or (dS[v] != INF and (
                                    not 0 <= li < len(seeds) or not close(dI[li][v], dS[v], 1e-9, 1e-12))):
                                fail(f"voronoi_labelling(seed={seeds}) labels vertex {v} with {li}; distances from the "
                                     f"seeds in the current graph are {[d[v] for d in dI]}")
                                break
                elif name == "cc":
                    lab = [int(x) for x in g.cc()]
                    add(f"cc {gl}" if sym else f"ccd {gl}", " ".join(map(str, lab)) + (" | ok" if sym else ""))
                    if sym and lab != ref_components(V, cur):
                        fail(f"cc labels {lab} are not the components {ref_components(V, cur)}")
                elif name == "kru":
                    if sym and not neg:
                        K = g.kruskal()
                        k = max(ref_components(V, cur)) + 1
                        real = gedges(K)[: 2 * (V - k)]
                        ws = sorted(w for _, _, w in real[::2])
                        add(f"kru {gl}", f"{k} | {frs(ws)} | ok")
                        uf = UF(V)
                        if len(real) != 2 * (V - k) or any(e not in set(cur) for e in real) or \
                                not all(uf.union(a, b) for a, b, _ in real[::2]) or \
                                not close(sum(ws), ref_mst_weight(V, cur)[0], 1e-9, 1e-12):
                            fail(f"kruskal edges {real} are not a minimum spanning forest of the current graph")
                elif name == "dense":
                    M = g.to_coo_matrix().toarray()
                    add(f"dense {gl}", frs(M.ravel().tolist()))
                    if not np.array_equal(M, dense(V, cur)):
                        fail("to_coo_matrix() is not the adjacency matrix of the current edges and weights")
                elif name in ("deg", "linc", "rinc", "lon", "isc", "mcc"):
                    if not neg:
                        M2.query_lines(g, V, cur, sym, name, add, fail)
                elif name == "compact":
                    W3.compact_line(g, V, cur, add, fail)
                # ------------------------------------------------ operations
                elif name == "normalize":
                    cc_ = int(arg)
                    if neg:
                        continue
                    A = dense(V, cur)
                    ret = g.normalize(cc_)
                    if not cur:
                        if int(g.E) != 0 or not consistent(g):
                            fail(f"normalize({cc_}) of a graph without edges has edges")
                        continue
                    if cc_ == 2:
                        W3.norm2_line(V, cur, gobs(g), ret, add)
                    if cc_ == 2 and not sym:
                        # what 'symmetric' normalisation means on a directed graph is not specified; what is:
                        # "when the sum is 0, nothing is performed" - every weight is divided by positive numbers
                        # (or left alone), so no entry of the adjacency matrix appears, vanishes or changes sign,
                        # and the two scalings handed back are positive
                        B = dense(V, gedges(g))
                        if not consistent(g) or not np.array_equal(np.sign(B), np.sign(A)):
                            fail("normalize(2) on a directed graph changed the zero / sign pattern of the adjacency "
                                 f"matrix: {A.tolist()} -> {B.tolist()}")
                        else:
                            try:
                                diags = [np.asarray(m.diagonal(), float) for m in ret]
                                if any((d_ <= 0).any() or not np.all(np.isfinite(d_)) for d_ in diags):
                                    fail(f"normalize(2) handed back a scaling that is not positive: "
                                         f"{[d_.tolist() for d_ in diags]}")
                            except Exception:      # noqa: BLE001
                                pass
                        continue
                    rs, cs = A.sum(1), A.sum(0)
                    if cc_ < 2:
                        add(f"norm {cc_} {gl}", gobs(g) + " | " + frs(np.asarray(ret, float).ravel().tolist()))
                    want = (A / np.where(rs == 0, 1, rs)[:, None] if cc_ == 0 else
                            A / np.where(cs == 0, 1, cs)[None, :] if cc_ == 1 else
                            A / np.sqrt(np.where(rs == 0, 1, rs)[:, None] * np.where(cs == 0, 1, cs)[None, :]))
                    if not consistent(g) or not np.allclose(dense(V, gedges(g)), want, rtol=1e-12, atol=1e-12):
                        fail(f"normalize({cc_}) did not scale the adjacency matrix as documented")
                elif name in ("symmeterize", "anti_symmeterize"):
                    A = dense(V, cur)
                    getattr(g, name)()
                    add(f"{'sym' if name == 'symmeterize' else 'asym'} {gl}", gobs(g))
                    want = (A + A.T) / 2 if name == "symmeterize" else (A - A.T) / 2
                    if not consistent(g) or not np.array_equal(dense(V, gedges(g)), want):
                        fail(f"{name} did not produce the (anti)symmetric part of the adjacency matrix")
                elif name == "rte":
                    g.remove_trivial_edges()
                    add(f"rte {gl}", gobs(g, sort=False))
                    if not consistent(g) or gedges(g) != [e for e in cur if e[0] != e[1]]:
                        fail("remove_trivial_edges did not keep exactly the non-loop edges")
                elif name == "cut":
                    g = g.cut_redundancies()
                    add(f"cut {gl}", gobs(g))
                    if not np.array_equal(dense(V, gedges(g)), dense(V, cur)):
                        fail("cut_redundancies changed the adjacency matrix")
                elif name == "copy":
                    old = g
                    g = g.copy()
                    if cur:
                        old.weights *= 3          # the copy must not follow its source
                        old.edges[:] = 0
                    if gedges(g) != cur or int(g.V) != V:
                        fail("copy() is not an independent copy of the graph")
                elif name == "sub":
                    keep01 = np.array([arg[i % len(arg)] for i in range(V)])
                    # the selector as callers hold it: 0/1 integers, booleans, or signed scores / labels of which
                    # the positive ones are kept ("vertices for which valid > 0")
                    how = ["int", "bool", "scores", "int", "float"][(int(keep01.sum()) + len(cur) + V) % 5]
                    if how == "bool":
                        valid = keep01.astype(bool)
                    elif how == "scores":
                        valid = np.where(keep01 > 0, 1 + (np.arange(V) % 3), -(np.arange(V) % 2)).astype(np.int64)
                    elif how == "float":
                        valid = np.where(keep01 > 0, 0.5 + (np.arange(V) % 2), -1.5 * (np.arange(V) % 2))
                    else:
                        valid = keep01
                    h = g.subgraph(valid)
                    valid = keep01
                    label = f"sub[{how}]"
                    vl = f"{V} " + " ".join(str(int(x)) for x in valid)
                    if h is None:
                        add(f"sub {gl} {vl}", "none")
                        if valid.sum() > 0:
                            fail("subgraph returned None although vertices are kept")
                    else:
                        add(f"sub {gl} {vl}", gobs(h, sort=False))
                        keep = np.nonzero(valid)[0]
                        if int(h.V) != len(keep) or not np.array_equal(dense(int(h.V), gedges(h)), dense(V, cur)[np.ix_(keep, keep)]):
                            fail(f"subgraph(valid={valid.tolist()}) is not the induced weighted subgraph")
                        g = h
                elif name in ("setw", "assignw", "scalew"):
                    if not cur:
                        continue
                    if name == "scalew":
                        w = np.array([x[2] for x in cur]) * float(arg)
                    else:
                        w = np.array([arg[i % len(arg)] for i in range(len(cur))])
                    wp = w.astype(self._wdtype) if self._wdtype and W3.representable(w, self._wdtype) else w.copy()
                    if name == "setw":
                        g.set_weights(wp)
                    elif name == "assignw":
                        g.weights = wp
                    elif np.asarray(g.weights).dtype.kind == "f":
                        g.weights *= float(arg)
                    else:
                        g.weights = g.weights * float(arg)
                    if gedges(g) != [(a, b, float(x)) for (a, b, _), x in zip(cur, w)]:
                        fail(f"{name}: the weights of the graph are not the assigned ones")
                elif name == "euclid":
                    X = np.array([arg[i % len(arg)] for i in range(V)], dtype=float).reshape(V, 1)
                    xdt = [None, "int64", "uint8", "int8", None, "int16", "uint16"][(V + len(cur)) % 7]
                    lay = W3.LAYOUTS[(V + 2 * len(cur)) % len(W3.LAYOUTS)]
                    label = f"set_euclidian[{W3.how(xdt, lay) or 'float64'}]"
                    g.set_euclidian(W3.present(X, xdt, lay))
                    W3.euclid_line(V, cur, X, np.asarray(g.weights, float) if cur else np.zeros(0), add)
                    want = [(a, b, float(abs(X[a, 0] - X[b, 0]))) for a, b, _ in cur]
                    if not consistent(g) or gedges(g) != want:
                        fail("set_euclidian: weights are not the distances between the embedded end points "
                             f"(X={X.ravel().tolist()})")
                elif name == "gauss":
                    X = np.array([arg[i % len(arg)] for i in range(V)], dtype=float).reshape(V, 1)
                    d2 = np.array([(X[a, 0] - X[b, 0]) ** 2 for a, b, _ in cur])
                    if cur and d2.mean() == 0:
                        continue
                    with np.errstate(all="ignore"):
                        g.set_gaussian(X)
                    if not cur:
                        if int(g.E) != 0 or np.size(g.weights) != 0:
                            fail("set_gaussian of a graph without edges has weights")
                        continue
                    want = np.exp(-d2 / (2 * d2.mean()))
                    add(f"gauss {gl} 0 {M2.mat(X)}", " ".join(fr(np.log(x)) for x in np.asarray(g.weights, float).tolist()))
                    if not consistent(g) or not np.allclose(np.asarray(g.weights, float), want, rtol=1e-12) or \
                            [(a, b) for a, b, _ in gedges(g)] != [(a, b) for a, b, _ in cur]:
                        fail("set_gaussian: weights are not exp(-d^2 / (2 mean d^2)) of the embedded end points")
                elif name == "remove_edges":
                    keep01 = np.array([arg[i % len(arg)] for i in range(len(cur))], dtype=np.int64)
                    kind = W3.SELECTOR_KINDS[(int(keep01.sum()) + len(cur) + V) % len(W3.SELECTOR_KINDS)]
                    valid = W3.selector(keep01, kind)
                    label = f"remove_edges[{kind}]"
                    g.remove_edges(valid)
                    W3.rme_line(V, cur, valid, self._rows_txt(g), add)
                    if not consistent(g) or gedges(g) != [e for e, k in zip(cur, keep01) if k]:
                        fail(f"remove_edges(valid={np.asarray(valid).ravel().tolist()}) did not keep exactly the edges "
                             f"whose entry is not 0: E={int(g.E)}, rows={np.asarray(g.edges).tolist()}")
                elif name == "concat":
                    if V > 150:
                        continue
                    if arg == "edgeless":
                        h, V2, e2 = G.WeightedGraph(2), 2, []
                    elif arg == "loop":
                        h, V2, e2 = G.WeightedGraph(1, np.array([[0, 0]]), np.array([1.0])), 1, [(0, 0, 1.0)]
                    else:
                        h, V2, e2 = g.copy(), V, list(cur)
                    g = G.concatenate_graphs(g, h)
                    add(f"cat {gl} {gline(V2, e2)}", gobs(g, sort=False))
                    if int(g.V) != V + V2 or not consistent(g) or \
                            gedges(g) != cur + [(V + a, V + b, w) for a, b, w in e2]:
                        fail(f"concatenate_graphs: rows {gedges(g)[:12]} are not the rows of the first graph followed by "
                             f"those of the second shifted by {V}")
                elif name == "from_grid":
                    if V > 27:
                        continue
                    cells = list(itertools.product(range(3), repeat=3))
                    off, stride, k = sum(arg[:16]) % 27, [2, 4, 5, 7, 8, 10][arg[0] % 6], arg[16]
                    xyz = np.array([cells[(off + v * stride) % 27] for v in range(V)], dtype=np.intp)
                    xdt = [None, "int8", "uint8", "int32", None, "int16"][(V + len(cur)) % 6]
                    E = g.from_3d_grid(W3.present(xyz, xdt, "C"), k)
                    label = f"from_3d_grid[{xdt or 'intp'}]({k})"
                    ed = gedges(g)
                    add(f"grid {k} {V} " + " ".join(str(int(x)) for x in xyz.ravel()),
                        " ".join([str(len(ed))] + [f"{a} {b} {int(round(w * w))}" for a, b, w in sorted(ed)]))
                    maxl1 = {6: 1, 18: 2, 26: 3}[k]
                    want = {(i, j): float(np.sqrt(np.abs(xyz[i] - xyz[j]).sum())) for i in range(V) for j in range(V)
                            if i != j and np.abs(xyz[i] - xyz[j]).max() <= 1 and np.abs(xyz[i] - xyz[j]).sum() <= maxl1}
                    if int(E) != len(ed) or not consistent(g) or len(ed) != len(want) or {(a, b): w for a, b, w in ed} != want:
                        fail(f"from_3d_grid(k={k}): edges differ from the {k}-neighbourhood of xyz={xyz.tolist()}")
                elif name == "vdiag":
                    S = np.array([[2.0 * v + (arg[v % 16] % 2), arg[(v + 3) % 16]] for v in range(V)])
                    X = np.array([[arg[(3 * s_ + 1) % 16] * V / 4.0, arg[(3 * s_ + 2) % 16]] for s_ in range(1 + int(arg[0]) % 6)])
                    with np.errstate(all="ignore"):
                        g.voronoi_diagram(S.copy(), X.copy())
                    if V == 1:
                        if int(g.E) != 0 or not consistent(g):
                            fail("voronoi_diagram with a single seed has edges")
                    else:
                        M2.vdiag_line(S, X, g, add)
                        msg = M2.vd_oracle(S, X, g)
                        if msg:
                            fail(msg)
                else:
                    raise KeyError(name)
            except (KeyError, _Timeout):
                raise
            except Exception as e:
                fail(f"{label} raised {type(e).__name__}: {e}")
                trail.append(label)
                break
            trail.append(label)
            tags.append("h:" + name)
        return {"lines": lines, "impl": impl, "oracle": fails[0] if fails else None,
                "nontrivial": len(c["steps"]) >= 3, "tags": sorted(set(tags)), "mutated": None}

    # ---- point clouds ------------------------------------------------
    def _pts(self, c, G):
        X = np.array(c["X"], dtype=float)
        Xp = W3.present(X, c.get("xdt"), c.get("lay", "C"))     # what nipy is given: same numbers, other dtype / layout
        n, k, eps = X.shape[0], c["k"], c["eps"]
        lines, impl, fails = [], [], []
        tags = ["points", f"dim={X.shape[1]}"]
        D2 = ((X[:, None, :] - X[None, :, :]) ** 2).sum(2)
        D = np.sqrt(D2)
        if len({tuple(p) for p in c["X"]}) < n:
            tags.append("duplicates")
        from nipy.algorithms.utils.fast_distance import euclidean_distance
        dist = euclidean_distance(Xp)
        if not np.array_equal(dist, D):
            fails.append("euclidean_distance differs from sqrt(sum (x-y)^2) on exactly representable points")
        dm = f"{n} {n} " + frs(dist.ravel().tolist())
        lines.append(f"eucl {M2.mat(X)} {M2.mat(X)} {dm}")
        impl.append(frs((dist ** 2).ravel().tolist()) + " | ok")
        snap = Snapshot(X=Xp)
        # knn
        try:
            g = G.knn(Xp, k)
            lines.append(f"knn {k} {dm}")
            impl.append(gobs(g))
            tags.append("k>=n-1" if k >= n - 1 else "k<n-1")
            ke = min(k, n - 1)
            got = {(a, b): w for a, b, w in gedges(g)}
            if len(got) != int(g.E):
                fails.append("knn: an edge appears twice")
            kth = [np.sort(D[:, j])[ke] for j in range(n)]       # k-th smallest distance to another point
            for i in range(n):
                for j in range(n):
                    if i == j or D[i, j] == 0:
                        if i == j and (i, j) in got:
                            fails.append(f"knn: self-edge at {i}")
                        continue
                    must = D[i, j] < kth[j] or D[i, j] < kth[i]
                    may = D[i, j] <= kth[j] or D[i, j] <= kth[i]
                    if ke == 0:
                        must = may = False
                    if must and (i, j) not in got:
                        fails.append(f"knn(k={k}): point {i} is among the {ke} nearest of {j} (or conversely) "
                                     f"but the edge ({i},{j}) is missing (X={c['X']})")
                    elif (i, j) in got and not may:
                        fails.append(f"knn(k={k}): edge ({i},{j}) joins points that are not {ke}-nearest neighbours")
                    elif (i, j) in got and got[(i, j)] != D[i, j]:
                        fails.append(f"knn: weight of ({i},{j}) is {got[(i, j)]}, distance {D[i, j]}")
                    if fails:
                        break
                if fails:
                    break
            if not fails and ke > 0:
                for j in range(n):
                    deg = sum(1 for (a, b) in got if b == j) + int((D[:, j] == 0).sum()) - 1
                    if deg < ke:
                        fails.append(f"knn(k={k}): point {j} has only {deg} neighbours, {ke} required (X={c['X']})")
                        break
        except Exception as e:
            fails.append(f"knn(X, k={k}) raised {type(e).__name__}: {e} on {n} points")
            lines.append(f"knn {k} {dm}")
            impl.append(errname(e))
        # eps_nn
        try:
            g = G.eps_nn(Xp, eps)
            lines.append(f"eps {fr(float(eps))} {fr(TINY_EPS)} {dm}")
            impl.append(gobs(g))
            want = {(i, j): max(D[i, j], TINY_EPS) for i in range(n) for j in range(n)
                    if i != j and max(D[i, j], TINY_EPS) < eps}
            got = {(a, b): w for a, b, w in gedges(g)}
            if got != want or len(got) != int(g.E):
                diff = sorted(set(got) ^ set(want))[:4]
                fails.append(f"eps_nn(eps={eps}): edge set differs from the pairs closer than eps at {diff} (X={c['X']})")
        except Exception as e:
            fails.append(f"eps_nn(X, eps={eps}) raised {type(e).__name__}: {e}")
        # mst (Boruvka on the complete Euclidean graph)
        if n <= 12:
            try:
                g = with_timeout(lambda: G.mst(Xp))
                ke = gedges(g)
                if n >= 2:
                    lines.append(f"mst {n} {n} " + frs(D2.ravel().tolist()))
                    impl.append(" ".join([str(len(ke))] + [f"{a} {b} {fr(D2[a, b])}" for a, b, _ in ke]) + " | ok")
                comp = [(i, j, D[i, j]) for i in range(n) for j in range(n) if i < j]
                bad = None
                if len(ke) != 2 * (n - 1):
                    bad = f"{len(ke)} directed edges for {n} points"
                else:
                    uf = UF(n)
                    for i in range(0, len(ke), 2):
                        (a, b, w), (b2, a2, w2) = ke[i], ke[i + 1]
                        if (a, b) != (a2, b2) or w != D[a, b] or w2 != w:
                            bad = f"rows {i},{i + 1} are not the two directions of one Euclidean edge"
                            break
                        if not uf.union(a, b):
                            bad = f"edge {(a, b)} closes a cycle"
                            break
                    if bad is None and not close(sum(w for _, _, w in ke[::2]), ref_mst_weight(n, comp)[0], 1e-12, 1e-12):
                        bad = (f"total length {sum(w for _, _, w in ke[::2])} but the minimum spanning tree has "
                               f"{ref_mst_weight(n, comp)[0]}")
                if bad:
                    fails.append(f"mst: {bad} (X={c['X']})")
                tags.append("mst")
            except _Timeout:
                fails.append(f"mst(X) did not terminate within 2 s on {n} points (X={c['X']})")
            except Exception as e:
                if n > 1:
                    fails.append(f"mst(X) raised {type(e).__name__}: {e} (X={c['X']})")
        hw = W3.how(Xp.dtype if Xp.dtype != np.float64 else None, c.get("lay", "C"))
        if fails and hw:
            fails[0] += f" [points given as {hw}]"
        if hw:
            tags.append("presented")
        return {"lines": lines, "impl": impl, "oracle": fails[0] if fails else None,
                "nontrivial": n >= 2, "tags": tags, "mutated": snap.changed()}

    def _xpts(self, c, G):
        from nipy.algorithms.graph.bipartite_graph import cross_eps, cross_knn
        X = np.array(c["X"], dtype=float)
        Y = np.array(c["Y"], dtype=float)
        Xp = W3.present(X, c.get("xdt"), c.get("lay", "C"))
        Yp = W3.present(Y, c.get("ydt"), "C")
        n1, n2, k, eps = len(X), len(Y), c["k"], c["eps"]
        SQ = ((X[:, None, :] - Y[None, :, :]) ** 2).sum(2)
        sm = f"{n1} {n2} " + frs(SQ.ravel().tolist())
        lines, impl, fails = [], [], []
        snap = Snapshot(X=Xp, Y=Yp)

        def bedges(g):
            if not int(g.E):
                return []
            return [(int(a), int(b), float(w)) for (a, b), w in zip(np.asarray(g.edges).tolist(),
                                                                    np.asarray(g.weights, float).tolist())]
        from nipy.algorithms.graph.bipartite_graph import check_feature_matrices
        from nipy.algorithms.utils.fast_distance import euclidean_distance
        try:
            ED = euclidean_distance(Xp, Yp)
            lines.append(f"eucl {M2.mat(X)} {M2.mat(Y)} {n1} {n2} " + frs(ED.ravel().tolist()))
            impl.append(frs((ED ** 2).ravel().tolist()) + " | ok")
            if not np.array_equal(ED, np.sqrt(SQ)):
                fails.append("euclidean_distance(X, Y) differs from sqrt(sum (x-y)^2) on exactly representable points")
            check_feature_matrices(Xp, Yp)
            try:
                check_feature_matrices(X, np.zeros((2, X.shape[1] + 1)))
                fails.append("check_feature_matrices accepted matrices of different widths")
            except ValueError:
                pass
            try:
                euclidean_distance(X, np.zeros((2, X.shape[1] + 1)))
                fails.append("euclidean_distance accepted matrices of different widths")
            except ValueError:
                pass
        except Exception as e:
            fails.append(f"euclidean_distance / check_feature_matrices raised {type(e).__name__}: {e}")
        try:
            g = cross_knn(Xp, Yp, k)
            be = bedges(g)
            rows = [sorted(w for a, _, w in be if a == i) for i in range(n1)]
            lines.append(f"xknn {k} {fr(TINY_X)} {n2} {sm}")
            impl.append(" | ".join(frs(r) for r in rows))
            ke = min(k, n2)
            for i in range(n1):
                mine = [(b, w) for a, b, w in be if a == i]
                srt = np.sort(SQ[i])
                if len(mine) != ke or len({b for b, _ in mine}) != len(mine):
                    fails.append(f"cross_knn(k={k}): point {i} of X has {len(mine)} neighbours among {n2} points of Y, "
                                 f"{ke} expected")
                    break
                if any(w != max(SQ[i, b], TINY_X) for b, w in mine) or sorted(SQ[i, b] for b, _ in mine) != srt[:ke].tolist():
                    fails.append(f"cross_knn(k={k}): neighbours of X[{i}] are not its {ke} nearest points of Y")
                    break
        except Exception as e:
            fails.append(f"cross_knn(k={k}) raised {type(e).__name__}: {e}")
        try:
            g = cross_eps(Xp, Yp, eps)
            be = bedges(g)
            lines.append(f"xeps {fr(float(eps))} {fr(TINY_X)} {n2} {sm}")
            impl.append(" ".join([str(len(be))] + [f"{a} {b} {fr(w)}" for a, b, w in sorted(be)]))
            want = sorted((i, j, max(SQ[i, j], TINY_X)) for i in range(n1) for j in range(n2) if SQ[i, j] < eps)
            if sorted(be) != want:
                fails.append(f"cross_eps(eps={eps}): edges differ from the pairs with squared distance < eps")
        except Exception as e:
            fails.append(f"cross_eps(eps={eps}) raised {type(e).__name__}: {e}")
        hw = "; ".join(x for x in (W3.how(Xp.dtype if Xp.dtype != np.float64 else None, c.get("lay", "C")),
                                   W3.how(Yp.dtype if Yp.dtype != np.float64 else None, "C")) if x)
        if fails and hw:
            fails[0] += f" [X / Y given as {hw}]"
        return {"lines": lines, "impl": impl, "oracle": fails[0] if fails else None,
                "nontrivial": n1 * n2 >= 2, "tags": ["cross", "k>=n2" if k >= n2 else "k<n2"] + (["presented"] if hw else []),
                "mutated": snap.changed()}

    def _grid(self, c, G):
        xyz = np.array(c["xyz"], dtype=np.intp).reshape(-1, 3)
        xp = W3.present(xyz, c.get("xdt"), c.get("lay", "C"))
        n, k = len(xyz), c["k"]
        lines, impl, fails = [], [], []
        snap = Snapshot(xyz=xp)
        try:
            g = G.wgraph_from_3d_grid(xp, k)
            ed = gedges(g)
            sq = sorted((a, b, int(round(w * w))) for a, b, w in ed)
            lines.append(f"grid {k} {n} " + " ".join(str(int(x)) for x in xyz.ravel()))
            impl.append(" ".join([str(len(sq))] + [f"{a} {b} {w}" for a, b, w in sq]))
            maxl1 = {6: 1, 18: 2, 26: 3}[k]
            want = {}
            for i in range(n):
                for j in range(n):
                    d = np.abs(xyz[i] - xyz[j])
                    if i != j and d.max() <= 1 and d.sum() <= maxl1:
                        want[(i, j)] = float(np.sqrt(d.sum()))
            got = {(a, b): w for a, b, w in ed}
            h = G.WeightedGraph(n)
            E = h.from_3d_grid(xp, k)
            if int(E) != len(ed) or gedges(h) != ed:
                fails.append(f"WeightedGraph.from_3d_grid(k={k}) differs from wgraph_from_3d_grid")
            for bad in (lambda: G.WeightedGraph(n + 1).from_3d_grid(xyz, k), lambda: G.wgraph_from_3d_grid(xyz[:, :2], k),
                        lambda: G.wgraph_from_3d_grid(xyz, 7)):
                try:
                    bad()
                    fails.append("a 3d-grid builder accepted an inconsistent shape / neighbourhood system")
                except ValueError:
                    pass
            if len(got) != len(ed):
                fails.append(f"wgraph_from_3d_grid(k={k}): an edge appears twice")
            elif got != want:
                diff = sorted(set(got) ^ set(want))[:4] or [p for p in got if got[p] != want[p]][:4]
                fails.append(f"wgraph_from_3d_grid(k={k}): edges differ from the {k}-neighbourhood at {diff} "
                             f"(xyz={c['xyz']})")
        except Exception as e:
            fails.append(f"wgraph_from_3d_grid(k={k}) raised {type(e).__name__}: {e} (xyz={c['xyz']})")
        hw = W3.how(xp.dtype if xp.dtype != np.intp else None, c.get("lay", "C"))
        if fails and hw:
            fails[0] += f" [xyz given as {hw}]"
        return {"lines": lines, "impl": impl, "oracle": fails[0] if fails else None,
                "nontrivial": n >= 2, "tags": ["grid", f"k={k}"] + (["presented"] if hw else []), "mutated": snap.changed()}

    # ------------------------------------------------------------------
    def compare(self, case, impl_obs, model_out):
        if str(impl_obs).startswith("VOR "):
            return self._compare_vor(str(impl_obs).split()[1:], model_out)
        a, b = str(impl_obs).split(), model_out.split()
        if a == b:
            return None
        if len(a) != len(b):
            return f"impl={str(impl_obs)[:300]!r} model={model_out[:300]!r}"
        for k, (x, y) in enumerate(zip(a, b)):
            if x == y:
                continue
            try:
                if close(Fraction(x), Fraction(y), 1e-9, 1e-12):
                    continue
            except (ValueError, ZeroDivisionError):
                pass
            return f"token {k}: impl={x} model={y} (impl={str(impl_obs)[:200]!r} model={model_out[:200]!r})"
        return None

    @staticmethod
    def _compare_vor(obs, model_out):
        """Voronoi labels are specified up to ties ("a nearest seed").  Exact weights: the labels must be the
        model's (tie rule of the loop as written).  Weights whose path sums round: a label is accepted iff its
        seed is a nearest one according to the model's exact single-seed distances, within rounding."""
        strict, labs = obs[0] == "1", [int(x) for x in obs[1:]]
        parts = [p.split() for p in model_out.split("|")]
        if len(parts) < 2 or parts[1] != ["ok"]:
            return f"voronoi model answer {model_out[:200]!r}"
        mlab = [int(x) for x in parts[0]]
        if labs == mlab:
            return None
        if strict or len(labs) != len(mlab):
            return f"voronoi labels impl={labs} model={mlab}"
        rows = [[None if x == "inf" else Fraction(x) for x in r] for r in parts[2:]]
        for v, l in enumerate(labs):
            ds = [r[v] for r in rows if r[v] is not None]
            if l == -1:
                if ds:
                    return f"vertex {v} unlabelled by the implementation but reachable in the model"
                continue
            if not 0 <= l < len(rows) or rows[l][v] is None:
                return f"vertex {v} labelled {l}: that seed does not reach it in the model"
            if float(rows[l][v]) > float(min(ds)) * (1 + 1e-12) + 1e-12:
                return f"vertex {v} labelled {l} at distance {float(rows[l][v])}, nearest seed at {float(min(ds))}"
        return None

    def shrink(self, case):
        kd = case["kind"]
        if kd == "g":
            e = case["e"]
            for i in range(len(e)):
                c = dict(case)
                c["e"] = e[:i] + e[i + 1:]
                yield c
            if len(case["seeds"]) > 1:
                for i in range(len(case["seeds"])):
                    c = dict(case)
                    c["seeds"] = case["seeds"][:i] + case["seeds"][i + 1:]
                    yield c
            V = case["V"]
            if V > 1 and all(u < V - 1 and v < V - 1 for u, v, _ in e) and all(s < V - 1 for s in case["seeds"]):
                c = dict(case)
                c["V"] = V - 1
                c["valid"] = case["valid"][:-1]
                yield c
        elif kd == "hist":
            st = case["steps"]
            for i in range(len(st)):
                c = dict(case)
                c["steps"] = st[:i] + st[i + 1:]
                yield c
            for i in range(len(case["e"])):
                c = dict(case)
                c["e"] = case["e"][:i] + case["e"][i + 1:]
                yield c
        elif kd in ("pts", "xpts"):
            for key in ("X", "Y"):
                if key in case and len(case[key]) > 1:
                    for i in range(len(case[key])):
                        c = dict(case)
                        c[key] = case[key][:i] + case[key][i + 1:]
                        yield c
        elif kd == "bip":
            for i in range(len(case["e"])):
                c = dict(case)
                c["e"] = case["e"][:i] + case["e"][i + 1:]
                yield c
        elif kd == "vd":
            for key in ("samples", "seeds"):
                if len(case[key]) > (1 if key == "samples" else 2):
                    for i in range(len(case[key])):
                        c = dict(case)
                        c[key] = case[key][:i] + case[key][i + 1:]
                        yield c
        elif kd == "grid" and len(case["xyz"]) > 1:
            for i in range(len(case["xyz"])):
                c = dict(case)
                c["xyz"] = case["xyz"][:i] + case["xyz"][i + 1:]
                yield c

    def classify(self, case, failure):
        return None


CHECK = C11()
