"""C20 — which preconditions of the C kernels are *validated* by the glue before the C call.

`scan(repo)` reads the text of the Cython glue (`_segmentation.pyx`, `_registration.pyx`, `_quantile.pyx`,
`histogram.pyx`) and the "check assumptions" block of joint_histogram.c, and returns the validated facts as
triples (wrapper, argument, fact):

  c_contiguous | dtype=<t> | shape[k]==<n> | shape[-1]==<other>.shape[-1] | shape[0]==<other>.shape[0] |
  type=<cython type> | converted=<t> (np.asarray(..., dtype=t)) | range=[a,b]

`translate` emits them as `Gen/C20Guards.lean`.  `Model/C20K.lean` lists what the bounds theorems *require*
of every argument and which of those are left to the Python front ends; `Props/C20B.lean` proves that
required \\ validated is exactly that list — dropping a guard from the glue (or adding one) breaks the proof.
`violations()` builds, for every validated fact of a wrapper that can be called here, an argument set that
breaks only that fact: the wrapper must refuse it (the observation of the `guard` correspondence lines).
"""
from __future__ import annotations

import os
import re

SEG = "nipy/algorithms/segmentation/_segmentation.pyx"
REG = "nipy/algorithms/registration/_registration.pyx"
QNT = "nipy/algorithms/statistics/_quantile.pyx"
HST = "nipy/algorithms/statistics/histogram.pyx"
JHC = "nipy/algorithms/registration/joint_histogram.c"
OUT = "NipyVerif/Gen/C20Guards.lean"


class Shape(Exception):
    pass


def _defs(src):
    """top-level `def name(args):` blocks of a pyx text → {name: (args text, body)}"""
    out = {}
    ms = list(re.finditer(r"^def\s+(\w+)\(((?:[^()]|\([^()]*\))*)\)\s*:", src, re.M))
    for k, m in enumerate(ms):
        end = ms[k + 1].start() if k + 1 < len(ms) else len(src)
        out[m.group(1)] = (" ".join(m.group(2).split()), src[m.end():end])
    return out


def _body_facts(name, body, helper=None):
    facts = []
    for m in re.finditer(r"if not (\w+)\.flags\['C_CONTIGUOUS'\] or not \1\.dtype\s*==\s*'(\w+)'\s*:\s*\n\s*raise ValueError", body):
        facts += [(name, m.group(1), "c_contiguous"), (name, m.group(1), "dtype=" + m.group(2))]
    for m in re.finditer(r"if not (\w+)\.dtype\s*==\s*'(\w+)'\s*:\s*\n\s*raise ValueError", body):
        facts.append((name, m.group(1), "dtype=" + m.group(2)))
    for m in re.finditer(r"if not (\w+)\.shape\[(-?\d+)\] == (\d+)\s*:\s*\n\s*raise ValueError", body):
        facts.append((name, m.group(1), f"shape[{m.group(2)}]=={m.group(3)}"))
    for m in re.finditer(r"if not (\w+)\.shape\[(-?\d+)\] == (\w+)\.shape\[(-?\d+)\]\s*:\s*\n\s*raise ValueError", body):
        if m.group(2) != m.group(4):
            raise Shape(f"{name}: shape agreement between different axes")
        facts.append((name, m.group(1), f"shape[{m.group(2)}]=={m.group(3)}.shape[{m.group(2)}]"))
    for m in re.finditer(r"(\w+) = np\.asarray\(\1, dtype='(\w+)'\)", body):
        facts.append((name, m.group(1), "converted=" + m.group(2)))
    for m in re.finditer(r"if (\w+) < (\d+) or \1 > (\d+)\s*:\s*\n\s*raise ValueError", body):
        facts.append((name, m.group(1), f"range=[{m.group(2)},{m.group(3)}]"))
    if helper:
        for m in re.finditer(r"check_array\((\w+), \1\.(shape\[(\d)\]|size), (\d+), '\1'\)", body):
            what = f"shape[{m.group(3)}]=={m.group(4)}" if m.group(3) else f"size=={m.group(4)}"
            facts += [(name, m.group(1), "c_contiguous"), (name, m.group(1), "dtype=double"), (name, m.group(1), what)]
    return facts


def scan(repo):
    def read(rel):
        try:
            return open(os.path.join(repo, rel)).read()
        except OSError as e:
            raise Shape(f"cannot read {rel}: {e}")
    facts = []
    seg = _defs(read(SEG))
    for fn in ("_ve_step", "_make_edges", "_interaction_energy"):
        if fn not in seg:
            raise Shape(f"{SEG}: {fn} not found")
        args, body = seg[fn]
        for m in re.finditer(r"\b(int|double) (\w+)", args):
            facts.append((fn, m.group(2), "type=" + m.group(1)))
        facts += _body_facts(fn, body)
    reg = _defs(read(REG))
    ca = reg.get("check_array")
    if not ca or "".join(ca[1].split()) != ("ifnotx.flags['C_CONTIGUOUS']ornotx.dtype=='double':raiseValueError('%sarrayshouldbe"
                                            "doubleC-contiguous'%xname)ifnotdim==exp_dim:raiseValueError('%shassize%dinlast"
                                            "dimension,%dexpected'%(xname,dim,exp_dim))"):
        raise Shape(f"{REG}: check_array is not the (double, C-contiguous, size) test")
    for fn in ("_joint_histogram", "_cspline_transform", "_cspline_sample1d", "_cspline_sample2d", "_cspline_sample3d",
               "_cspline_sample4d", "_cspline_resample3d", "_apply_polyaffine"):
        if fn not in reg:
            raise Shape(f"{REG}: {fn} not found")
        args, body = reg[fn]
        for m in re.finditer(r"\b(ndarray|flatiter|long|int|double) (\w+)", args):
            facts.append((fn, m.group(2), "type=" + m.group(1)))
        facts += _body_facts(fn, body, helper=True)
    qn = _defs(read(QNT))
    if "_quantile" not in qn:
        raise Shape(f"{QNT}: _quantile not found")
    args, body = qn["_quantile"]
    for m in re.finditer(r"\b(int|double) (\w+)", args):
        facts.append(("_quantile", m.group(2), "type=" + m.group(1)))
    facts += _body_facts("_quantile", body)
    hs = _defs(read(HST))
    if "histogram" not in hs:
        raise Shape(f"{HST}: histogram not found")
    facts += _body_facts("histogram", hs["histogram"][1])
    # the C function's own refusals (it returns -1 and the glue raises RuntimeError)
    c = "".join(re.sub(r"/\*.*?\*/", " ", read(JHC), flags=re.S).split())
    if 'if(PyArray_TYPE(iterI->ao)!=NPY_SHORT){fprintf(stderr,"Invalidtypeforthearrayiterator\\n");return-1;}' in c:
        facts.append(("joint_histogram", "iterI", "dtype=short"))
    m = re.search(r"if\(((?:\(!PyArray_ISCONTIGUOUS\(\w+\)\)(?:\|\|)?)+)\)\{fprintf\(stderr,\"Somenon-contiguousarrays\\n\"\);return-1;\}", c)
    if m:
        for a in re.findall(r"PyArray_ISCONTIGUOUS\((\w+)\)", m.group(1)):
            facts.append(("joint_histogram", a, "c_contiguous"))
    if "ret=joint_histogram(H,clampI,clampJ,iterI,imJ,Tvox,interp)ifnotret==0:raiseRuntimeError(" not in \
            "".join(reg["_joint_histogram"][1].split()):
        raise Shape(f"{REG}: _joint_histogram no longer raises on a non-zero return of the C function")
    return sorted(set(facts))


def _s(x):
    return '"' + x.replace("\\", "\\\\").replace('"', '\\"') + '"'


def translate(repo, TieBroken):
    try:
        facts = scan(repo)
    except Shape as e:
        raise TieBroken(f"glue text not in the recognised shape: {e}")
    L = ["/- GENERATED by harness/props/c20_guards.py from the text of the Cython glue of /repo",
         f"   ({SEG}, {REG},", f"   {QNT}, {HST}) and of {JHC}.  Do not edit. -/",
         "namespace NipyVerif.C20.Kern", "",
         "/-- (wrapper, argument, fact) validated before the C kernel runs -/",
         "def validated : List (String × String × String) := ["]
    L += [f"  ({_s(a)}, {_s(b)}, {_s(c)})" + ("," if k < len(facts) - 1 else "") for k, (a, b, c) in enumerate(facts)]
    L += ["]", "", "end NipyVerif.C20.Kern", ""]
    return [(OUT, "\n".join(L))]


# ----------------------------------------------------------------------------------------------
# observation: the wrapper refuses an argument set that breaks exactly one validated fact
# ----------------------------------------------------------------------------------------------
def _break(a, fact):
    """an array equal in content to `a` that violates `fact` (None: not constructible here)"""
    import numpy as np
    if fact == "c_contiguous":
        if a.ndim >= 2 and min(a.shape) >= 2:
            return np.asfortranarray(a)
        big = np.zeros(tuple(2 * s for s in a.shape), dtype=a.dtype)
        v = big[tuple(slice(None, None, 2) for _ in a.shape)]
        v[...] = a
        return v if not v.flags["C_CONTIGUOUS"] else None
    if fact.startswith("dtype="):
        other = {"double": np.float32, "intp": np.int32, "uintp": np.int64, "short": np.int32}[fact[6:]]
        return a.astype(other)
    m = re.fullmatch(r"shape\[(-?\d+)\]==(\d+)", fact)
    if m:
        k, n = int(m.group(1)), int(m.group(2))
        shp = list(a.shape); shp[k] = n + 1
        return np.zeros(shp, dtype=a.dtype)
    m = re.fullmatch(r"size==(\d+)", fact)
    if m:
        return np.zeros(int(m.group(1)) + 1, dtype=a.dtype)
    m = re.fullmatch(r"shape\[(-?\d+)\]==(\w+)\.shape\[(-?\d+)\]", fact)
    if m:
        k = int(m.group(1))
        shp = list(a.shape); shp[k] += 1
        return np.zeros(shp, dtype=a.dtype)
    return None


def observe(wrapper, arg, fact):
    """'validated' when the (installed / re-compiled) wrapper refuses an input breaking `fact`, 'accepted' when it
    runs, None when the fact is not exercised here (cython type annotations, conversions)"""
    import numpy as np
    K = 2
    if wrapper in ("_ve_step", "_make_edges", "_interaction_energy"):
        from nipy.algorithms.segmentation import _segmentation as S
        ppm = np.full((2, 2, 2, K), 0.5); ref = np.ones((1, K)); XYZ = np.zeros((1, 3), dtype=np.intp)
        U = np.ones((K, K)); mask = np.arange(8, dtype=np.intp).reshape(2, 2, 2)
        args = {"ppm": ppm, "ref": ref, "XYZ": XYZ, "U": U, "mask": mask}
        if arg not in args or fact.startswith("type="):
            return None
        bad = _break(args[arg], fact)
        if bad is None:
            return None
        args[arg] = bad
        try:
            if wrapper == "_ve_step":
                S._ve_step(args["ppm"], args["ref"], args["XYZ"], args["U"], 6, 0.5)
            elif wrapper == "_make_edges":
                S._make_edges(args["mask"], 6)
            else:
                S._interaction_energy(args["ppm"], args["XYZ"], args["U"], 6)
        except ValueError:
            return "validated"
        return "accepted"
    if wrapper == "_apply_polyaffine":
        from nipy.algorithms.registration import _registration as R
        args = {"xyz": np.zeros((2, 3)), "centers": np.zeros((2, 3)), "affines": np.zeros((2, 12)), "sigma": np.ones(3)}
        if arg not in args or fact.startswith("type="):
            return None
        bad = _break(args[arg], fact)
        if bad is None:
            return None
        args[arg] = bad
        try:
            R._apply_polyaffine(args["xyz"], args["centers"], args["affines"], args["sigma"])
        except ValueError:
            return "validated"
        return "accepted"
    if wrapper == "histogram" and fact == "dtype=uintp":
        from nipy.algorithms.statistics.histogram import histogram
        try:
            histogram(np.array([1, 2], dtype=np.int64))
        except ValueError:
            return "validated"
        return "accepted"
    if wrapper == "_quantile" and fact.startswith("range="):
        from nipy.algorithms.statistics._quantile import _quantile
        try:
            _quantile(np.arange(4.0), 1.5)
        except ValueError:
            return "validated"
        return "accepted"
    if wrapper == "joint_histogram":        # the C function re-compiled from the tree under test
        from harness.props import c20_kernels as KK
        lib = KK.reg()
        H = np.zeros((4, 30)); J = np.zeros((3, 3, 3), dtype=np.int16) + 1; I = np.zeros(2, dtype=np.int16)
        T = np.zeros((2, 3))
        args = {"JH": H, "imJ_padded": J, "iterI": I, "Tvox": T}
        if arg not in args:
            return None
        bad = _break(args[arg], fact)
        if bad is None:
            return None
        args[arg] = bad
        import contextlib
        import io
        ret = lib.joint_histogram(args["JH"], 4, 30, args["iterI"].flat, args["imJ_padded"], args["Tvox"], 0)
        return "validated" if ret != 0 else "accepted"
    return None


if __name__ == "__main__":
    import sys
    for f in scan(sys.argv[1] if len(sys.argv) > 1 else "/repo"):
        print(f)
