"""C10 — model formulae and symbolic time courses evaluate to what they denote.

Correspondence (real nipy vs the Lean model, exact rationals / 1e-9):
  * `session` — term identity over histories (harness/props/c10_session.py, Model/C10S.lean): sequences of
    Term / Factor / FactorTerm / Factor.fromcol / Formula.fromrec creations with colliding printed names, formula
    arithmetic, stratify / get_term / main_effect / term products, interleaved with (repeated) designs on typed
    record arrays; the Lean object-store machine runs with the allocation / identity policy the translator reads
    off `class FactorTerm` in /repo (Gen/C10Policy.lean);
  * `design` / `terms` / `counts` / `subs` — formula arithmetic (`+`, `-`, `*`, repeated `*`) on Term / Factor /
    intercept / natural_spline atoms: term multiset, design as a multiset of columns, number of params / coefs /
    Term atoms, `Formula.subs`;
  * `contrast` (selector, full rank) and `contrastP` (any rank: `C = (P·L)ᵀ` with the exact Moore–Penrose inverse
    as a parameter the model certifies), also for contrast formulae outside the formula;
  * `recov` — `RandomEffects.cov` of a factor; `stack` — `stack_designs` / `stack_contrasts`;
  * `events`, `step_function`, `blocks`, `interp` / `linear_interp`, `convolve_functions` /
    `TimeConvolver.convolve` (`conv`: samples given; `convfn`: the model samples on `np.arange` itself),
    `block_amplitudes` (through `convfn`), `design.natural_spline` (through `design`), all via `lambdify_t`.
Oracle (real code only): exact re-evaluation of every term on every row, indicator partition (also over
histories), main effects, RandomEffects entries, superposition, block membership, knots, direct numerical
convolution and its linear interpolation, D·Cᵀ = named columns, row-permutation invariance of event/block designs,
`define`, `fourier_basis`, `openfmri2nipy`, the symbolic HRFs of hrf.py against their numerical definitions, the
definitional identities of fmristat/hrf.py, `terms`, `make_recarray`.
"""
from __future__ import annotations

import functools
import operator
import random
import warnings
from fractions import Fraction

import numpy as np

import ast
import os

from harness.core import REPO, PropertyCheck, TieBroken
from harness.props import c10_session as S
from harness.util import Snapshot, all_close, cmp_rats, errname, fr, frs, parse_rats, plist

TERM_NAMES = ["x", "y", "z", "w", "x1", "x_1", "E", "I", "S", "N", "pi", "beta", "lambda", "b0",
              "t", "Q", "gamma", "zeta", "re", "im", "O", "oo", "__t0__", "a_b"]
FACTOR_NAMES = ["f", "g", "grp", "cond", "F1"]
LEVEL_SETS = [("str", ["a", "b", "c", "d"]), ("str", ["u", "v", "w", "lvl"]), ("int", [1, 2, 3, 5]),
              ("bytes", ["p", "q", "r", "s"])]
NUMS = [-2.0, -1.0, -0.5, 0.0, 0.5, 1.0, 1.0, 2.0, 3.0, 1.5]
COEFS = ["1", "1", "1", "2", "-1", "1/2", "3", "-3/2"]
DTS = [0.25, 0.5, 1.0, 0.125]


def F_(x):
    return Fraction(x)


# ---------------------------------------------------------------------------------------------
# generation helpers
# ---------------------------------------------------------------------------------------------
def _gen_world(rng, max_num=4, max_fac=2, max_spl=2):
    nnum = rng.choice([1, 2, 2, 3, max_num])
    nfac = rng.choice([0, 1, 1, max_fac])
    names = rng.sample(TERM_NAMES, nnum)
    fnames = rng.sample(FACTOR_NAMES, nfac)
    facs = []
    for k in range(nfac):
        kind, pool = rng.choice(LEVEL_SETS)
        nl = rng.choice([1, 2, 2, 3])
        declared = pool[:nl]
        data_levels = list(declared)
        r = rng.random()
        if r < 0.15 and nl < len(pool):
            data_levels = pool[:nl + 1]          # an observation outside the declared levels
        elif r < 0.3 and nl > 1:
            data_levels = declared[:-1]          # a declared level never observed
        facs.append({"name": fnames[k], "kind": kind, "levels": declared, "data_levels": data_levels,
                     "pool": pool})
    n = rng.choice([1, 2, 3, 4, 5, 6, 8])
    rows = []
    for _ in range(n):
        row = [rng.choice(NUMS) for _ in range(nnum)]
        for fc in facs:
            row.append(fc["pool"].index(rng.choice(fc["data_levels"])))
        rows.append(row)
    splines = []
    # at most one spline per Term: two splines of the same Term share the names (and arguments) of their
    # functions ns_i, and sympy's Mul is then not canonical (a*b != b*a for two different functions ns_2(x))
    for v in rng.sample(range(nnum), min(nnum, rng.choice([0, 0, 0, 1, 1, max_spl]))):
        splines.append({"v": v, "order": rng.choice([0, 1, 2, 3, 3]),
                        "knots": sorted(rng.sample([-1.0, -0.5, 0.0, 0.25, 1.0, 1.5, 2.0], rng.choice([0, 1, 2, 3]))),
                        "intercept": rng.random() < 0.3})
    return {"names": names, "facs": facs, "rows": rows, "splines": splines}


def _spline_fns(sp):
    """the basis functions of natural_spline(t, knots, order, intercept), as model spec tokens"""
    fns = [("p", i) for i in range(sp["order"] + 1)] + [("k", k) for k in sp["knots"]]
    return fns if sp["intercept"] else fns[1:]


def _spline_vars(world, k):
    base = len(world["names"]) + sum(len(f["levels"]) for f in world["facs"])
    base += sum(len(_spline_fns(sp)) for sp in world.get("splines", [])[:k])
    return list(range(base, base + len(_spline_fns(world["splines"][k]))))


def _nvars(world):
    return (len(world["names"]) + sum(len(f["levels"]) for f in world["facs"])
            + sum(len(_spline_fns(sp)) for sp in world.get("splines", [])))


def _factor_vars(world, k):
    base = len(world["names"]) + sum(len(f["levels"]) for f in world["facs"][:k])
    return list(range(base, base + len(world["facs"][k]["levels"])))


def _gen_atom(rng, world):
    nnum = len(world["names"])
    r = rng.random()
    if world.get("splines") and rng.random() < 0.35:
        return {"op": "A", "kind": "spline", "k": rng.randrange(len(world["splines"]))}
    if world["facs"] and r < 0.3:
        k = rng.randrange(len(world["facs"]))
        return {"op": "A", "kind": "factor", "k": k}
    if r < 0.42:
        return {"op": "A", "kind": "I"}
    if r < 0.7:
        return {"op": "A", "kind": "term", "v": rng.randrange(nnum)}
    # explicit list of monomials
    nt = rng.choice([1, 2, 2, 3])
    monos = []
    for _ in range(nt):
        deg = rng.choice([0, 1, 1, 1, 2, 2, 3])
        vs = sorted(rng.randrange(nnum) for _ in range(deg))
        if world["facs"] and rng.random() < 0.2:
            k = rng.randrange(len(world["facs"]))
            vs = sorted(vs + [rng.choice(_factor_vars(world, k))])
        if world.get("splines") and rng.random() < 0.2:
            k = rng.randrange(len(world["splines"]))
            if _spline_vars(world, k):
                vs = sorted(vs + [rng.choice(_spline_vars(world, k))])
        monos.append([rng.choice(COEFS), vs])
    return {"op": "A", "kind": "list", "monos": monos}


def _gen_expr(rng, world, depth):
    if depth == 0 or rng.random() < 0.25:
        return _gen_atom(rng, world)
    op = rng.choice(["+", "+", "+", "*", "*", "-", "^"])
    if op == "^":
        return {"op": "^", "n": rng.choice([2, 2, 3]), "a": _gen_expr(rng, world, min(depth - 1, 1))}
    if op == "-" and rng.random() < 0.45:
        # a term carried twice (shared by two summands), then subtracted
        x = _gen_atom(rng, world)
        other = _gen_expr(rng, world, max(depth - 2, 0))
        third = x if rng.random() < 0.6 else {"op": "*", "a": x, "b": _gen_atom(rng, world)}
        a = {"op": "+", "a": {"op": "+", "a": x, "b": other}, "b": {"op": "+", "a": third, "b": x}}
        if rng.random() < 0.3:
            a = {"op": "+", "a": a, "b": x}
        return {"op": "-", "a": a, "b": x}
    a = _gen_expr(rng, world, depth - 1)
    if op in "+*" and rng.random() < 0.2:
        b = a                                     # f + f, f * f on purpose
    elif op == "-" and rng.random() < 0.5:
        b = _gen_atom(rng, world)
    else:
        b = _gen_expr(rng, world, depth - 1)
    return {"op": op, "a": a, "b": b}


def _atom_monos(e, world):
    if e["kind"] == "factor":
        return [["1", [v]] for v in _factor_vars(world, e["k"])]
    if e["kind"] == "spline":
        return [["1", [v]] for v in _spline_vars(world, e["k"])]
    if e["kind"] == "I":
        return [["1", []]]
    if e["kind"] == "term":
        return [["1", [e["v"]]]]
    return e["monos"]


def _expr_tokens(e, world):
    if e["op"] == "A":
        ms = _atom_monos(e, world)
        s = f"A {1 if e['kind'] == 'factor' else 0} {len(ms)}"
        for c, vs in ms:
            s += f" {c} {len(vs)}" + "".join(f" {v}" for v in vs)
        return s
    if e["op"] == "^":
        return f"^ {e['n']} {_expr_tokens(e['a'], world)}"
    return f"{e['op']} {_expr_tokens(e['a'], world)} {_expr_tokens(e['b'], world)}"


def _count_terms(e, world):
    """upper bound on the number of terms (keeps sympy affordable)"""
    if e["op"] == "A":
        return len(_atom_monos(e, world))
    if e["op"] == "^":
        return _count_terms(e["a"], world) ** e["n"]
    a, b = _count_terms(e["a"], world), _count_terms(e["b"], world)
    return a + b if e["op"] == "+" else (a if e["op"] == "-" else a * b)


def _specs_tokens(world):
    nnum = len(world["names"])
    toks = [f"n {j}" for j in range(nnum)]
    for k, fc in enumerate(world["facs"]):
        for lv in fc["levels"]:
            toks.append(f"i {nnum + k} {fc['pool'].index(lv)}")
    for sp in world.get("splines", []):
        for kind, a in _spline_fns(sp):
            toks.append(f"p {sp['v']} {a}" if kind == "p" else f"k {sp['v']} {fr(a)} {sp['order']}")
    return f"{len(toks)} " + " ".join(toks)


def _rows_tokens(world):
    rows = world["rows"]
    nf = len(world["names"]) + len(world["facs"])
    return f"{len(rows)} {nf} " + " ".join(fr(v) for r in rows for v in r)


# ---------------------------------------------------------------------------------------------
# building the real objects
# ---------------------------------------------------------------------------------------------
class _World:
    def __init__(self, world):
        import sympy
        from nipy.algorithms.statistics.formula import formulae as F
        self.F = F
        self.sympy = sympy
        self.w = world
        self.alg_fail = None      # first violated clause of the +, -, * arithmetic on the real objects
        self.terms = [F.Term(n) for n in world["names"]]
        try:
            ts = F.terms(tuple(world["names"])) if len(world["names"]) > 1 else (F.terms(world["names"][0]),)
            if len(ts) != len(self.terms) or any(not (a == b and F.is_term(a)) for a, b in zip(ts, self.terms)):
                self.alg_fail = f"terms({world['names']}) = {ts} are not the Terms of those names"
        except Exception as e:
            self.alg_fail = f"terms({world['names']}) raised {type(e).__name__}: {e}"
        self.factors = []
        for fc in world["facs"]:
            lv = fc["levels"]
            if fc["kind"] == "bytes":
                lv = [s.encode() for s in lv]
            self.factors.append(F.Factor(fc["name"], lv))
        self.syms = list(self.terms)
        for fac in self.factors:
            self.syms += list(fac.terms)
        self.splines = []
        for sp in world.get("splines", []):
            ns = F.natural_spline(self.terms[sp["v"]], knots=list(sp["knots"]), order=sp["order"],
                                  intercept=sp["intercept"])
            self.splines.append(ns)
            self.syms += list(ns.terms)
        dt = [(n, float) for n in world["names"]]
        for fc in world["facs"]:
            dt.append((fc["name"], {"str": "U3", "int": int, "bytes": "S3"}[fc["kind"]]))
        recs = []
        nnum = len(world["names"])
        for r in world["rows"]:
            rec = list(r[:nnum])
            for k, fc in enumerate(world["facs"]):
                v = fc["pool"][int(r[nnum + k])]
                rec.append(v.encode() if fc["kind"] == "bytes" else v)
            recs.append(tuple(rec))
        self.data = np.array(recs, dtype=dt)

    def mono(self, c, vs):
        sp = self.sympy
        e = sp.Rational(c)
        pw = {}
        for v in vs:
            pw[v] = pw.get(v, 0) + 1
        return sp.Mul(e, *[sp.Pow(self.syms[v], k) for v, k in sorted(pw.items())])

    def build(self, e):
        F = self.F
        if e["op"] == "A":
            if e["kind"] == "factor":
                return self.factors[e["k"]]
            if e["kind"] == "spline":
                return self.splines[e["k"]]
            if e["kind"] == "I":
                return F.I
            if e["kind"] == "term":
                return self.terms[e["v"]].formula
            return F.Formula([self.mono(c, vs) for c, vs in e["monos"]])
        if e["op"] == "^":
            base = self.build(e["a"])
            r = base
            for _ in range(e["n"] - 1):
                r = self._mul(r, base)
            return r
        a, b = self.build(e["a"]), self.build(e["b"])
        if e["op"] == "*":
            return self._mul(a, b)
        at, bt = list(a.terms), list(b.terms)
        if e["op"] == "+":
            r = a + b
            if self.alg_fail is None and list(r.terms) != at + bt:
                self.alg_fail = (f"Formula {at} + Formula {bt} has terms {list(r.terms)}: not the terms of the "
                                 f"first followed by the terms of the second")
            return r
        r = a - b
        if self.alg_fail is None:
            rt = list(r.terms)
            left = [t for t in rt if any(t == u for u in bt)]
            want = [t for t in at if not any(t == u for u in bt)]
            if left:
                self.alg_fail = (f"Formula {at} - Formula {bt} has terms {rt}: the subtracted term(s) {left} "
                                 f"remain, so the design keeps a column for a subtracted term")
            elif rt != want:
                self.alg_fail = (f"Formula {at} - Formula {bt} has terms {rt}, expected the other terms {want} "
                                 f"in order with their multiplicity")
        return r

    def _mul(self, a, b):
        sp = self.sympy
        r = a * b
        if self.alg_fail is None:
            at, bt, rt = list(a.terms), list(b.terms), list(r.terms)
            if self.F.is_factor(a) and len(at) == len(bt) and all(x == y for x, y in zip(at, bt)):
                want = set(at)         # a Factor times itself is itself
            else:
                want = {sp.Mul(x, y) for x in at for y in bt}
            if set(rt) != want or len(set(rt)) != len(rt):
                self.alg_fail = (f"Formula {at} * Formula {bt} has terms {rt}: not each distinct pairwise "
                                 f"product once ({sorted(want, key=str)})")
        return r

    def to_mono(self, term):
        """canonical (coeff, sorted var indices) of a sympy monomial; None if not a monomial"""
        sp = self.sympy
        c, rest = sp.sympify(term).as_coeff_Mul()
        if not c.is_Rational:
            return None
        vs = []
        for base, ex in rest.as_powers_dict().items():
            if base == 1:
                continue
            idx = [i for i, s in enumerate(self.syms) if s == base and type(s) is type(base)]
            if len(idx) != 1 or not (ex.is_Integer and ex > 0):
                return None
            vs += idx * int(ex)
        return fr(Fraction(int(c.p), int(c.q))) + " " + " ".join(str(v) for v in sorted(vs))

    def exact_column(self, term):
        """the term's expression evaluated exactly on every row (substitution, no lambdify)"""
        sp = self.sympy
        F = self.F
        nnum = len(self.w["names"])
        col = []
        for r in self.w["rows"]:
            sub = {}
            for j, t in enumerate(self.terms):
                sub[t] = sp.Rational(Fraction(r[j]))
            for k, fac in enumerate(self.factors):
                fc = self.w["facs"][k]
                obs = fc["pool"][int(r[nnum + k])]
                for lv, ft in zip(fc["levels"], fac.terms):
                    sub[ft] = sp.Integer(1 if lv == obs else 0)
            for spl, ns in zip(self.w.get("splines", []), self.splines):
                x = Fraction(r[spl["v"]])
                for (kind, a), nt in zip(_spline_fns(spl), ns.terms):
                    val = x ** a if kind == "p" else ((x - Fraction(a)) ** spl["order"] if x > Fraction(a) else Fraction(0))
                    sub[nt] = sp.Rational(val)
            v = sp.sympify(term).xreplace(sub)
            col.append(Fraction(int(v.p), int(v.q)))
        return col


def _exact_pinv(cols, n):
    """exact rational Moore-Penrose inverse of the design given by its columns (rows of the result)"""
    import sympy
    p = len(cols)
    M = sympy.Matrix(n, p, lambda i, j: sympy.Rational(cols[j][i].numerator, cols[j][i].denominator))
    P = M.pinv()
    return [[Fraction(int(P[i, j].p), int(P[i, j].q)) for j in range(n)] for i in range(p)]


def _pm_cols(cols, n):
    return f"{n} {len(cols)} " + " ".join(fr(cols[j][i]) for i in range(n) for j in range(len(cols)))


def _pm_rows(rows):
    return f"{len(rows)} {len(rows[0]) if rows else 0} " + " ".join(fr(v) for r in rows for v in r)


def sympy_ne(a, b):
    try:
        return bool(a != b)
    except Exception:
        return True


def _design_cols(D, n):
    D = np.asarray(D, dtype=float)
    if D.ndim == 0:
        return [[float(D)]]
    if D.ndim == 1:
        return [[float(v)] for v in D] if (n == 1 and D.shape[0] != 1) or n == 1 else [D.tolist()]
    return D.T.tolist()


def _match_cols(got, want, tol=1e-9):
    """multiset matching of columns; returns None or a description"""
    if len(got) != len(want):
        return f"{len(got)} columns for {len(want)} terms"
    used = [False] * len(got)
    for j, w in enumerate(want):
        hit = None
        for i, g in enumerate(got):
            if not used[i] and all_close(g, w, tol, tol):
                hit = i
                break
        if hit is None:
            return f"no column equals term #{j} evaluated on the data {[float(x) for x in w]}"
        used[hit] = True
    return None


def _tfn_tokens(spec):
    if spec["type"] == "blocks":
        return f"B {len(spec['ivs'])} " + " ".join(f"{fr(s_)} {fr(e_)} {fr(a_)}"
                                                     for (s_, e_), a_ in zip(spec["ivs"], spec["amps"]))
    return f"P {1 if spec['causal'] else 0} {plist([Fraction(x) for x in spec['cs']])}"


def _poly(cs, x):
    acc = Fraction(0)
    for c in reversed(cs):
        acc = Fraction(c) + x * acc
    return acc


def _bc(vals, n):
    """lambdified constants come back as scalars: broadcast"""
    a = np.asarray(vals, dtype=float)
    if a.ndim == 0:
        a = np.full(n, float(a))
    return a.tolist()


def _grid_variants(fn, q, base, what, scalar_refusal_ok=False, lists=True, scale=1.0, unsigned=True):
    """Evaluate the lambdified time course `fn` on other presentations of the same instants `q`
    (float32 / integer dtypes, python and numpy scalars, 0-d, 2-d, non-contiguous, empty, list) and
    compare with `base`, its values on the float64 grid (which the caller has checked against the
    defining formula).  Returns (failure or None, tags)."""
    q = [float(v) for v in q]
    base = [float(v) for v in base]
    val = dict(zip(q, base))
    ints = [v for v in q if v.is_integer() and abs(v) < 2 ** 31]
    f32 = [v for v in q if float(np.float32(v)) == v]
    tags = []
    variants = []
    if f32:
        variants.append(("float32 array", np.array(f32, dtype=np.float32), f32, 1e-5))
        variants.append(("float32 2-d column", np.array(f32, dtype=np.float32).reshape(-1, 1), f32, 1e-5))
    if ints:
        variants.append(("int64 array", np.array(ints, dtype=np.int64), ints, 1e-9))
        variants.append(("int32 array", np.array(ints, dtype=np.int32), ints, 1e-9))
        variants.append(("2-d int row", np.array(ints, dtype=int).reshape(1, -1), ints, 1e-9))
        small = [v for v in ints if 0 <= v <= 255]
        if small and unsigned:   # lambdify-generated code negates t: numpy wraps unsigned integers (not nipy's)
            variants.append(("uint8 array", np.array(small, dtype=np.uint8), small, 1e-9))
        variants.append(("python int", int(ints[0]), [ints[0]], 1e-9))
        variants.append(("numpy int64 scalar", np.int64(ints[-1]), [ints[-1]], 1e-9))
        variants.append(("0-d int array", np.array(int(ints[0])), [ints[0]], 1e-9))
    variants.append(("2-d float column", np.array(q, dtype=float).reshape(-1, 1), q, 1e-9))
    variants.append(("non-contiguous float array", np.array([x for v in q for x in (v, 0.0)], dtype=float)[::2], q, 1e-9))
    variants.append(("python float", float(q[-1]), [q[-1]], 1e-9))
    variants.append(("numpy float32 scalar", np.float32(f32[0]) if f32 else np.float64(q[0]), [f32[0] if f32 else q[0]], 1e-5))
    variants.append(("0-d float array", np.array(q[0]), [q[0]], 1e-9))
    variants.append(("empty array", np.array([], dtype=float), [], 1e-9))
    if lists:
        variants.append(("list", list(q), q, 1e-9))
    for label, arg, pts, tol in variants:
        is_scalar = np.ndim(arg) == 0
        try:
            r = fn(arg)
        except (TypeError, AttributeError) as e:
            if is_scalar and scalar_refusal_ok:
                tags.append("scalar-time-refused")
                continue
            return f"{what} evaluated on a {label} raised {type(e).__name__}: {str(e)[:120]}", tags
        except Exception as e:
            return f"{what} evaluated on a {label} ({arg!r}) raised {type(e).__name__}: {str(e)[:120]}", tags
        try:
            got = np.asarray(r, dtype=float)
        except Exception as e:
            return f"{what} on a {label} returned a non-numeric result {r!r}", tags
        if got.ndim == 0:
            got = np.full(len(pts), float(got))       # constants lambdify to scalars
        elif not is_scalar and got.size == len(pts) and got.shape != np.shape(arg) and len(pts) > 0:
            return f"{what} on a {label} of shape {np.shape(arg)} returned shape {got.shape}", tags
        got = got.reshape(-1).tolist()
        want = [val[v] for v in pts]
        if len(got) != len(want):
            return f"{what} on a {label} returned {len(got)} values for {len(want)} times", tags
        for v, g, w in zip(pts, got, want):
            if not (abs(g - w) <= tol * (1.0 + abs(w)) * (scale if tol > 1e-8 else 1.0)):
                return (f"{what} evaluated on a {label} gives {g} at t={v}, but {w} on the float64 grid "
                        f"(the value the defining formula gives)"), tags
    tags.append("grid-variants")
    return None, tags


class C10(PropertyCheck):
    id = "C10"
    title = "Model formulae and symbolic time courses evaluate to what they denote"
    lean_modules = ["NipyVerif.Props.C10", "NipyVerif.Props.C10S", "NipyVerif.Props.C10B", "NipyVerif.Props.C10C"]
    driver = "Drivers/C10.lean"
    rule = ("cases are seeded random: sessions (histories of Term / Factor / FactorTerm / fromcol / fromrec creations "
            "with colliding printed names, int / str / bytes levels, arithmetic, stratify / get_term / main_effect, "
            "interleaved and repeated designs on one or two typed record arrays); (formula expression tree over "
            "Term / Factor / intercept / natural_spline atoms with + - * and repeated *, record array) pairs with "
            "optional subs; contrast specifications (named terms and outside formulae, any rank); RandomEffects "
            "specifications; design stacks; event / step / block / interpolation / convolution / block_amplitudes / "
            "drift / HRF specifications with query grids; plus every binary operation on every ordered pair of six "
            "fixed atoms (exhaustive); non-trivial = an expression with at least one operator, a session with at "
            "least two objects and one design, or at least two events/knots/blocks/designs; distinct by full JSON")
    assumptions = [
        "sympy lambdify / printing and the canonical ordering of terms (default_sort_key) are trusted: "
        "designs are compared as multisets of columns, names are checked by the oracle",
        "sympy's automatic Mul flattening puts monomials in canonical form (coefficient, sorted powers); "
        "the model's term identity is that canonical form (checked per case by the `terms` line)",
        "np.linalg.pinv / matrix_rank in contrast_from_cols_or_rows are numeric: the model takes the exact rational "
        "Moore-Penrose inverse (computed by the harness with sympy) as a parameter and certifies the four Penrose "
        "equations exactly before use; the implementation's float contrast is compared to 1e-7; contrasts whose "
        "own columns are dependent (rank reduction through full_rank / SVD) are oracle-only",
        "scipy.interpolate.interp1d(kind=linear) is piecewise-linear interpolation; np.convolve is the full "
        "discrete convolution (both checked to 1e-9 per case)",
        "kernels are polynomials (optionally causal) in the correspondence; the theorems hold for every kernel",
        "non-linear kinds of `interp` (cubic, ...) and symbolic DiracDelta events are not evaluated",
        "natural_spline: at most one spline per Term in a formula (two splines of the same Term give different "
        "functions with the same name and argument, for which sympy's Mul is not canonical); formulae with "
        "parameters inside terms (design(param=...)) are oracle-only: terms (monomial in the parameters) * (monomial "
        "in the data terms) against their direct evaluation, for any field order of the parameter record; Factor.subs raises TypeError by construction "
        "(self.__class__(terms)) and is modelled as that refusal",
        "term identity: the model compares levels structurally (int n / str s); the code compares (_to_str(level), "
        "isinstance(level, str)) - the same, decimal printing of ints being injective (not proved); sympy's symbol "
        "cache is modelled without eviction",
        "Factor shortcut `Factor * formula` when the formula is a product whose term *set* equals the factor's: whether "
        "the shortcut applies depends on sympy's term order (default_sort_key), such session cases are skipped",
        "every time course is also evaluated on float32 / int64 / int32 / uint8 arrays, python and numpy scalars, "
        "0-d, 2-d, non-contiguous, empty and list presentations of the same instants and must give the float64 "
        "values; a scalar time refused with TypeError by step_function/blocks is out of domain (a sampling grid "
        "is an array), a wrong value never is; unsigned grids are not fed to lambdify-generated code (numpy "
        "wraps -t)",
    ]
    level_note = ("contrasts: proved for any rank with the pseudo-inverse as a certified parameter (unique by "
                  "pinv_unique); the rank-reduction branch of contrast_from_cols_or_rows (dependent named columns), "
                  "np.linalg.pinv itself, sympy's term order and lambdify are oracle-only / assumptions")
    watch = ("nipy/algorithms/statistics/formula/formulae.py", "nipy/modalities/fmri/utils.py",
             "nipy/modalities/fmri/design.py", "nipy/modalities/fmri/hrf.py", "nipy/modalities/fmri/fmristat/hrf.py")
    finding_keys = {"design-implemented-function-name-clash":
                    "Formula.design raises ValueError for a formula holding two implemented functions of the same name "
                    "(two natural_spline bases): lambdify looks implementations up by name",
                    "events-coincident-term-add":
                    "events(): coincident events whose summand reduces to the bare Term t are counted once "
                    "(Term.__add__: a term plus itself is itself)",
                    "random-effects-cov-squeezed-design":
                    "RandomEffects.cov with a single random effect raises ValueError (and returns a scalar for a single "
                    "observation): Formula.design squeezes the design matrix",
                    "design-terms-printing-alike":
                    "Formula.design raises ValueError (duplicate field in the internal term recarray) for a formula "
                    "holding two distinct terms that print alike"}

    # ------------------------------------------------------------------
    def translators(self):
        """Read off `class FactorTerm` how a FactorTerm object is obtained and what its identity is."""
        path = os.path.join(REPO, "nipy/algorithms/statistics/formula/formulae.py")
        try:
            tree = ast.parse(open(path).read())
        except Exception as e:
            raise TieBroken(f"formulae.py does not parse: {e}")
        cls = next((n for n in tree.body if isinstance(n, ast.ClassDef) and n.name == "FactorTerm"), None)
        if cls is None or [ast.unparse(b) for b in cls.bases] != ["Term"]:
            raise TieBroken("class FactorTerm(Term) not found in formulae.py")
        meths = {n.name: n for n in cls.body if isinstance(n, ast.FunctionDef)}
        new = meths.get("__new__")
        if new is None or [a.arg for a in new.args.args] != ["cls", "name", "level"]:
            raise TieBroken("FactorTerm.__new__(cls, name, level) not found")
        body = [ast.unparse(st) for st in new.body if not (isinstance(st, ast.Expr) and isinstance(st.value, ast.Constant))]
        name_expr = "f'{_to_str(name)}_{_to_str(level)}'"
        shapes = {f"new = sympy.Symbol.__xnew__(cls, {name_expr})": False,
                  f"new = Term.__new__(cls, {name_expr})": True}
        if len(body) != 4 or body[0] not in shapes or body[1:] != ["new.level = level", "new.factor_name = name", "return new"]:
            raise TieBroken(f"FactorTerm.__new__ has an unexpected shape: {body}")
        via_cache = shapes[body[0]]
        hc = meths.get("_hashable_content")
        if hc is None:
            has_level = False
        else:
            hb = [ast.unparse(st) for st in hc.body if not (isinstance(st, ast.Expr) and isinstance(st.value, ast.Constant))]
            want = ("return Term._hashable_content(self) + (_to_str(self.factor_name), "
                    "isinstance(self.level, (str, bytes)), _to_str(self.level))")
            if hb != [want]:
                raise TieBroken(f"FactorTerm._hashable_content has an unexpected shape: {hb}")
            has_level = True
        if "__eq__" in meths or "__hash__" in meths:
            raise TieBroken("FactorTerm defines __eq__ / __hash__: identity is no longer _hashable_content")
        b = lambda x: "true" if x else "false"
        content = (
            "/- GENERATED by harness/props/C10.py from nipy/algorithms/statistics/formula/formulae.py\n"
            "   (class FactorTerm: `__new__` and `_hashable_content`).  Do not edit. -/\n"
            "namespace NipyVerif.C10.Gen\n\n"
            "/-- `FactorTerm.__new__` obtains its object through sympy's symbol cache\n"
            "    (`Term.__new__(cls, ...)`) rather than `sympy.Symbol.__xnew__(cls, ...)` -/\n"
            f"def ftThroughSymbolCache : Bool := {b(via_cache)}\n\n"
            "/-- `FactorTerm._hashable_content` adds (factor name, level is a string, level text) -/\n"
            f"def ftIdentityHasLevel : Bool := {b(has_level)}\n\n"
            "end NipyVerif.C10.Gen\n")
        return [("NipyVerif/Gen/C10Policy.lean", content)]

    # ------------------------------------------------------------------
    def generate(self, rng, tier):
        q = tier == "quick"
        n_design, n_contrast, n_stack = (560, 100, 200) if q else (10000, 1500, 3000)
        n_ev, n_step, n_blk, n_int, n_conv, n_des = (300, 200, 350, 200, 200, 40) if q else (5000, 3000, 6000, 3000, 3000, 600)
        cases = []
        # exhaustive: every binary operation on every ordered pair of a fixed set of atoms (both tiers)
        world0 = {"names": ["x", "y"], "facs": [{"name": "f", "kind": "str", "levels": ["a", "b"],
                                                   "data_levels": ["a", "b"], "pool": ["a", "b", "c", "d"]}],
                  "rows": [[1.0, 2.0, 0], [-0.5, 3.0, 1], [2.0, 0.0, 0], [1.5, -1.0, 1]]}
        atoms0 = [{"op": "A", "kind": "term", "v": 0}, {"op": "A", "kind": "term", "v": 1}, {"op": "A", "kind": "I"},
                  {"op": "A", "kind": "factor", "k": 0},
                  {"op": "A", "kind": "list", "monos": [["1", [0]], ["2", [0, 1]], ["1", []]]},
                  {"op": "A", "kind": "list", "monos": [["1", [2]], ["-1", [1, 1]], ["1", [0]]]}]
        for op in "+-*":
            for a in atoms0:
                for b in atoms0:
                    cases.append({"kind": "design", "world": world0, "expr": {"op": op, "a": a, "b": b}, "rec": True})
        for a in atoms0:                       # (a + b) - c and (a + b + a) - c: repeated terms, then subtraction
            for b in atoms0:
                for c in atoms0:
                    e = {"op": "+", "a": a, "b": b}
                    if (atoms0.index(a) + atoms0.index(b) + atoms0.index(c)) % 3 == 0:
                        e = {"op": "+", "a": e, "b": a}
                    cases.append({"kind": "design", "world": world0, "expr": {"op": "-", "a": e, "b": c}, "rec": False})
        for a in atoms0:
            for n in (2, 3):
                cases.append({"kind": "design", "world": world0, "expr": {"op": "^", "n": n, "a": a}, "rec": False})
        for _ in range(n_design):
            world = _gen_world(rng)
            for _try in range(20):
                e = _gen_expr(rng, world, rng.choice([1, 2, 2, 3]))
                if _count_terms(e, world) <= (20 if q else 30):
                    break
            else:
                e = _gen_atom(rng, world)
            case = {"kind": "design", "world": world, "expr": e, "rec": rng.random() < 0.4}
            if rng.random() < 0.25 and len(world["names"]) >= 2:
                case["subs"] = rng.sample(range(len(world["names"])), 2)
            cases.append(case)
        for _ in range(60 if q else 1200):
            cases.append(self._gen_nonlin(rng))
        for _ in range(120 if q else 2500):
            cases.append(self._gen_recov(rng))
        for _ in range(n_contrast):
            cases.append(self._gen_contrast(rng))
        for _ in range(n_stack):
            cases.append(self._gen_stack(rng))
        for _ in range(n_ev):
            k = rng.choice([0, 1, 2, 3, 3, 4, 6])
            times = [rng.choice([0.0, 0.5, 1.0, 2.5, 3.0, 4.25, 7.0, -1.0, 10.0]) for _ in range(k)]
            amps = None if rng.random() < 0.15 else [rng.choice([1.0, 2.0, -1.0, 0.5, 0.0, 3.0, -0.25, 2.75, -1.25]) for _ in range(k)]
            kern = [rng.choice(["1", "0", "2", "-1", "1/2", "1/4"]) for _ in range(rng.choice([1, 2, 3, 4]))]
            causal, implfn = rng.random() < 0.5, rng.random() < 0.5
            if k >= 2 and rng.random() < 0.06:
                # summands that cancel down to a bare multiple of t: kernel c + x/…, onset c
                times[1] = times[0]
                kern = [fr(times[0]), "1"]
                causal, implfn = False, rng.random() < 0.2
                bare = rng.random() < 0.7
                if bare:
                    amps = None            # unit amplitudes: the summand is the bare Term t
            gpoly = rng.choice([["0", "1"], ["0", "1"], ["1", "0", "1"], ["0", "2"], ["1/2", "1", "-1"]])
            if k >= 2 and kern == [fr(times[0]), "1"] and amps is None:
                gpoly = ["0", "1"]
            cases.append({"kind": "events", "times": times, "amps": amps,
                          "kernel": kern,
                          "causal": causal, "implfn": implfn,
                          "g": gpoly,
                          "q": [rng.choice([-2.0, 0.0, 0.5, 1.0, 2.5, 2.75, 3.0, 5.0, 7.0, 8.5, 12.0]) for _ in range(rng.choice([1, 3, 5]))],
                          "split": rng.randrange(0, k + 1), "define": rng.random() < 0.3})
        for _ in range(n_step):
            k = rng.choice([1, 2, 3, 4, 6])
            if rng.random() < 0.75:
                ts = sorted(rng.sample([-3.0, -1.0, 0.0, 0.5, 1.0, 2.0, 4.0, 4.5, 5.0, 9.0], k))
            else:
                ts = [rng.choice([-1.0, 0.0, 1.0, 2.0, 4.0, 5.0]) for _ in range(k)]   # unsorted / ties
            vs = [rng.choice([0.0, 1.0, 2.0, -1.0, 4.25, 6.0, 0.5, 7.0, 2.5, -1.25, 0.75]) for _ in range(k)]
            cases.append({"kind": "step", "times": ts, "values": vs, "fill": rng.choice([0.0, 0.0, -1.0, 3.5, 0.75, -0.25]),
                          "q": sorted(set(ts + [rng.choice([-5.0, -0.5, 0.25, 1.5, 3.9, 4.1, 4.75, 10.0]) for _ in range(4)]))})
        for _ in range(n_blk):
            cases.append(self._gen_blocks(rng))
        for _ in range(n_int):
            k = rng.choice([2, 2, 3, 4, 6])
            ts = sorted(rng.sample([-3.0, -1.0, 0.0, 0.5, 1.0, 2.0, 4.0, 4.5, 5.0, 9.0, 9.25], k))
            vs = [rng.choice([0.0, 1.0, 2.0, -1.0, 4.25, 6.0, 0.5, 7.0, -2.5, 0.75]) for _ in range(k)]
            mids = [(a + b) / 2 for a, b in zip(ts, ts[1:])] + [ts[0] + (ts[1] - ts[0]) / 4]
            outside = [] if rng.random() < 0.3 else [ts[0] - 0.5, ts[-1] + 0.25]
            cases.append({"kind": "interp", "times": ts, "values": vs,
                          "fill": rng.choice([0.0, 0.0, 9.0, -1.5, 0.75, None]), "linear": rng.random() < 0.5,
                          "q": sorted(set(ts + mids + outside + [float(round(m)) for m in mids]))})
        for _ in range(n_conv):
            cases.append(self._gen_conv(rng))
        for _ in range(n_des):
            cases.append(self._gen_fmri_design(rng))
        for k in range(400 if q else 8000):
            cases.append(S.gen_session(rng, big=(not q and k % 4 == 0)))
        for _ in range(60 if q else 1200):
            cases.append(self._gen_blockamp(rng))
        for _ in range(60 if q else 1200):
            cases.append(self._gen_drift(rng))
        for _ in range(4 if q else 40):
            cases.append({"kind": "fmristat", "which": rng.choice(["taylor", "spectral"]),
                          "name": rng.choice(["glover", "afni", "spm"]), "t0": rng.choice([-5.0, -10.0]),
                          "t1": rng.choice([30.0, 40.0]), "nt": rng.choice([351, 701, 1001]),
                          "d0": rng.choice([-2.0, -3.0]), "d1": rng.choice([2.0, 3.0]), "dd": rng.choice([0.25, 0.5]),
                          "ncomp": rng.choice([2, 2, 3])})   # invertR (delay estimate) needs two components
        for _ in range(36 if q else 600):
            cases.append({"kind": "hrf", "name": rng.choice(["glover", "dglover", "afni", "spm", "dspm", "ddspm"]),
                          "q": sorted({rng.choice([-2.0, -0.5, 0.0, 0.5, 1.0, 2.0, 3.25, 5.0, 6.0, 8.5, 12.0, 20.0, 31.0])
                                       for _ in range(rng.choice([2, 4, 6]))}),
                          "events": [rng.choice([0.0, 1.0, 2.5, 4.0, 4.0, 10.0]) for _ in range(rng.choice([0, 0, 2, 3]))]})
        # interleave the kinds (deterministically) so that the first failures reported are of different kinds
        by_kind = {}
        for c in cases:
            by_kind.setdefault(c["kind"], []).append(c)
        order = ["session", "design", "nonlin", "recov", "blockamp", "drift", "hrf", "fmristat", "blocks", "fmri", "events", "step", "interp", "conv", "contrast", "stack"]
        order += sorted(k for k in by_kind if k not in order)      # never drop a kind silently
        out, i = [], 0
        while any(by_kind[k] for k in order if k in by_kind):
            for k in order:
                if by_kind.get(k):
                    out.append(by_kind[k].pop(0))
        return out

    def _gen_recov(self, rng):
        lkind = rng.choice(["int", "int", "str", "bytes"])
        pool = [2, 3, 5, 7, 11] if lkind == "int" else ["a", "b", "c", "d", "e"]
        q = rng.choice([1, 2, 2, 3, 4])
        levels = rng.sample(pool, q)
        outsider = 13 if lkind == "int" else "zz"
        n = rng.choice([1, 2, 3, 4, 5, 6])
        obs = [rng.choice(levels + ([outsider] if rng.random() < 0.3 else [])) for _ in range(n)]
        sq = q if rng.random() > 0.06 else q + 1
        sigma = [[float(rng.choice([0, 1, 2, 4, 6, -1, 0.5, 1.5])) for _ in range(sq)] for _ in range(sq)]
        if rng.random() < 0.6:
            sigma = [[sigma[min(i, j)][max(i, j)] for j in range(sq)] for i in range(sq)]
        return {"kind": "recov", "name": rng.choice(["s", "subj", "g"]), "lkind": lkind, "levels": levels, "obs": obs,
                "sigma": sigma, "symbolic": rng.random() < 0.15, "mk": rng.random() < 0.5}

    def _gen_contrast(self, rng):
        world = _gen_world(rng, max_num=3, max_fac=1)
        world["facs"] = [] if rng.random() < 0.6 else world["facs"][:1]
        nnum = len(world["names"])
        pool = [["1", [v]] for v in range(nnum)] + [["1", sorted([a, b])] for a in range(nnum) for b in range(a, nnum)]
        pool += [["2", [0]], ["1", []], ["-1", [nnum - 1, nnum - 1, nnum - 1]]]
        if world["facs"]:
            pool += [["1", [v]] for v in _factor_vars(world, 0)]
        p = rng.choice([1, 2, 3, 4, 5])
        monos = rng.sample(pool, min(p, len(pool)))
        if monos == [["1", []]]:
            # intercept-only formula: design() returns the column of ones and drops the contrasts request
            # (early return); not a formula "built from terms" - left out
            monos = [["1", [0]]]
        n = max(2, len(monos) + rng.choice([0, 1, 3, 5]))   # one observation squeezes D to 0-d: pinv refuses
        rows = []
        for _ in range(n):
            row = [float(rng.randrange(-3, 5)) for _ in range(nnum)]
            for fc in world["facs"]:
                row.append(fc["pool"].index(rng.choice(fc["levels"])))
            rows.append(row)
        world["rows"] = rows
        ncon = rng.choice([1, 2, 3])
        cons = []
        for i in range(ncon):
            # any number of the formula's terms, up to all of them (a contrast with as many columns as the design),
            # in the formula's order or in another order
            L_ = len(monos)
            k_ = L_ if rng.random() < 0.25 else rng.choice([1, 1, 2, min(3, L_)][:L_] or [1])
            idx = rng.sample(range(L_), k_)
            if rng.random() < 0.5:
                idx = sorted(idx)
            cons.append({"name": f"c{i}", "idx": idx, "bare": len(idx) == 1 and rng.random() < 0.5})
        outside = [m for m in pool if m not in monos and m != ["1", []]]
        if outside and rng.random() < 0.35:
            # a contrast formula that is not made of terms of the formula: projected onto the design
            cons.append({"name": "out", "idx": [], "bare": rng.random() < 0.5, "outside": rng.choice(outside)})
        return {"kind": "contrast", "world": world, "monos": monos, "cons": cons}

    def _gen_stack(self, rng):
        nd = rng.choice([1, 2, 2, 3, 4])
        n = rng.choice([2, 3, 5])
        names = ["a", "b", "c", "d", "e", "f", "g", "h"]
        rng.shuffle(names)
        pairs, used = [], 0
        for _ in range(nd):
            prev_used = used
            p = rng.choice([0, 1, 1, 2, 3])
            form = rng.choice(["pair", "pair", "single", "array"])
            X = [[float(rng.randrange(-2, 4)) for _ in range(p)] for _ in range(n)]
            cons = []
            if form == "pair":
                for _ in range(rng.choice([0, 1, 1, 2])):
                    if rng.random() < 0.08 and prev_used:
                        nm = names[rng.randrange(prev_used)]   # clash with an earlier design's contrast
                    else:
                        nm = names[used % len(names)]
                        used += 1
                    if any(x["name"] == nm for x in cons):
                        continue
                    r = rng.choice([0, 1, 2])                  # 0 = 1-D vector
                    mat = [[float(rng.randrange(-2, 3)) for _ in range(p)] for _ in range(max(r, 1))]
                    cons.append({"name": nm, "vec": r == 0, "mat": mat})
            pairs.append({"p": p, "X": X, "form": form, "flat": p == 1 and rng.random() < 0.4, "cons": cons})
        return {"kind": "stack", "n": n, "pairs": pairs}

    def _gen_blocks(self, rng):
        k = rng.choice([1, 2, 2, 3, 4, 5])
        mode = rng.choice(["sorted", "sorted", "sorted", "unsorted", "unsorted", "overlap"])
        cuts = sorted(rng.sample([x * 0.5 for x in range(-4, 40)], 2 * k))
        ivs = [[cuts[2 * i], cuts[2 * i + 1]] for i in range(k)]
        if rng.random() < 0.3 and k > 1:       # abutting blocks
            ivs[1][0] = ivs[0][1]
        if rng.random() < 0.1:
            ivs[-1][1] = ivs[-1][0]            # empty block
        if mode == "unsorted":
            rng.shuffle(ivs)
        if mode == "overlap":
            ivs = [[rng.choice(cuts[:k]), rng.choice(cuts[k:])] for _ in range(k)]
            rng.shuffle(ivs)
        amps = None if rng.random() < 0.15 else [rng.choice([1.0, 2.0, -1.0, 0.5, 3.0, 0.0, 2.75, -1.25, 0.25]) for _ in range(k)]
        qs = sorted({t for iv in ivs for t in iv} | {(iv[0] + iv[1]) / 2 for iv in ivs}
                    | {rng.choice([-5.0, 0.25, 3.75, 7.25, 11.0, 25.0]) for _ in range(3)}
                    | {float(int(iv[0]) + 1) for iv in ivs})
        return {"kind": "blocks", "ivs": ivs, "amps": amps, "mode": mode, "q": qs}

    def _gen_fn(self, rng):
        """a function of t: polynomial (optionally causal) or blocks, with exact sampling"""
        if rng.random() < 0.5:
            k = rng.choice([1, 2, 3])
            cuts = sorted(rng.sample([x * 0.5 for x in range(0, 16)], 2 * k))
            return {"type": "blocks", "ivs": [[cuts[2 * i], cuts[2 * i + 1]] for i in range(k)],
                    "amps": [rng.choice([1.0, 2.0, -1.0, 0.5, 2.75, -1.25]) for _ in range(k)]}
        return {"type": "poly", "cs": [rng.choice(["1", "0", "2", "-1", "1/2"]) for _ in range(rng.choice([1, 2, 3]))],
                "causal": rng.random() < 0.5}

    def _gen_conv(self, rng):
        dt = rng.choice(DTS)
        def iv():
            lo = rng.choice([-2.0, -1.0, 0.0, 0.0, 0.5, 1.0])
            hi = lo + rng.choice([dt, 2 * dt, 1.0, 2.0, 3.0, 4.5, 6.0, 0.3, 1.1])
            return [hi, lo] if rng.random() < 0.15 else [lo, hi]
        fi, gi = iv(), iv()
        lo = min(fi) + min(gi)
        hi = max(fi) + max(gi)
        qs = sorted({lo - dt, lo, lo + dt / 2, lo + dt, (lo + hi) / 2, hi - dt, hi, hi + 1.0,
                     lo + 3 * dt, lo + 2.5 * dt})
        return {"kind": "conv", "f": self._gen_fn(rng), "g": self._gen_fn(rng), "fi": fi, "gi": gi, "dt": dt,
                "fill": rng.choice([0.0, 0.0, 7.0, 0.75]), "tc": rng.random() < 0.4,
                "q": sorted(set(qs) | {float(int(lo)), float(int(lo) + 1), float(int(hi))})}

    def _gen_blockamp(self, rng):
        k = rng.choice([1, 2, 2, 3, 4])
        dt = rng.choice([0.25, 0.5, 1.0])
        cuts = sorted(rng.sample([x * 0.5 for x in range(0, 24)], 2 * k))
        blocks = [[cuts[2 * i], cuts[2 * i + 1], rng.choice([1.0, 2.0, -1.0, 0.5, 2.75])] for i in range(k)]
        rng.shuffle(blocks)
        a = rng.choice([0.0, 0.0, -0.5, 1.0])
        hi = [a, a + rng.choice([1.0, 2.0, 3.5, 4.0])]
        pad = rng.choice([0.0, 0.5, 1.0, 2.0])
        lo = cuts[0] - pad + hi[0]
        top = cuts[-1] + pad + hi[1]
        qs = sorted({lo - 1.0, lo, lo + dt, lo + 1.5 * dt, (lo + top) / 2, top - 3 * dt, top - 2 * dt, top - dt, top,
                     top + 2.0, cuts[-1] + hi[0], cuts[-1] + hi[0] + dt}
                    | {float(int(c_)) for c_ in cuts[:3]})
        return {"kind": "blockamp", "blocks": blocks, "dt": dt, "pad": pad, "hi": hi,
                "kernel": [rng.choice(["1", "2", "1/2", "0"]), rng.choice(["0", "1", "-1/4"])][: rng.choice([1, 2])],
                "causal": rng.random() < 0.5, "noamp": rng.random() < 0.2, "rec": rng.random() < 0.6, "q": qs}

    def _gen_drift(self, rng):
        n = rng.choice([1, 2, 3, 5, 8])
        t = [rng.choice([-1.0, 0.0, 0.25, 0.5, 1.0, 1.5, 2.0, 3.0, 4.5, 6.0]) for _ in range(n)]
        if rng.random() < 0.3:
            return {"kind": "drift", "which": "fourier", "t": t,
                    "freq": [rng.choice([0.25, 0.5, 1.0, 2.0, 0.125]) for _ in range(rng.choice([1, 2, 3]))]}
        return {"kind": "drift", "which": "spline", "t": t, "order": rng.choice([0, 1, 2, 3, 3]),
                "knots": sorted(rng.sample([-0.5, 0.0, 0.25, 1.0, 2.0, 4.0], rng.choice([0, 1, 2, 4]))),
                "intercept": rng.random() < 0.6}

    def _gen_fmri_design(self, rng):
        btype = rng.choice(["event", "block"])
        k = rng.choice([2, 3, 4, 5])
        nf = rng.choice([0, 1, 1, 2])
        cuts = sorted(rng.sample([x * 1.0 for x in range(0, 24)], 2 * k))
        rows = []
        for i in range(k):
            rows.append({"s": cuts[2 * i], "e": cuts[2 * i + 1],
                         "lv": [rng.choice(["a", "b", "c"][: rng.choice([2, 3])]) for _ in range(nf)]})
        perm = list(range(k))
        rng.shuffle(perm)
        return {"kind": "fmri", "btype": btype, "rows": rows, "nf": nf, "perm": perm,
                "kernel": [rng.choice(["1", "2", "1/2"]), rng.choice(["1", "-1/4", "0"])],
                "tq": [x * 1.0 for x in range(0, 30, 2)]}

    # ------------------------------------------------------------------
    def run_case(self, case):
        warnings.filterwarnings("ignore")
        return getattr(self, "_" + case["kind"])(case)

    # ---- formulae whose terms carry parameters: design(input, param=...) ---------------------
    @staticmethod
    def _gen_nonlin(rng):
        """terms = (monomial in the parameters a, b, c) * (monomial in the data terms x, y): the column of a
        term is that expression evaluated on the data at the given parameter values, whatever the order of the
        fields of the parameter record (extra fields allowed)"""
        nt, npar = rng.choice([1, 2, 2]), rng.choice([1, 2, 2, 3])
        terms = []
        for _ in range(rng.choice([1, 2, 3])):
            pe = [rng.choice([0, 1, 1, 2]) for _ in range(npar)]
            te = [rng.choice([0, 1, 1, 2]) for _ in range(nt)]
            if not any(pe):
                pe[rng.randrange(npar)] = 1
            if not any(te):
                te[rng.randrange(nt)] = 1
            if [pe, te] not in terms:
                terms.append([pe, te])
        used = [j for j in range(npar) if any(t[0][j] for t in terms)]
        order = list(used)
        rng.shuffle(order)
        n = rng.choice([1, 2, 3, 5])
        return {"kind": "nonlin", "nt": nt, "npar": npar, "terms": terms,
                "bvals": [rng.choice([1.0, 2.0, -1.0, 0.5, 3.0]) for _ in terms],
                "pvals": [rng.choice([0.5, 2.0, -1.0, 3.0, 1.5, -0.25]) for _ in range(npar)],
                "order": order, "extra": rng.random() < 0.3,
                "rows": [[float(rng.randrange(-3, 5)) for _ in range(nt)] for _ in range(n)],
                "pdtype": rng.choice(["float64", "float64", "mixed"])}

    def _nonlin(self, c):
        import sympy
        from nipy.algorithms.statistics.formula.formulae import Formula, Term
        nt, npar = c["nt"], c["npar"]
        tnames, pnames = ["x", "y"][:nt], ["a", "b", "c"][:npar]
        T = [Term(nm) for nm in tnames]
        P = [sympy.Symbol(nm) for nm in pnames]
        exprs = []
        for pe, te in c["terms"]:
            e = sympy.Integer(1)
            for j, k in enumerate(pe):
                e = e * P[j] ** k
            for j, k in enumerate(te):
                e = e * T[j] ** k
            exprs.append(e)
        rows = np.array(c["rows"], dtype=float).reshape(len(c["rows"]), nt)
        data = np.zeros(rows.shape[0], dtype=[(nm, float) for nm in tnames])
        for j, nm in enumerate(tnames):
            data[nm] = rows[:, j]
        # the design of such a formula is the Jacobian of the mean sum_i _b_i * term_i with respect to every
        # parameter: the coefficients _b_i (column: term_i) and the symbols inside the terms (column: d mean / d a);
        # the parameter record names all of them, in any field order
        bnames = [f"_b{i}" for i in range(len(c["terms"]))]
        fields = [pnames[j] for j in c["order"]] + bnames
        random.Random(len(fields) * 7 + sum(c["order"])).shuffle(fields)
        if c["extra"]:
            fields.insert(len(fields) // 2, "unused")
        kinds = {nm: (np.float32 if (c["pdtype"] == "mixed" and k % 2) else np.float64) for k, nm in enumerate(fields)}
        par = np.zeros((), dtype=[(nm, kinds[nm]) for nm in fields])
        for nm in fields:
            par[nm] = 99.0 if nm == "unused" else (c["bvals"][bnames.index(nm)] if nm in bnames
                                                   else c["pvals"][pnames.index(nm)])
        snap = Snapshot(data=data, par=par)
        fail = None
        tags = ["nonlin", f"params={len(c['order'])}", "extra-field" if c["extra"] else "exact-fields",
                "field-order=" + ("sorted" if fields == sorted(fields) else "other")]
        try:
            f = Formula(exprs)
            D = f.design(data, param=par, return_float=True)
            cols = _design_cols(D, rows.shape[0])
            def term_value(pe, te, dj=None):
                """value of the term, or of its derivative with respect to parameter `dj`"""
                col = np.ones(rows.shape[0])
                for j, k in enumerate(pe):
                    if j == dj:
                        col = col * (k * c["pvals"][j] ** (k - 1) if k >= 1 else 0.0)
                    else:
                        col = col * (c["pvals"][j] ** k)
                for j, k in enumerate(te):
                    col = col * rows[:, j] ** k
                return col
            want = [term_value(pe, te).tolist() for pe, te in c["terms"]]
            for j in c["order"]:
                want.append(sum(b * term_value(pe, te, j) for b, (pe, te) in zip(c["bvals"], c["terms"])).tolist())
            d = _match_cols(cols, want)
            if d is not None:
                fail = (f"Formula.design(param=record with fields {fields}) of terms {[str(e) for e in exprs]} at "
                        f"{dict(zip(pnames, c['pvals']))}: {d}; columns are {np.asarray(cols).T.tolist()}")
        except Exception as e:      # noqa: BLE001
            fail = (f"Formula.design(param=record with fields {fields}) of terms {[str(e) for e in exprs]} raised "
                    f"{type(e).__name__}: {str(e)[:160]}")
        return {"lines": [], "impl": [], "oracle": fail, "nontrivial": len(c["order"]) >= 2 or len(exprs) >= 2,
                "tags": tags, "mutated": snap.changed()}

    def _session(self, c):
        return S.run_session(c)

    # ---- formula arithmetic + design ---------------------------------
    def _design(self, c):
        W = _World(c["world"])
        world = c["world"]
        n = len(world["rows"])
        tags = ["design"]
        lines, impl = [], []
        etoks = _expr_tokens(c["expr"], world)
        try:
            f = W.build(c["expr"])
        except Exception as e:
            return {"lines": [], "impl": [], "nontrivial": True, "tags": ["design", "build-raised"],
                    "oracle": f"formula arithmetic raised {type(e).__name__}: {e}"}
        terms = list(f.terms)
        monos = [W.to_mono(t) for t in terms]
        if all(m is not None for m in monos):
            lines.append("terms " + etoks)
            impl.append(("terms", bool(W.F.is_factor(f)), sorted(monos)))
        else:
            tags.append("non-monomial-term")
        snap = Snapshot(data=W.data)
        fail = None
        if len(terms) == 0:
            tags.append("empty-formula")
            try:
                f.design(W.data, return_float=True)
                impl_obs = ("cols", [])
            except Exception as e:
                impl_obs = ("err", errname(e))
            lines.append(f"design {etoks} {_specs_tokens(world)} {_rows_tokens(world)}")
            impl.append(impl_obs)
            return {"lines": lines, "impl": impl, "oracle": W.alg_fail, "nontrivial": False, "tags": tags,
                    "mutated": snap.changed()}
        try:
            D = f.design(W.data, return_float=True)
        except Exception as e:
            return {"lines": [], "impl": [], "nontrivial": True, "tags": tags + ["design-raised"],
                    "oracle": f"Formula.design raised {type(e).__name__}: {str(e)[:200]} for terms {terms}"}
        cols = _design_cols(D, n)
        lines.append(f"design {etoks} {_specs_tokens(world)} {_rows_tokens(world)}")
        impl.append(("cols", cols))
        want = [W.exact_column(t) for t in terms]
        d = _match_cols(cols, want)
        if W.alg_fail is not None:
            fail = W.alg_fail
            tags.append("algebra-clause-failed")
        elif d is not None:
            fail = (f"Formula.design(return_float=True) of terms {terms}: {d}; columns are "
                    f"{np.asarray(cols).T.tolist() if cols else []}")
        names = [str(t) for t in terms]
        if fail is None and c.get("rec") and len(set(names)) == len(names):
            tags.append("recarray")
            try:
                R = f.design(W.data)
                got_names = list(R.dtype.names)
                if sorted(got_names) != sorted(names) and got_names != ["intercept"]:
                    fail = f"design recarray fields {got_names} are not the term names {names}"
                elif got_names != ["intercept"]:
                    for t, w in zip(terms, want):
                        if not all_close(np.asarray(R[str(t)], dtype=float).reshape(-1).tolist(), w, 1e-9, 1e-9):
                            fail = f"design recarray field {str(t)!r} is not the term evaluated on the data"
                            break
            except Exception as e:
                fail = f"Formula.design (recarray) raised {type(e).__name__}: {str(e)[:200]} for terms {terms}"
        # factor clause: indicator columns of each declared factor partition the observations
        if fail is None:
            for k, fac in enumerate(W.factors):
                fc = world["facs"][k]
                try:
                    ind = np.asarray(fac.design(W.data, return_float=True), dtype=float).reshape(n, -1)
                except Exception as e:
                    fail = f"Factor.design raised {type(e).__name__}: {e}"
                    break
                covered = set(fc["data_levels"]) <= set(fc["levels"])
                if not np.all((ind == 0) | (ind == 1)) or np.any(ind.sum(axis=1) > 1) or \
                        (covered and np.any(ind.sum(axis=1) != 1)):
                    fail = (f"indicator columns of factor {fc['name']} (levels {fc['levels']}) do not "
                            f"partition the observations: {ind.tolist()}")
                    break
                tags.append("factor-partition" if covered else "factor-uncovered-level")
        if len(set(monos)) < len(monos):
            tags.append("duplicate-terms")
        # mean / coefs / params / getterms / design_expr / dtype
        if fail is None and all(m is not None for m in monos):
            try:
                npar, ncoef, nat = len(f.params), len(f.coefs), len(W.F.getterms(f.mean))
                lines.append(f"counts {etoks} {_specs_tokens(world)}")
                impl.append(("counts", [npar, ncoef, nat]))
                de = list(f.design_expr)
                # the *order* of design_expr / dtype is the order sympy sorts the parameter names in (b0, b1, b10,
                # b11, b2, ... from 11 terms on): not part of the property, compared as multisets
                if sorted(map(str, de)) != sorted(map(str, terms)) or \
                        (len(terms) <= 10 and any(sympy_ne(a, b) for a, b in zip(de, terms))):
                    fail = f"design_expr {de} is not the list of terms {terms} (a formula linear in its parameters)"
                elif len(set(names)) == len(names) and sorted(f.dtype.names) != sorted(names):
                    fail = f"Formula.dtype names {list(f.dtype.names)} are not the term names {names}"
                elif set(W.F.getparams(f.mean)) != set(f.params) or any(W.F.is_term(p_) for p_ in f.params):
                    fail = f"params {f.params} are not the non-Term symbols of the mean {f.mean}"
                tags.append("counts")
            except Exception as e:
                fail = f"mean/coefs/params of terms {terms} raised {type(e).__name__}: {str(e)[:200]}"
        # Formula.subs(old Term, new Term)
        sb = c.get("subs")
        if fail is None and sb is not None and not any(sp_["v"] == sb[0] for sp_ in world.get("splines", [])):
            a, b = sb
            try:
                g = f.subs(W.terms[a], W.terms[b])
                gt = list(g.terms)
                Dg = g.design(W.data, return_float=True)
                gcols = _design_cols(Dg, n)
                lines.append(f"subs {a} {b} {etoks} {_specs_tokens(world)} {_rows_tokens(world)}")
                impl.append(("cols", gcols))
                wantg = [W.exact_column(t.subs(W.terms[a], W.terms[b])) for t in terms]
                d = _match_cols(gcols, wantg)
                if len(gt) != len(terms):
                    fail = f"Formula{terms}.subs({W.terms[a]}, {W.terms[b]}) has {len(gt)} terms"
                elif d is not None:
                    fail = f"design of Formula{terms}.subs({W.terms[a]}, {W.terms[b]}) = {gt}: {d}"
                tags.append("subs")
            except TypeError as e:
                if W.F.is_factor(f):
                    lines.append(f"subs {a} {b} {etoks} {_specs_tokens(world)} {_rows_tokens(world)}")
                    impl.append(("err", errname(e)))
                    tags.append("subs-factor-refused")
                else:
                    fail = f"Formula.subs raised TypeError: {e}"
            except Exception as e:
                if len(terms) and not all(str(t_) in ("0",) for t_ in terms):
                    fail = f"Formula{terms}.subs raised {type(e).__name__}: {str(e)[:200]}"
        tags.append("op=" + c["expr"]["op"])
        return {"lines": lines, "impl": impl, "oracle": fail, "nontrivial": c["expr"]["op"] != "A",
                "tags": tags, "mutated": snap.changed()}

    # ---- RandomEffects.cov ------------------------------------------------
    def _recov(self, c):
        from nipy.algorithms.statistics.formula import formulae as F
        levels, obs, q, n = c["levels"], c["obs"], len(c["levels"]), len(c["obs"])
        lv = [l.encode() for l in levels] if c["lkind"] == "bytes" else list(levels)
        tags = ["recov"]
        if c["lkind"] == "int" and c["mk"]:
            data = F.make_recarray([float(v) for v in obs], [c["name"]])
            tags.append("make_recarray")
        else:
            dt = {"int": int, "str": "U4", "bytes": "S4"}[c["lkind"]]
            data = np.array([(v.encode() if c["lkind"] == "bytes" else v,) for v in obs], dtype=[(c["name"], dt)])
        idx = [levels.index(v) if v in levels else -1 for v in obs]
        sig = c["sigma"]
        line = (f"recov {q} {n} " + " ".join(str(k) for k in idx) + f" {len(sig)} {len(sig[0]) if sig else 0} "
                + " ".join(fr(v) for r in sig for v in r))
        line = " ".join(line.split())
        snap = Snapshot(data=data)
        fac = F.Factor(c["name"], lv)
        sigma = None if c["symbolic"] else np.array(sig, dtype=float).reshape(len(sig), -1)
        try:
            re = F.RandomEffects(fac.terms, sigma=sigma)
        except ValueError as e:
            bad = sigma is not None and sigma.shape != (q, q)
            return {"lines": [line] if not c["symbolic"] else [], "impl": [("err", errname(e))] if not c["symbolic"] else [],
                    "oracle": None if bad else f"RandomEffects(...) raised ValueError: {e}",
                    "nontrivial": False, "tags": tags + ["sigma-shape-refused"], "mutated": None}
        try:
            C = re.cov(data)
        except Exception as e:
            return {"lines": [], "impl": [], "nontrivial": True, "tags": tags + ["raised"],
                    "oracle": (f"RandomEffects(Factor({c['name']!r}, {lv!r}).terms, sigma={sig if not c['symbolic'] else None})"
                               f".cov(data with {n} observations {obs}) raised {type(e).__name__}: {str(e)[:160]}")}
        fail = None
        if np.shape(C) != (n, n):
            fail = (f"RandomEffects.cov for {n} observations and {q} random effects has shape {np.shape(C)}, "
                    f"not ({n}, {n})")
        elif c["symbolic"]:
            tags.append("symbolic-sigma")
            for i in range(n):
                for j in range(n):
                    zero = (C[i][j] == 0)
                    if zero != (idx[i] != idx[j] or idx[i] < 0):
                        fail = (f"symbolic RandomEffects.cov entry ({i},{j}) is {C[i][j]} for observations "
                                f"{obs[i]!r}, {obs[j]!r} (levels {levels})")
            return {"lines": [], "impl": [], "oracle": fail, "nontrivial": n >= 2, "tags": tags, "mutated": snap.changed()}
        else:
            Cf = np.asarray(C, dtype=float)
            for i in range(n):
                for j in range(n):
                    want = sig[idx[i]][idx[j]] if idx[i] >= 0 and idx[j] >= 0 else 0.0
                    if fail is None and Cf[i, j] != want:
                        fail = (f"RandomEffects.cov entry ({i},{j}) is {Cf[i, j]}; observations {obs[i]!r}, {obs[j]!r} "
                                f"(levels {levels}) give sigma[{idx[i]}][{idx[j]}] = {want}")
        if fail is not None:
            return {"lines": [], "impl": [], "oracle": fail, "nontrivial": True, "tags": tags, "mutated": snap.changed()}
        return {"lines": [line], "impl": [("mat", np.asarray(C, dtype=float).tolist())], "oracle": None,
                "nontrivial": n >= 2 and q >= 2, "tags": tags, "mutated": snap.changed()}

    # ---- contrasts -----------------------------------------------------
    def _contrast(self, c):
        W = _World(c["world"])
        world = c["world"]
        F = W.F
        n = len(world["rows"])
        terms = [W.mono(cf, vs) for cf, vs in c["monos"]]
        f = F.Formula(terms)
        cons = {}
        outside_cols = {}
        for cn in c["cons"]:
            if "outside" in cn:
                ot = W.mono(*cn["outside"])
                cons[cn["name"]] = ot if cn["bare"] else F.Formula([ot])
                outside_cols[cn["name"]] = W.exact_column(ot)
                continue
            sub = [terms[i] for i in cn["idx"]]
            cons[cn["name"]] = sub[0] if cn["bare"] else F.Formula(sub)
        snap = Snapshot(data=W.data)
        wantx = np.array([[float(x) for x in W.exact_column(t)] for t in terms]).T
        degenerate = any(np.linalg.matrix_rank(wantx[:, cn["idx"]]) < len(cn["idx"]) for cn in c["cons"]
                         if "outside" not in cn) or any(not any(col) for col in outside_cols.values())
        # an outside contrast orthogonal to every column of the design projects to nothing: not estimable, refused
        exact_cols = [W.exact_column(t) for t in terms]
        degenerate = degenerate or any(all(sum(a * b for a, b in zip(col, dc)) == 0 for dc in exact_cols)
                                       for col in outside_cols.values())
        try:
            D, cm = f.design(W.data, contrasts=cons)
        except Exception as e:
            if degenerate:   # a contrast whose own columns are linearly dependent (e.g. identically zero)
                return {"lines": [], "impl": [], "nontrivial": False, "tags": ["contrast", "degenerate-refused"],
                        "oracle": None}
            return {"lines": [], "impl": [], "nontrivial": True, "tags": ["contrast", "raised"],
                    "oracle": f"Formula.design(contrasts=...) raised {type(e).__name__}: {str(e)[:200]}"}
        D2 = np.asarray(D, dtype=float).reshape(n, -1)
        p = len(terms)
        want = np.array([[float(x) for x in W.exact_column(t)] for t in terms]).T
        fail = None
        tags = ["contrast"]
        if D2.shape != (n, p) or not np.allclose(D2, want, atol=1e-9):
            fail = f"design of {terms} with contrasts is not the terms evaluated in order: {D2.tolist()}"
        full = fail is None and np.linalg.matrix_rank(want) == p and np.linalg.cond(want) < 1e6
        lines, impl = [], []
        mtoks = lambda ms: f"{len(ms)} " + " ".join(f"{cf} {len(vs)}" + "".join(f" {v}" for v in vs) for cf, vs in ms)
        exactD = [W.exact_column(t) for t in terms]        # columns
        Pex = None
        for cn in c["cons"]:
            C = np.atleast_2d(np.asarray(cm[cn["name"]], dtype=float))
            if "outside" in cn:
                Lx = [outside_cols[cn["name"]]]
                Lf = np.array([[float(v) for v in Lx[0]]]).T
                if np.linalg.matrix_rank(want) == 0 or not np.any(np.abs(want.T @ Lf) > 1e-9):
                    tags.append("outside-contrast-orthogonal")     # projects to 0: the rank reduction branch
                    continue
                if Pex is None:
                    Pex = _exact_pinv(exactD, n)
                lines.append(f"contrastP {_pm_cols(exactD, n)} {_pm_rows(Pex)} {_pm_cols(Lx, n)}")
                impl.append(("mat", C.tolist()))
                tags.append("outside-contrast")
                continue
            L = want[:, cn["idx"]]
            if np.linalg.matrix_rank(L) < len(cn["idx"]):
                tags.append("degenerate-contrast")
                continue
            if fail is None and C.shape == (len(cn["idx"]), p):
                if Pex is None:
                    Pex = _exact_pinv(exactD, n)
                lines.append(f"contrastP {_pm_cols(exactD, n)} {_pm_rows(Pex)} "
                             f"{_pm_cols([exactD[i] for i in cn['idx']], n)}")
                impl.append(("mat", C.tolist()))
                tags.append("certified-pinv")
            if fail is None and C.shape != (len(cn["idx"]), p):
                fail = (f"contrast {cn['name']} for {len(cn['idx'])} independent named columns of a {p}-column "
                        f"design has shape {C.shape}")
            if fail is None and not np.allclose(D2 @ C.T, L, atol=1e-7 * max(1.0, np.abs(want).max())):
                fail = (f"contrast {cn['name']} for terms {[str(terms[i]) for i in cn['idx']]}: D·Cᵀ is not "
                        f"the named columns (C={C.tolist()})")
            if full:
                sel = np.zeros((len(cn["idx"]), p))
                for r, i in enumerate(cn["idx"]):
                    sel[r, i] = 1
                if fail is None and (C.shape != sel.shape or not np.allclose(C, sel, atol=1e-7)):
                    fail = (f"contrast {cn['name']} of a full-rank design does not select columns "
                            f"{cn['idx']}: {C.tolist()}")
                lines.append(f"contrast {mtoks(c['monos'])} {mtoks([c['monos'][i] for i in cn['idx']])}")
                impl.append(("mat", C.tolist()))
        tags.append("full-rank" if full else "rank-deficient")
        return {"lines": lines, "impl": impl, "oracle": fail, "nontrivial": True, "tags": tags,
                "mutated": snap.changed()}

    # ---- stack_designs / stack_contrasts ---------------------------------
    def _stack(self, c):
        from nipy.modalities.fmri import design as D
        n = c["n"]
        args, toks = [], [str(len(c["pairs"]))]
        name_ids = {}
        all_cons = []
        for pr in c["pairs"]:
            X = np.array(pr["X"], dtype=float).reshape(n, pr["p"])
            if pr["flat"]:
                X = X[:, 0]
            cons = {}
            ctoks = []
            for cn in pr["cons"]:
                m = np.array(cn["mat"], dtype=float).reshape(len(cn["mat"]), pr["p"])
                cons[cn["name"]] = m[0] if cn["vec"] else m
                nid = name_ids.setdefault(cn["name"], len(name_ids))
                ctoks.append(f"{nid} {m.shape[0]} {m.shape[1]} " + frs(m.ravel().tolist()))
                all_cons.append(cn["name"])
            toks.append(f"{pr['p']} {len(ctoks)} " + " ".join(ctoks))
            args.append(X if pr["form"] == "array" else ((X,) if pr["form"] == "single" else (X, cons)))
        line = "stack " + " ".join(" ".join(toks).split())
        snap = Snapshot(args=[(a if isinstance(a, np.ndarray) else list(a)) for a in args])
        fail = None
        try:
            X, cm = D.stack_designs(*args)
            Xs = np.asarray(X, dtype=float)
            p = 0 if Xs.size == 0 else (1 if Xs.ndim == 1 else Xs.shape[1])
            obs = ("stack", p, {name_ids[k]: np.atleast_2d(np.asarray(v, dtype=float)).tolist() for k, v in cm.items()})
            # oracle: X is the hstack of the non-empty designs; each contrast is zero outside its block
            blocks = [np.array(pr["X"], dtype=float).reshape(n, pr["p"]) for pr in c["pairs"] if pr["p"] > 0]
            if blocks:
                H = np.hstack(blocks)
                if not np.array_equal(Xs.reshape(n, -1), H):
                    fail = "stack_designs: X is not the hstack of the designs"
            off = 0
            nonempty = [pr for pr in c["pairs"] if pr["p"] > 0]
            for pr in nonempty:
                for cn in pr["cons"]:
                    if fail is None and len(nonempty) > 1 and cn["name"] in cm:
                        M = np.atleast_2d(np.asarray(cm[cn["name"]], dtype=float))
                        orig = np.array(cn["mat"], dtype=float).reshape(-1, pr["p"])
                        inside = M[:, off:off + pr["p"]]
                        outside = np.delete(M, np.s_[off:off + pr["p"]], axis=1)
                        if M.shape[1] != p or not np.array_equal(inside, orig) or np.any(outside != 0):
                            fail = (f"stack_designs: contrast {cn['name']} is not its matrix placed in columns "
                                    f"{off}..{off + pr['p'] - 1} with zeros elsewhere: {M.tolist()}")
                off += pr["p"]
            if fail is None and len(cm) >= 2:
                keys = sorted(cm)[:2]
                cc = dict(cm)
                D.stack_contrasts(cc, "__stacked__", keys)
                if not np.array_equal(cc["__stacked__"], np.vstack([cm[k] for k in keys])):
                    fail = "stack_contrasts is not the vertical stack of the named contrasts"
        except ValueError as e:
            obs = ("err", errname(e))
        except Exception as e:
            return {"lines": [], "impl": [], "nontrivial": True, "tags": ["stack", "raised"],
                    "oracle": f"stack_designs raised {type(e).__name__}: {e}"}
        return {"lines": [line], "impl": [obs], "oracle": fail, "nontrivial": len(c["pairs"]) >= 2,
                "tags": ["stack", "refused" if obs[0] == "err" else "stacked"], "mutated": snap.changed()}

    # ---- time courses ----------------------------------------------------
    def _kernel(self, c, U, sympy):
        cs = [Fraction(x) for x in c["kernel"]]
        causal = c["causal"]
        if c["implfn"]:
            from sympy.utilities.lambdify import implemented_function
            fl = [float(x) for x in cs]

            def num(x):
                x = np.asarray(x, dtype=float)
                y = np.zeros_like(x)
                for cf in reversed(fl):
                    y = cf + x * y
                return np.where(x >= 0, y, 0.0) if causal else y
            return implemented_function("kern", num)

        def sym(x):
            e = sum((sympy.Rational(cf) * x ** i for i, cf in enumerate(cs)), sympy.Integer(0))
            return sympy.Piecewise((e, x >= 0), (0, True)) if causal else e
        return sym

    def _events(self, c):
        import sympy
        from nipy.modalities.fmri import utils as U
        ker = self._kernel(c, U, sympy)
        a = sympy.Symbol("a")
        g = sum((sympy.Rational(cf) * a ** i for i, cf in enumerate(c["g"])), sympy.Integer(0))
        q = np.array(c["q"], dtype=float)
        times = np.array(c["times"], dtype=float)
        amps = None if c["amps"] is None else np.array(c["amps"], dtype=float)
        snap = Snapshot(times=times, amps=amps if amps is not None else 0)
        kw = {} if c["g"] == ["0", "1"] else {"g": g}
        try:
            ex = U.events(times, amps, f=ker, **kw)
            lam = U.lambdify_t(ex)
            vals = _bc(lam(q), len(q))
        except Exception as e:
            return {"lines": [], "impl": [], "nontrivial": True, "tags": ["events", "raised"],
                    "oracle": f"events/lambdify_t raised {type(e).__name__}: {str(e)[:200]}"}
        mut = snap.changed()
        dfail = None
        if c.get("define"):
            try:
                dv = _bc(U.lambdify_t(U.define("evf", ex))(q), len(q))
                if not all_close(dv, vals, 1e-12, 1e-12):
                    dfail = f"define('evf', expr)(t) at {c['q']} is {dv}, but expr evaluates to {vals}"
            except Exception as e:
                dfail = f"define raised {type(e).__name__}: {str(e)[:160]}"
        am = c["amps"] if c["amps"] is not None else [1.0] * len(c["times"])
        kcs = [Fraction(x) for x in c["kernel"]]
        gcs = [Fraction(x) for x in c["g"]]

        def kval(x):
            return Fraction(0) if (c["causal"] and x < 0) else _poly(kcs, x)
        direct = [sum((_poly(gcs, Fraction(a_)) * kval(Fraction(t) - Fraction(tm)) for tm, a_ in zip(c["times"], am)),
                      Fraction(0)) for t in c["q"]]
        fail = dfail
        if fail is None and not all_close(vals, direct, 1e-9, 1e-9):
            fail = (f"events(times={c['times']}, amplitudes={c['amps']}) at t={c['q']}: {vals} is not the "
                    f"amplitude-weighted sum of shifted kernels {[float(x) for x in direct]}")
        elif fail is None:
            s = c["split"]
            try:
                parts = []
                for tt, aa in ((times[:s], None if amps is None else amps[:s]), (times[s:], None if amps is None else amps[s:])):
                    parts.append(np.asarray(_bc(U.lambdify_t(U.events(tt, aa, f=ker, **kw))(q), len(q))))
                if not np.allclose(parts[0] + parts[1], vals, rtol=1e-9, atol=1e-9):
                    fail = "events is not additive over a split of the event list"
            except Exception as e:
                fail = f"events on a sub-list raised {type(e).__name__}: {e}"
        gtags = []
        if fail is None:
            tmax = max([abs(t) for t in c["q"]] + [0.0]) + max([abs(t) for t in c["times"]] + [0.0])
            scale = 1.0 + sum(abs(float(_poly(gcs, Fraction(a_)))) for a_ in am) * \
                sum(abs(float(cf)) * tmax ** j for j, cf in enumerate(kcs))
            fail, gtags = _grid_variants(lam, c["q"], vals, f"events(times={c['times']}, amplitudes={c['amps']})",
                                         lists=False, scale=scale, unsigned=False)
        ev = " ".join(f"{fr(t)} {fr(a_)}" for t, a_ in zip(c["times"], am))
        line = (f"events {len(c['times'])} {ev} {1 if c['causal'] else 0} {plist(kcs)} {plist(gcs)} {plist(c['q'])}")
        tags = ["events", "causal" if c["causal"] else "polynomial", "implemented-fn" if c["implfn"] else "symbolic"]
        tags += gtags
        if len(set(c["times"])) < len(c["times"]):
            tags.append("coincident")
        return {"lines": [" ".join(line.split())], "impl": [("vals", vals)], "oracle": fail,
                "nontrivial": len(c["times"]) >= 2, "tags": tags, "mutated": mut}

    def _step(self, c):
        from nipy.modalities.fmri import utils as U
        q = np.array(c["q"], dtype=float)
        ts, vs = list(c["times"]), list(c["values"])
        snap = Snapshot(ts=ts, vs=vs)
        try:
            lam = U.lambdify_t(U.step_function(ts, vs, fill=c["fill"]))
            vals = _bc(lam(q), len(q))
        except Exception as e:
            return {"lines": [], "impl": [], "nontrivial": True, "tags": ["step", "raised"],
                    "oracle": f"step_function raised {type(e).__name__}: {e}"}
        fail = None
        inc = all(a < b for a, b in zip(ts, ts[1:]))
        if inc:
            for t, v in zip(c["q"], vals):
                below = [i for i, tk in enumerate(ts) if tk <= t]
                want = vs[below[-1]] if below else c["fill"]
                if v != want:
                    fail = f"step_function(times={ts}, values={vs}, fill={c['fill']}) at t={t} is {v}, expected {want}"
                    break
        gtags = []
        if fail is None:
            # a scalar time is refused (TypeError) by the implementation's boolean-mask assignment; a wrong
            # value is never accepted
            fail, gtags = _grid_variants(lam, c["q"], vals, f"step_function(times={ts}, values={vs}, fill={c['fill']})",
                                         scalar_refusal_ok=True)
        tv = " ".join(f"{fr(t)} {fr(v)}" for t, v in zip(ts, vs))
        line = f"step {fr(c['fill'])} {len(ts)} {tv} {plist(c['q'])}"
        return {"lines": [line], "impl": [("vals", vals)], "oracle": fail, "nontrivial": len(ts) >= 2,
                "tags": ["step", "increasing" if inc else "unsorted-or-tied"] + gtags, "mutated": snap.changed()}

    def _blocks(self, c):
        from nipy.modalities.fmri import utils as U
        q = np.array(c["q"], dtype=float)
        ivs = [list(iv) for iv in c["ivs"]]
        amps = None if c["amps"] is None else list(c["amps"])
        snap = Snapshot(ivs=ivs, amps=amps if amps is not None else 0)
        try:
            lam = U.lambdify_t(U.blocks(ivs, amps))
            vals = _bc(lam(q), len(q))
        except Exception as e:
            return {"lines": [], "impl": [], "nontrivial": True, "tags": ["blocks", "raised"],
                    "oracle": f"blocks raised {type(e).__name__}: {e}"}
        am = amps if amps is not None else [1.0] * len(ivs)
        fail = None
        if c["mode"] != "overlap":
            for t, v in zip(c["q"], vals):
                inside = [a for (s, e), a in zip(ivs, am) if s <= t < e]
                want = inside[0] if inside else 0.0
                if v != want:
                    fail = (f"blocks(intervals={ivs}, amplitudes={amps}) at t={t} is {v}; the amplitude of the "
                            f"block containing t is {want}")
                    break
        gtags = []
        if fail is None:
            fail, gtags = _grid_variants(lam, c["q"], vals, f"blocks(intervals={ivs}, amplitudes={amps})",
                                         scalar_refusal_ok=True)
        bl = " ".join(f"{fr(s)} {fr(e)} {fr(a)}" for (s, e), a in zip(ivs, am))
        line = f"blocks {len(ivs)} {bl} {plist(c['q'])}"
        return {"lines": [" ".join(line.split())], "impl": [("vals", vals)], "oracle": fail,
                "nontrivial": len(ivs) >= 2, "tags": ["blocks", "blocks-" + c["mode"]] + gtags, "mutated": snap.changed()}

    def _interp(self, c):
        from nipy.modalities.fmri import utils as U
        q = np.array(c["q"], dtype=float)
        ts, vs = list(c["times"]), list(c["values"])
        fn = U.linear_interp if c["linear"] else U.interp
        snap = Snapshot(ts=ts, vs=vs)
        fillt = "none" if c["fill"] is None else fr(c["fill"])
        line = f"interp {fillt} {plist(ts)} {plist(vs)} {plist(c['q'])}"
        tags = ["interp", "linear_interp" if c["linear"] else "interp"]
        try:
            lam = U.lambdify_t(fn(ts, vs, fill=c["fill"]))
            vals = _bc(lam(q), len(q))
        except ValueError as e:
            outside = any(t < ts[0] or t > ts[-1] for t in c["q"])
            fail = None if (c["fill"] is None and outside) else f"interp raised ValueError: {e}"
            return {"lines": [line], "impl": [("err", errname(e))], "oracle": fail, "nontrivial": True,
                    "tags": tags + ["bounds-error"], "mutated": snap.changed()}
        except Exception as e:
            return {"lines": [], "impl": [], "nontrivial": True, "tags": tags + ["raised"],
                    "oracle": f"interp raised {type(e).__name__}: {e}"}
        fail = None
        for t, v in zip(c["q"], vals):
            if t in ts:
                want = vs[ts.index(t)]
                if abs(v - want) > 1e-9 * max(1.0, abs(want)):
                    fail = f"interp(times={ts}, values={vs}) at knot t={t} is {v}, expected {want}"
            elif t < ts[0] or t > ts[-1]:
                if v != c["fill"]:
                    fail = f"interp outside the knots at t={t} is {v}, expected fill {c['fill']}"
            else:
                i = max(k for k, tk in enumerate(ts) if tk < t)
                lo, hi = sorted((vs[i], vs[i + 1]))
                if not (lo - 1e-9 <= v <= hi + 1e-9):
                    fail = f"interp at t={t} is {v}, outside the neighbouring samples [{lo}, {hi}]"
            if fail:
                break
        if fail is None:
            fail, gtags = _grid_variants(lam, c["q"], vals, f"interp(times={ts}, values={vs}, fill={c['fill']})")
            tags += gtags
        if fail is None:
            # the same samples handed over as float64 arrays (work buffers of the caller): the function is defined
            # by the samples it was given - it equals the one built from lists and does not follow later writes
            # into the caller's arrays
            tsa, vsa = np.array(ts, dtype=float), np.array(vs, dtype=float)
            try:
                lam2 = U.lambdify_t(fn(tsa, vsa, fill=c["fill"]))
                inside = [t for t in c["q"] if ts[0] <= t <= ts[-1]] or [ts[0]]
                qi = np.array(inside, dtype=float)
                v1 = _bc(lam2(qi), len(qi))
                vsa[:] = vsa[::-1] * 3.0 + 7.0
                tsa += 0.25 * (ts[-1] - ts[0] + 1.0)
                v2 = _bc(lam2(qi), len(qi))
                ref = [vals[c["q"].index(t)] for t in inside] if all(t in c["q"] for t in inside) else v1
                if not all_close(v1, ref, 1e-9, 1e-9):
                    fail = f"interp built from float64 arrays differs from interp built from lists: {v1} vs {ref}"
                elif not all_close(v2, v1, 0.0, 0.0):
                    fail = (f"interp(times, values) follows later writes into the caller's arrays: values at {inside} "
                            f"were {v1}, after the caller re-used its buffers they are {v2}")
                tags.append("array-samples")
            except Exception as e:      # noqa: BLE001
                fail = f"interp on float64 arrays raised {type(e).__name__}: {e}"
        return {"lines": [line], "impl": [("vals", vals)], "oracle": fail, "nontrivial": True, "tags": tags,
                "mutated": snap.changed()}

    def _fn(self, spec, U, sympy):
        """(sympy expression of t, exact python evaluator)"""
        if spec["type"] == "blocks":
            ex = U.blocks(spec["ivs"], spec["amps"])

            def ev(t):
                # disjoint sorted intervals: amplitude of the containing block
                for (s, e), a in zip(spec["ivs"], spec["amps"]):
                    if s <= t < e:
                        return Fraction(a)
                return Fraction(0)
            return ex, ev
        cs = [Fraction(x) for x in spec["cs"]]
        e = sum((sympy.Rational(cf) * U.T ** i for i, cf in enumerate(cs)), sympy.Integer(0))
        if spec["causal"]:
            e = sympy.Piecewise((e, U.T >= 0), (0, True))
        return e, (lambda t: Fraction(0) if (spec["causal"] and t < 0) else _poly(cs, t))

    def _conv(self, c):
        import sympy
        from nipy.modalities.fmri import utils as U
        fex, fev = self._fn(c["f"], U, sympy)
        gex, gev = self._fn(c["g"], U, sympy)
        dt = Fraction(c["dt"])
        q = np.array(c["q"], dtype=float)

        def samples(ev, interval):
            lo, hi = sorted(Fraction(x) for x in interval)
            n = -((lo - hi) // dt)        # ceil((hi - lo) / dt)
            return [ev(lo + k * dt) for k in range(int(n))]
        fv, gv = samples(fev, c["fi"]), samples(gev, c["gi"])
        mf, mg = min(c["fi"]), min(c["gi"])
        line = (f"conv {plist(fv)} {plist(gv)} {fr(c['dt'])} {fr(mf)} {fr(mg)} {fr(c['fill'])} {plist(c['q'])}")
        tags = ["conv", "TimeConvolver" if c["tc"] else "convolve_functions"]
        # a constant expression lambdifies to a scalar, which `_eval_for` cannot sample: not a function of t
        const = not (sympy.sympify(fex).has(U.T) and sympy.sympify(gex).has(U.T))
        try:
            if c["tc"]:
                ex = U.TimeConvolver(gex, c["gi"], c["dt"], fill=c["fill"]).convolve(fex, c["fi"])
            else:
                ex = U.convolve_functions(fex, gex, c["fi"], c["gi"], c["dt"], fill=c["fill"])
            lam = U.lambdify_t(ex)
            vals = _bc(lam(q), len(q))
        except Exception as e:
            if const:
                return {"lines": [], "impl": [], "oracle": None, "nontrivial": False,
                        "tags": tags + ["constant-operand-refused"], "mutated": None}
            return {"lines": [], "impl": [], "nontrivial": True, "tags": tags + ["raised"],
                    "oracle": f"convolve_functions raised {type(e).__name__}: {str(e)[:200]}"}
        fail = None
        full = np.convolve([float(x) for x in fv], [float(x) for x in gv]) * c["dt"]
        grid = np.arange(len(full)) * c["dt"] + mf + mg
        for t, v in zip(c["q"], vals):
            hit = np.nonzero(grid == t)[0]
            if len(hit) and abs(v - full[hit[0]]) > 1e-9 * max(1.0, abs(full[hit[0]])):
                fail = (f"convolved function at grid time {t} is {v}; direct numerical convolution of the "
                        f"samples gives {full[hit[0]]}")
            if (t < grid[0] or t > grid[-1]) and v != c["fill"]:
                fail = f"convolved function outside its support at t={t} is {v}, expected fill {c['fill']}"
            if fail is None and grid[0] <= t <= grid[-1]:
                w = float(np.interp(t, grid, full))
                if abs(v - w) > 1e-9 * max(1.0, abs(w)):
                    fail = (f"convolved function at t={t} is {v}; linear interpolation of the direct numerical "
                            f"convolution of the samples gives {w}")
        if fail is None and not c["tc"]:
            ex2 = U.convolve_functions(gex, fex, c["gi"], c["fi"], c["dt"], fill=c["fill"])
            v2 = _bc(U.lambdify_t(ex2)(q), len(q))
            if not np.allclose(v2, vals, rtol=1e-9, atol=1e-9):
                fail = "convolve_functions(f, g) and convolve_functions(g, f) differ"
        if fail is None:
            fail, gtags = _grid_variants(lam, c["q"], vals, "the numerically convolved function")
            tags += gtags
        # the same through the model's own sampling (`_eval_for`: np.arange + the function)
        line2 = (f"convfn {_tfn_tokens(c['f'])} {_tfn_tokens(c['g'])} {fr(c['fi'][0])} {fr(c['fi'][1])} "
                 f"{fr(c['gi'][0])} {fr(c['gi'][1])} {fr(c['dt'])} {fr(c['fill'])} {plist(c['q'])}")
        return {"lines": [line, line2], "impl": [("vals", vals), ("vals", vals)], "oracle": fail, "nontrivial": True,
                "tags": tags, "mutated": None}

    # ---- block_amplitudes / openfmri2nipy ----------------------------------
    def _blockamp(self, c):
        from sympy.utilities.lambdify import implemented_function
        from nipy.modalities.fmri import design as D
        cs = [Fraction(x) for x in c["kernel"]]
        fl = [float(x) for x in cs]

        def num(x):
            x = np.asarray(x, dtype=float)
            y = np.zeros_like(x)
            for cf in reversed(fl):
                y = cf + x * y
            return np.where(x >= 0, y, 0.0) if c["causal"] else y
        h = implemented_function("hk", num)
        oda = np.array([[b[0], b[1] - b[0], b[2]] for b in c["blocks"]], dtype=float)
        tq = np.array(c["q"], dtype=float)
        snap = Snapshot(oda=oda, tq=tq)
        tags = ["block_amplitudes"]
        try:
            spec = D.openfmri2nipy(oda)
        except Exception as e:
            return {"lines": [], "impl": [], "nontrivial": True, "tags": tags + ["raised"],
                    "oracle": f"openfmri2nipy raised {type(e).__name__}: {e}"}
        fail = None
        if spec.dtype.names != ("start", "end", "amplitude") or spec.shape != (len(c["blocks"]),) or \
                [list(map(float, r)) for r in spec.tolist()] != [[b[0], b[1], b[2]] for b in c["blocks"]]:
            fail = f"openfmri2nipy({oda.tolist()}) is {spec!r}: not (start, start + duration, amplitude)"
        arg = spec if c["rec"] else (spec[["start", "end"]] if c["noamp"] else np.array([list(b) for b in c["blocks"]]))
        if c["noamp"] and not c["rec"]:
            arg = np.array([list(b[:2]) for b in c["blocks"]])
        elif c["noamp"]:
            arg = np.array([tuple(b[:2]) for b in c["blocks"]], dtype=[("start", float), ("end", float)])
        try:
            X, cons = D.block_amplitudes("cond", arg, tq, hrfs=(h,), convolution_padding=c["pad"],
                                         convolution_dt=c["dt"], hrf_interval=tuple(c["hi"]))
            vals = _bc(np.asarray(X, dtype=float).reshape(-1), len(tq))
        except Exception as e:
            return {"lines": [], "impl": [], "nontrivial": True, "tags": tags + ["raised"],
                    "oracle": f"block_amplitudes raised {type(e).__name__}: {str(e)[:200]}"}
        if fail is None and (list(cons) != ["cond_0"] or np.asarray(cons["cond_0"]).tolist() != [1.0]):
            fail = f"block_amplitudes contrasts for one HRF are {cons}"
        bl = [[b[0], b[1], 1.0 if c["noamp"] else b[2]] for b in c["blocks"]]
        lo = min(min(b[0], b[1]) for b in bl) - c["pad"]
        hi = max(max(b[0], b[1]) for b in bl) + c["pad"]
        # direct numerical convolution of the samples (blocks are disjoint here)
        dtf = Fraction(c["dt"])

        def bval(t):
            for s_, e_, a_ in bl:
                if s_ <= t < e_:
                    return Fraction(a_)
            return Fraction(0)

        def kval(t):
            return Fraction(0) if (c["causal"] and t < 0) else _poly(cs, t)
        nf = int(-((Fraction(lo) - Fraction(hi)) // dtf))
        ng = int(-((Fraction(c["hi"][0]) - Fraction(c["hi"][1])) // dtf))
        fv = [bval(Fraction(lo) + k * dtf) for k in range(nf)]
        gv = [kval(Fraction(c["hi"][0]) + k * dtf) for k in range(ng)]
        full = np.convolve([float(x) for x in fv], [float(x) for x in gv]) * c["dt"]
        grid = np.arange(len(full)) * c["dt"] + lo + c["hi"][0]
        for t, v in zip(c["q"], vals):
            hit = np.nonzero(grid == t)[0]
            if fail is None and len(hit) and abs(v - full[hit[0]]) > 1e-9 * max(1.0, abs(full[hit[0]])):
                fail = (f"block_amplitudes(blocks={c['blocks']}, padding={c['pad']}, dt={c['dt']}, hrf_interval={c['hi']}) "
                        f"at grid time {t} is {v}; direct numerical convolution of the samples gives {full[hit[0]]}")
            if fail is None and (t < grid[0] or t > grid[-1]) and v != 0.0:
                fail = f"block_amplitudes outside the convolution support [{grid[0]}, {grid[-1]}] at t={t} is {v}, expected 0"
            if fail is None and grid[0] <= t <= grid[-1]:
                w = float(np.interp(t, grid, full))
                if abs(v - w) > 1e-9 * max(1.0, abs(w)):
                    fail = (f"block_amplitudes(blocks={c['blocks']}, padding={c['pad']}, dt={c['dt']}, hrf_interval={c['hi']}) "
                            f"at t={t} is {v}; linear interpolation of the direct numerical convolution gives {w}")
        ftoks = f"B {len(bl)} " + " ".join(f"{fr(b[0])} {fr(b[1])} {fr(b[2])}" for b in bl)
        gtoks = f"P {1 if c['causal'] else 0} {plist(cs)}"
        line = (f"convfn {ftoks} {gtoks} {fr(lo)} {fr(hi)} {fr(c['hi'][0])} {fr(c['hi'][1])} {fr(c['dt'])} 0 "
                f"{plist(c['q'])}")
        return {"lines": [line], "impl": [("vals", vals)], "oracle": fail, "nontrivial": len(bl) >= 2,
                "tags": tags + (["no-amplitude"] if c["noamp"] else []), "mutated": snap.changed()}

    # ---- hrf.py: symbolic HRFs evaluate to their numerical definitions (oracle only) ---------
    def _hrf(self, c):
        from nipy.modalities.fmri import hrf as H
        from nipy.modalities.fmri import utils as U
        q = np.array(c["q"], dtype=float)
        name = c["name"]
        sym, num = getattr(H, name), getattr(H, name + "t")
        tags = ["hrf", "hrf-" + name]
        try:
            lam = U.lambdify_t(sym(U.T))
            vals = _bc(lam(q), len(q))
            direct = np.asarray(num(q), dtype=float).tolist()
        except Exception as e:
            return {"lines": [], "impl": [], "nontrivial": True, "tags": tags + ["raised"],
                    "oracle": f"hrf.{name} raised {type(e).__name__}: {str(e)[:200]}"}
        fail = None
        if not all_close(vals, direct, 1e-12, 1e-12):
            fail = f"lambdify_t({name}(t)) at {c['q']} is {vals}, the numerical {name}t gives {direct}"
        if fail is None and name in ("spm", "glover", "afni", "dspm", "ddspm", "dglover"):
            neg = [v for t, v in zip(c["q"], vals) if t < 0]
            if any(abs(v) > 1e-12 for v in neg):
                fail = f"{name}(t) is not 0 before time 0: {neg}"
        if fail is None and name == "dspm":
            want = (np.asarray(H.spmt(q)) - np.asarray(H.spmt(q - 1))).tolist()
            if not all_close(vals, want, 1e-12, 1e-12):
                fail = f"dspmt(t) is not spmt(t) - spmt(t - 1) at {c['q']}"
        if fail is None and name in ("spm", "glover", "afni"):
            tt = np.arange(0.02, 50.02, 0.02)
            tot = float(np.sum(num(tt)) * 0.02)
            if abs(tot - 1.0) > 1e-9:
                fail = f"{name}t does not integrate to 1 on the grid it is normalised on: {tot}"
        if fail is None and c["events"]:
            # events(...) with this HRF is the superposition of shifted copies
            on = c["events"]
            ex = U.events(on, f=sym)
            ev = _bc(U.lambdify_t(ex)(q), len(q))
            want = sum((np.asarray(num(q - t0), dtype=float) for t0 in on), np.zeros(len(q))).tolist()
            if not all_close(ev, want, 1e-10, 1e-12):
                fail = f"events({on}, f={name}) at {c['q']} is {ev}, not the sum of shifted {name}t {want}"
        gtags = []
        if fail is None:
            # the numerical HRFs take arrays of times (`t.shape`); a bare python / numpy scalar is refused
            fail, gtags = _grid_variants(lam, c["q"], vals, f"{name}(t)", lists=False, unsigned=False,
                                         scalar_refusal_ok=name in ("spm", "dspm", "ddspm"))
        return {"lines": [], "impl": [], "oracle": fail, "nontrivial": True, "tags": tags + gtags, "mutated": None}

    # ---- fmristat/hrf.py: delay expansions (oracle only; SVD / pinv / gradient numerics) -----
    def _fmristat(self, c):
        from nipy.modalities.fmri import hrf as H
        from nipy.modalities.fmri import utils as U
        from nipy.modalities.fmri.fmristat import hrf as FH
        h = getattr(H, c["name"])
        ht = getattr(H, c["name"] + "t")
        time = np.linspace(c["t0"], c["t1"], c["nt"])
        delta = np.arange(c["d0"], c["d1"] + c["dd"] / 2, c["dd"])
        dt = time[1] - time[0]
        tags = ["fmristat", "fmristat-" + c["which"]]
        snap = Snapshot(time=time, delta=delta)
        fail = None
        try:
            if c["which"] == "taylor":
                (h0, dh), approx = FH.taylor_approx(h, time=time, delta=delta)
                dv = np.asarray(U.lambdify_t(dh(U.T))(time), dtype=float)
                want = -2 * np.gradient(np.asarray(ht(time), dtype=float), dt)
                scale = max(1.0, float(np.abs(want).max()))
                if h0 is not h:
                    fail = "taylor_approx does not return the HRF itself as first component"
                elif not np.allclose(dv, want, rtol=0, atol=1e-9 * scale):
                    fail = f"taylor_approx({c['name']}): the derivative component is not -2 * gradient(hrf) on the time grid"
                elif not np.allclose(approx(time, 0.0), ht(time), rtol=0, atol=1e-7 * max(1.0, float(np.abs(ht(time)).max()))):
                    fail = f"taylor_approx({c['name']}).approx(t, delta=0) is not the HRF itself"
            else:
                basis, approx = FH.spectral_decomposition(h, time=time, delta=delta, ncomp=c["ncomp"])
                B = np.array([np.asarray(U.lambdify_t(b(U.T))(time), dtype=float) for b in basis])
                G = B @ B.T
                off = G - np.diag(np.diag(G))
                if len(basis) != c["ncomp"]:
                    fail = f"spectral_decomposition returned {len(basis)} components for ncomp={c['ncomp']}"
                elif np.abs(off).max() > 1e-7 * np.abs(np.diag(G)).max():
                    fail = f"spectral_decomposition({c['name']}): the components are not orthogonal on the time grid"
                elif abs(abs(float(B[0].sum() * dt)) - 1.0) > 1e-9:
                    fail = "spectral_decomposition: the first component does not integrate to +-1"
                elif approx.coef[0](0.0) < 0:
                    fail = "spectral_decomposition: the coefficient of the first component at delay 0 is negative"
                else:
                    # least squares: the residual of every shifted HRF is orthogonal to the components
                    for d in delta[:: max(1, len(delta) // 4)]:
                        r = approx(time, d) - np.nan_to_num(ht(time - d))
                        if np.abs(B @ r).max() > 1e-6 * max(1.0, float(np.abs(B).max()) * float(np.abs(ht(time - d)).sum())):
                            fail = (f"spectral_decomposition({c['name']}).approx(t, {d}) is not the least-squares fit of the "
                                    f"HRF shifted by {d} on the components")
                            break
        except Exception as e:
            fail = f"fmristat.hrf.{c['which']} raised {type(e).__name__}: {str(e)[:200]}"
        return {"lines": [], "impl": [], "oracle": fail, "nontrivial": True, "tags": tags, "mutated": snap.changed()}

    # ---- design.natural_spline / design.fourier_basis (drifts) -----------------
    def _drift(self, c):
        from nipy.modalities.fmri import design as D
        tv = np.array(c["t"], dtype=float)
        snap = Snapshot(tv=tv)
        n = len(tv)
        if c["which"] == "fourier":
            try:
                X = np.asarray(D.fourier_basis(tv, np.array(c["freq"], dtype=float)), dtype=float).reshape(n, -1)
            except Exception as e:
                return {"lines": [], "impl": [], "nontrivial": True, "tags": ["fourier_basis", "raised"],
                        "oracle": f"design.fourier_basis raised {type(e).__name__}: {str(e)[:200]}"}
            want = []
            for f in c["freq"]:
                want += [np.cos(2 * np.pi * f * tv).tolist(), np.sin(2 * np.pi * f * tv).tolist()]
            d = _match_cols(X.T.tolist(), want, 1e-9) if X.shape[1] == len(want) else f"{X.shape[1]} columns"
            fail = None if d is None else f"fourier_basis(t, {c['freq']}) is not cos/sin(2 pi f t) per frequency: {d}"
            return {"lines": [], "impl": [], "oracle": fail, "nontrivial": True, "tags": ["fourier_basis"],
                    "mutated": snap.changed()}
        sp = {"v": 0, "order": c["order"], "knots": c["knots"], "intercept": c["intercept"]}
        fns = _spline_fns(sp)
        try:
            X = D.natural_spline(tv, knots=list(c["knots"]), order=c["order"], intercept=c["intercept"])
            cols = _design_cols(X, n)
        except Exception as e:
            if not fns:     # a spline basis without any function: an empty formula, refused
                return {"lines": [], "impl": [], "oracle": None, "nontrivial": False,
                        "tags": ["drift-spline", "empty-refused"], "mutated": snap.changed()}
            return {"lines": [], "impl": [], "nontrivial": True, "tags": ["drift-spline", "raised"],
                    "oracle": f"design.natural_spline raised {type(e).__name__}: {str(e)[:200]}"}
        want = []
        for kind, a in fns:
            want.append([Fraction(x) ** a if kind == "p" else
                         ((Fraction(x) - Fraction(a)) ** c["order"] if Fraction(x) > Fraction(a) else Fraction(0))
                         for x in c["t"]])
        fail = None
        if len(cols) != len(want) or any(not all_close(g, w, 1e-9, 1e-9) for g, w in zip(cols, want)):
            fail = (f"design.natural_spline(t={c['t']}, knots={c['knots']}, order={c['order']}, intercept={c['intercept']}) "
                    f"columns {cols} are not t**i then (t-k)**order*(t>k) in order")
        specs = ["n 0"] + [f"p 0 {a}" if kind == "p" else f"k 0 {fr(a)} {c['order']}" for kind, a in fns]
        etoks = f"A 0 {len(fns)} " + " ".join(f"1 1 {i + 1}" for i in range(len(fns)))
        line = (f"design {etoks} {len(specs)} {' '.join(specs)} {n} 1 " + " ".join(fr(x) for x in c["t"]))
        if not fns:
            return {"lines": [], "impl": [], "oracle": fail, "nontrivial": False, "tags": ["drift-spline", "empty"],
                    "mutated": snap.changed()}
        return {"lines": [line], "impl": [("cols", cols)], "oracle": fail, "nontrivial": True,
                "tags": ["drift-spline"], "mutated": snap.changed()}

    # ---- event_design / block_design (oracle only) ------------------------
    def _fmri(self, c):
        from sympy.utilities.lambdify import implemented_function
        from nipy.modalities.fmri import design as D
        cs = [float(Fraction(x)) for x in c["kernel"]]

        def num(x):
            x = np.asarray(x, dtype=float)
            return np.where((x >= 0) & (x < 4), cs[0] + cs[1] * x, 0.0)
        h = implemented_function("hk", num)
        tq = np.array(c["tq"], dtype=float)
        nf = c["nf"]

        def spec(order):
            rows = [c["rows"][i] for i in order]
            if c["btype"] == "event":
                dt = [("time", float)] + [(f"fac{j}", "U1") for j in range(nf)]
                return np.array([tuple([r["s"]] + r["lv"]) for r in rows], dtype=dt)
            dt = [("start", float), ("end", float)] + [(f"fac{j}", "U1") for j in range(nf)]
            return np.array([tuple([r["s"], r["e"]] + r["lv"]) for r in rows], dtype=dt)

        def run(order):
            s = spec(order)
            if c["btype"] == "event":
                X, cm = D.event_design(s, tq, hrfs=(h,))
            else:
                X, cm = D.block_design(s, tq, hrfs=(h,), convolution_padding=2.0, convolution_dt=0.5,
                                       hrf_interval=(0.0, 6.0))
            return np.asarray(X, dtype=float).reshape(len(tq), -1), cm
        tags = ["fmri-" + c["btype"]]
        try:
            X0, c0 = run(list(range(len(c["rows"]))))
            X1, c1 = run(c["perm"])
        except Exception as e:
            return {"lines": [], "impl": [], "nontrivial": True, "tags": tags + ["raised"],
                    "oracle": f"{c['btype']}_design raised {type(e).__name__}: {str(e)[:200]}"}
        fail = None
        d = _match_cols(X1.T.tolist(), X0.T.tolist(), 1e-8)
        if d is not None:
            fail = (f"{c['btype']}_design depends on the order of the rows of the specification "
                    f"(rows permuted by {c['perm']}): {d}")
        elif c["btype"] == "event":
            cells = {}
            for r in c["rows"]:
                cells.setdefault(tuple(r["lv"]), []).append(r["s"])
            want = [sum(num(tq - s) for s in ss).tolist() for ss in cells.values()]
            d = _match_cols(X0.T.tolist(), want, 1e-8)
            if d is not None:
                fail = f"event_design columns are not the superposition of the kernel at each cell's onsets: {d}"
        return {"lines": [], "impl": [], "oracle": fail, "nontrivial": True, "tags": tags, "mutated": None}

    # ------------------------------------------------------------------
    def compare(self, case, impl_obs, model_out):
        kind = impl_obs[0]
        if kind == "session":
            return S.compare_session(impl_obs[1], model_out)
        if kind == "err":
            return None if model_out.startswith("error") else f"impl raised {impl_obs[1]}, model says {model_out[:120]}"
        if model_out.startswith(("error", "bad-op", "bad-cert")):
            return f"impl returned a value, model says {model_out}"
        if kind == "terms":
            _, isf, monos = impl_obs
            flag, _, rest = model_out.partition(" ")
            mm = sorted(" ".join(s.split()) for s in rest.split("|")) if rest.strip() else []
            im = sorted(" ".join(s.split()) for s in monos)
            if im != mm:
                return f"terms impl={im} model={mm}"
            if (flag == "F") != isf:
                return f"is_factor impl={isf} model={flag}"
            return None
        if kind == "counts":
            return None if [int(t) for t in model_out.split()] == list(impl_obs[1]) else \
                f"(params, coefs, getterms) impl={impl_obs[1]} model={model_out}"
        if kind == "cols":
            mcols = [parse_rats(s) for s in model_out.split(" | ")] if model_out.strip() else []
            d = _match_cols(impl_obs[1], mcols)
            return None if d is None else f"{d}; impl columns {impl_obs[1]}"
        if kind == "vals":
            return cmp_rats(impl_obs[1], model_out, 1e-9, 1e-9)
        if kind == "mat":
            rows = [parse_rats(s) for s in model_out.split(" | ")]
            got = impl_obs[1]
            if len(rows) != len(got):
                return f"contrast rows impl={len(got)} model={len(rows)}"
            for a, b in zip(got, rows):
                if not all_close(a, b, 1e-7, 1e-7):
                    return f"contrast row impl={a} model={[float(x) for x in b]}"
            return None
        if kind == "stack":
            _, p, cm = impl_obs
            parts = [s.strip() for s in model_out.split(";")]
            if int(parts[0]) != p:
                return f"column count impl={p} model={parts[0]}"
            mm = {}
            for s in parts[1:]:
                if not s:
                    continue
                nm, _, body = s.partition(":")
                mm[int(nm)] = [[float(x) for x in parse_rats(r)] for r in body.split("|")]
            if {k: v for k, v in cm.items()} != mm:
                return f"contrasts impl={cm} model={mm}"
            return None
        return "unknown observation kind"

    @staticmethod
    def _sublists(n):
        """index subsets to try, smallest first: singletons, pairs, then drop-one"""
        if n <= 1:
            return
        for i in range(n):
            yield [i]
        if n > 2:
            for i in range(n):
                for j in range(i + 1, n):
                    yield [i, j]
        if n > 3:
            for i in range(n):
                yield [k for k in range(n) if k != i]

    def shrink(self, case):
        k = case["kind"]
        if k == "session":
            yield from S.shrink_session(case)
            return
        if "q" in case and len(case["q"]) > 1 and k != "design":
            for i in range(len(case["q"])):
                c = dict(case); c["q"] = [case["q"][i]]
                yield c
        if k == "design":
            e = case["expr"]
            if e["op"] != "A":
                for sub in ("a", "b"):
                    if sub in e:
                        c = dict(case); c["expr"] = e[sub]
                        yield c
            w = case["world"]
            for idx in self._sublists(len(w["rows"])):
                c = dict(case); c["world"] = dict(w, rows=[w["rows"][i] for i in idx])
                yield c
        elif k == "recov":
            for idx in self._sublists(len(case["obs"])):
                yield dict(case, obs=[case["obs"][i] for i in idx])
        elif k == "events":
            for idx in self._sublists(len(case["times"])):
                c = dict(case)
                c["times"] = [case["times"][i] for i in idx]
                if case["amps"] is not None:
                    c["amps"] = [case["amps"][i] for i in idx]
                c["split"] = min(case["split"], len(idx))
                yield c
        elif k == "blocks":
            for idx in self._sublists(len(case["ivs"])):
                c = dict(case)
                c["ivs"] = [case["ivs"][i] for i in idx]
                if case["amps"] is not None:
                    c["amps"] = [case["amps"][i] for i in idx]
                yield c
        elif k == "fmri":
            n = len(case["rows"])
            for idx in self._sublists(n):
                if len(idx) < 2:
                    continue
                c = dict(case)
                c["rows"] = [case["rows"][i] for i in idx]
                pm = [p for p in case["perm"] if p in idx]
                c["perm"] = [idx.index(p) for p in pm]
                yield c

    def classify(self, case, failure):
        if "occurs more than once" in failure and "raised ValueError" in failure:
            return "design-terms-printing-alike"
        if "more than one implementation with name" in failure:
            return "design-implemented-function-name-clash"
        if case.get("kind") == "events" and "amplitude-weighted sum" in failure and not case.get("implfn") \
                and len(set(case["times"])) < len(case["times"]):
            return "events-coincident-term-add"
        if case.get("kind") == "recov" and (len(case["levels"]) == 1 or len(case["obs"]) == 1) and \
                ("not aligned" in failure or "has shape" in failure):
            return "random-effects-cov-squeezed-design"
        return None


CHECK = C10()
