"""C07 — case generators (all randomness from the rng handed in by the harness).

Two classes of frame-time grids:
  * "exact": TR, start, min_onset dyadic with small denominators and oversampling a power of two —
    every float operation of `_sample_condition` is exact, so the model (which builds the
    high-resolution grid itself, in rationals) must agree with the implementation to the last bit;
  * "inexact": decimal TR / start (0.8, 1.1, 0.3 …) or oversampling 3, 5 — the implementation's own
    grid is handed to the model (legacy line kinds) and the property clauses are checked on the real
    code with a tolerance.
"""
from __future__ import annotations

HRFS = ["canonical", "canonical with derivative", "spm", "spm_time", "spm_time_dispersion", "fir"]
NK = {"canonical": 1, "canonical with derivative": 2, "spm": 1, "spm_time": 2,
      "spm_time_dispersion": 3}
# dyadic repetition times (exact class) — note 2.5 and 0.75: min_onset = -24 is *not* a whole number
# of high-resolution steps for them
EXACT_TRS = [0.5, 1.0, 2.0, 4.0, 1.5, 3.0, 2.5, 0.75, 1.25]
INEXACT_TRS = [0.8, 1.1, 0.72, 2.2, 2.4, 0.3]

# adversarial column / condition names (CSV text layer, naming functions)
ADV_NAMES = ["a", "b", "c1", "cond_x", "face", "house", "face,upright", "a b", 'say "x"', "semi;colon",
             "tab\there", "x'y", "1.5", "é", 'a"', '"', '""', ",", " lead", "trail ", " ", "", "a,,b",
             "multi\nline", "cr\rhere", "crlf\r\nx", "'single'", "|pipe|", "x:y", "漢字", " nbsp",
             "a_delay_1", "a_derivative", "drift_1", "constant", "reg0", "-1", "1e3", "nan", "#hash",
             'q"uo"te', 'end"', '"start', "a;b;c", "\t", "x,y;z w"]
PLAIN_NAMES = ["a", "b", "c1", "cond_x", "face", "house", "A", "x.y", "left-hand", "1", "2", "n0", "Z_9"]
ALPHABET = list("ab1_ ,;\"'\t|:.") + ["é", "\n", "\r"]


def rand_name(rng):
    r = rng.random()
    if r < 0.6:
        return rng.choice(ADV_NAMES)
    n = rng.choice([0, 1, 1, 2, 3, 6])
    return "".join(rng.choice(ALPHABET) for _ in range(n))


def frames_spec(rng, exact, n_choices=(2, 3, 4, 5, 8, 12)):
    """(n, tr, t0, oversampling, min_onset, dtype) of one run"""
    n = rng.choice(list(n_choices))
    if exact:
        tr = rng.choice(EXACT_TRS)
        t0 = rng.choice([0.0, 0.0, tr, 2 * tr, -tr, 0.5 * tr, 10.0, -3.0, 100.25, 3.75, -0.125, 7.0])
        os_ = rng.choice([1, 2, 4, 16])
        mo = rng.choice([-24.0, -24.0, 0.0, -2 * tr, -tr / 2, -3.25, -1.0, -0.375, -10.0])
    else:
        tr = rng.choice(INEXACT_TRS + EXACT_TRS[:4])
        t0 = rng.choice([0.0, 0.3, 10.1, tr, -0.7, 2 * tr, 1e3 + 0.1])
        os_ = rng.choice([1, 2, 3, 5, 16])
        mo = rng.choice([-24.0, 0.0, -0.3, -2 * tr, -12.0, -7.7])
    # integer / float32 frame-time arrays when the values allow it
    dt = "float64"
    ints = float(tr).is_integer() and float(t0).is_integer()
    r = rng.random()
    if ints and r < 0.3:
        dt = "int64"
    elif exact and r < 0.45:
        dt = "float32"
    elif r < 0.5:
        dt = "list" if r < 0.47 else "float64-strided"
    return {"n": n, "tr": tr, "t0": t0, "os": os_, "min_onset": mo, "ftdtype": dt, "exact": bool(exact)}


def events(rng, fs, kind, inside=False, early=False):
    """onsets/durations/amplitudes on (or strictly inside the cells of) the lattice t0 + k*dt;
    coincident and pre-scan events on purpose"""
    n, tr, t0, os_ = fs["n"], fs["tr"], fs["t0"], fs["os"]
    dt = tr / max(os_, 1)
    ncell = max(1, (n // 2 if early else n) * max(os_, 1))
    k = rng.choice([1, 1, 2, 3, 4, 6])
    onsets, durs, amps = [], [], []
    for _ in range(k):
        r = rng.random()
        if inside:
            o = t0 + (rng.randrange(0, ncell) + 0.5) * dt
        elif r < 0.15 and onsets:
            o = rng.choice(onsets)                                   # coincident
        elif r < 0.25:
            o = t0 - rng.choice([0.5, 1.0, 3.0, 30.0])               # pre-scan
        elif r < 0.6:
            o = t0 + rng.randrange(0, ncell) * dt                    # on the hr grid
        else:
            o = t0 + (rng.randrange(0, ncell) + 0.5) * dt            # strictly inside a cell
        onsets.append(o)
        durs.append(0.0 if kind == "event" else rng.choice([0.0, dt, tr / 2, tr, 2.5 * tr, 40 * tr]))
        amps.append(rng.choice([1.0, 1.0, 2.0, 0.5, -1.0, 0.25, 3.0]))
    return onsets, durs, amps


ADTYPES = ["uint8", "uint16", "int64", "int8", "float32", "uint32"]


def _amp_dtype(rng, c):
    """amplitudes as integer counts / narrow types (how a caller builds them from an event table): with some
    probability the amplitudes become small non-negative integers handed over in an integer or float32 dtype"""
    if c["amps"] and rng.random() < 0.3:
        c["amps"] = [float(rng.choice([1, 1, 2, 3, 5])) for _ in c["amps"]]
        c["adtype"] = rng.choice(ADTYPES)


def amps_array(c):
    import numpy as np
    a = np.array(c["amps"], dtype=float)
    return a.astype(c["adtype"]) if c.get("adtype") else a


def gen_sample(rng, count):
    out = []
    for _ in range(count):
        fs = frames_spec(rng, exact=rng.random() < 0.75)
        r = rng.random()
        if r < 0.06:
            fs["n"] = rng.choice([0, 1])                   # refusals of the grid arithmetic
        elif r < 0.14:
            fs["min_onset"] = rng.choice([1.0, fs["tr"], 3 * fs["tr"], 100.0, fs["n"] * fs["tr"] + 8])
        elif r < 0.17:
            fs["os"] = 0
        kind = rng.choice(["event", "block"])
        on, du, am = events(rng, fs, kind)
        if rng.random() < 0.05:
            on, du, am = [], [], []
        c = {"kind": "sample", "onsets": on, "durs": du, "amps": am}
        if kind == "block" and du and rng.random() < 0.08:
            # a negative duration (offset before onset): outside the property's paradigms, kept for the
            # correspondence of the index arithmetic and for superposition; causality is not claimed
            j = rng.randrange(len(du))
            du[j] = -rng.choice([fs["tr"] / max(fs["os"], 1), fs["tr"], 2.5 * fs["tr"]])
            c["negdur"] = True
        _amp_dtype(rng, c)
        c.update(fs)
        out.append(c)
    return out


def gen_regressor(rng, count):
    out = []
    for _ in range(count):
        exact = rng.random() < 0.7
        hrf = rng.choice(HRFS + ["fir", "fir"])
        ns = (3, 4, 6, 9)
        if hrf != "fir" and NK[hrf] > 1:
            ns = (6, 9, 12)          # orthogonalisation by pinv is ill-conditioned on 3-4 rows
        fs = frames_spec(rng, exact, ns)
        if hrf == "fir":
            fs["os"] = rng.choice([1, 1, 2, 4]) if exact else rng.choice([1, 1, 2, 3])
        elif fs["os"] == 1:
            fs["os"] = rng.choice([2, 4, 16])
        if fs["min_onset"] > 0:
            fs["min_onset"] = -24.0
        kind = rng.choice(["event", "block"])
        shiftable = rng.random() < 0.55
        on, du, am = events(rng, fs, kind, inside=shiftable, early=shiftable)
        if shiftable and kind == "block":
            # whole numbers of high-resolution steps: the offsets stay strictly inside cells too
            du = [rng.choice([0, 1, 2, fs["os"], 2 * fs["os"]]) * (fs["tr"] / fs["os"]) for _ in du]
        c = {"kind": "regressor", "hrf": hrf,
             "fir_delays": sorted(rng.sample(range(0, 5), rng.choice([1, 2, 3]))),
             "onsets": on, "durs": du, "amps": am, "shift": rng.choice([1, 2, 3])}
        _amp_dtype(rng, c)
        c.update(fs)
        out.append(c)
    return out


def gen_dmtx(rng, count):
    out = []
    for _ in range(count):
        fs = frames_spec(rng, exact=rng.random() < 0.8, n_choices=(4, 6, 10, 17, 32))
        n, tr = fs["n"], fs["tr"]
        kind = rng.choice(["event", "block"])
        hrf = rng.choice(HRFS)
        r = rng.random()
        collide = None
        if r < 0.12:
            # condition names that clash through a basis suffix / with drift or user names
            base = rng.choice(["a", "x y", "c,1"])
            collide = rng.choice(["deriv", "disp", "delay", "drift", "constant", "reg"])
            cnames = {"deriv": [base, base + "_derivative"], "disp": [base, base + "_dispersion"],
                      "delay": [base, base + "_delay_1"], "drift": ["drift_1", base],
                      "constant": ["constant", base], "reg": ["reg0", base]}[collide]
        else:
            ncond = rng.choice([1, 2, 3, 5])
            cnames = []
            for c in range(ncond):
                nm = rand_name(rng)
                cnames.append(nm + (str(c) if rng.random() < 0.8 else ""))
        conds = []
        for nm in cnames:
            on, du, am = events(rng, fs, kind)
            conds.append({"name": nm, "onsets": on, "durs": du, "amps": am})
        # haemodynamic / drift model spelling (make_dmtx lower-cases both)
        r = rng.random()
        hrf_arg = hrf if r < 0.8 else (hrf.upper() if r < 0.9 else (hrf.title() if r < 0.95 else "gamma"))
        drift = rng.choice(["polynomial", "cosine", "blank"])
        r = rng.random()
        drift_arg = drift if r < 0.8 else (drift.upper() if r < 0.9 else (drift.capitalize() if r < 0.96 else "linear"))
        # user regressors: none / matrix / 1-D vector / wrong length; names: none / right / wrong count
        r = rng.random()
        if r < 0.35:
            add = {"mode": "none"}
        elif r < 0.7:
            add = {"mode": "matrix", "ncols": rng.choice([1, 2, 3])}
        elif r < 0.82:
            add = {"mode": "vector"}
        elif r < 0.9:
            add = {"mode": "matrix", "ncols": rng.choice([1, 2]), "rows_off": rng.choice([-1, 1, 2])}
        else:
            add = {"mode": "vector", "rows_off": rng.choice([-1, 1])}
        r = rng.random()
        ncols = 0 if add["mode"] == "none" else (1 if add["mode"] == "vector" else add["ncols"])
        if r < 0.45:
            addn = None
        elif r < 0.85:
            pool = ["mot", "trans,x", "rot y", "reg;z", 'q"r', "constant", "drift_1", "reg0", "dup", "dup", " ", ""]
            addn = [rng.choice(pool) + (str(k) if rng.random() < 0.75 else "") for k in range(ncols)]
        else:
            addn = ["n%d" % k for k in range(ncols + rng.choice([-1, 1, 2]))] if ncols + 2 > 0 else ["z"]
            addn = [x for x in addn]
        fir_delays = sorted(rng.sample(range(0, 6), rng.choice([1, 2, 4])))
        if rng.random() < 0.08:
            fir_delays = fir_delays + [fir_delays[0]]           # duplicate delay -> duplicate names
        c = {"kind": "dmtx", "hrf": hrf_arg, "ptype": kind, "conds": conds,
             "paradigm_none": rng.random() < 0.1,
             "fir_delays": fir_delays, "drift": drift_arg, "order": rng.choice([0, 1, 2, 3, 5]),
             # cut-off periods below the Nyquist period 2*TR are excluded: they ask for more cosine
             # columns than scans, for which no orthonormal family exists
             "hfcut": rng.choice([h for h in [128, 32, 16, 8, 5, 2 * tr, 3 * tr, 64, 4 * tr] if h >= 2 * tr]),
             "add": add, "add_names": addn, "amp_none": rng.random() < 0.2,
             "use_min_onset": rng.random() < 0.5, "light": rng.random() < 0.15, "collide": collide}
        c.update(fs)
        c["os"] = 1 if hrf == "fir" else 16
        # the same user regressors in other dtypes / layouts, fir delays as other sequence kinds
        c["add_layout"] = rng.choice(["float64", "float64", "int64", "int8", "float32", "F", "strided", "readonly"])
        c["fir_kind"] = rng.choice(["list", "list", "tuple", "int64-array", "int8-array"])
        out.append(c)
    return out


def gen_paradigm(rng, count):
    out = []
    for _ in range(count):
        nsess = rng.choice([1, 1, 2, 3])
        sessions = []
        used = set()
        for _s in range(nsess):
            sid = rng.choice(["0", "1", "s1", "run_2", "7", "sessB"])
            while sid in used:
                sid += "x"
            used.add(sid)
            ne = rng.choice([1, 1, 2, 3, 5, 8])
            ids = [rng.choice(PLAIN_NAMES[: rng.choice([2, 4, len(PLAIN_NAMES)])]) for _ in range(ne)]
            on = [rng.choice([0.0, 1.0, 2.5, 10.0, 3.25, 12.0, -2.0, 7.0, 0.1, 1e-3, 33.3]) for _ in range(ne)]
            ptype = rng.choice(["event", "block"])
            du = [rng.choice([0.0, 1.0, 2.5, 0.5, 6.0]) for _ in range(ne)]
            if ptype == "block" and rng.random() < 0.2:
                du = [0.0] * ne                               # block paradigm with only zero durations
            am = None if rng.random() < 0.35 else [rng.choice([1.0, 2.0, 0.5, -1.0, 0.1, 3]) for _ in range(ne)]
            sessions.append({"id": sid, "ptype": ptype, "ids": ids, "onsets": on, "durs": du, "amps": am})
        r = rng.random()
        if nsess > 1 and r < 0.6:
            # one file holds several sessions: same number of columns in all of them
            has_amp = sessions[0]["amps"] is not None
            for s in sessions:
                if has_amp and s["amps"] is None:
                    s["amps"] = [1.0] * len(s["ids"])
                if not has_amp:
                    s["amps"] = None
        malformed = None
        r = rng.random()
        if r < 0.05:
            malformed = "absent-session"
        elif r < 0.09:
            malformed = "empty-file"
        elif r < 0.15 and nsess > 1:
            malformed = "ragged"           # sessions with different numbers of columns in one file
        elif r < 0.2:
            malformed = "three-columns"    # hand-written file: session, id, onset only
        fs = frames_spec(rng, exact=True, n_choices=(8, 12, 20))
        c = {"kind": "paradigm", "sessions": sessions, "malformed": malformed,
             "load_session": rng.choice(["each", "each", "none"]),
             "hrf": rng.choice(["canonical", "spm", "fir", "canonical with derivative"]),
             "fir_delays": [0, 1]}
        c.update(fs)
        out.append(c)
    return out


def gen_csv(rng, count):
    out = []
    for _ in range(count):
        k = rng.choice([0, 1, 1, 2, 3, 5, 8])
        names = [rand_name(rng) for _ in range(k)]
        if k == 0 and rng.random() < 0.5:
            names = [""]
        n = rng.choice([1, 2, 3, 10])
        vals = [[rng.choice([0.5, 1.0, -2.0, 0.1, 1e-3, 3.0, 1 / 3, 1e17, -0.0, 5e-324])
                 for _ in names] for _ in range(n)]
        out.append({"kind": "csv", "names": names, "values": vals})
    return out


# ---------------------------------------------------------------------------------------------
# wave 4: kernels from their pieces, the drift block of every model, `_full_rank`

def gen_hrfk(rng, count):
    """`_gamma_difference_hrf` with rarely used arguments, and the three derivative kernels"""
    out = []
    for _ in range(count):
        tr = rng.choice(EXACT_TRS + INEXACT_TRS)
        c = {"kind": "hrfk", "tr": tr, "os": rng.choice([1, 2, 4, 8, 16, 16, 32, 3, 5]),
             "time_length": rng.choice([32.0, 32.0, 16.0, 24.5, 40.0, 8.0]),
             # NB the source shifts the time stamps by onset / dt (not by onset): only small onsets keep the
             # response inside the window; the derivative kernels use onset + 0.1
             "onset": rng.choice([0.0, 0.0, 0.0, 0.1, 0.01, -0.1, 0.05, 0.25]),
             "which": rng.choice(["gamma", "gamma", "spm_time", "glover_time", "spm_disp", "spm", "glover"])}
        if c["which"] == "gamma":
            c.update({"delay": rng.choice([6, 5.0, 4.5, 7]), "undershoot": rng.choice([16.0, 12.0, 14]),
                      "dispersion": rng.choice([1.0, 0.9, 1.25]), "u_dispersion": rng.choice([1.0, 0.9, 1.5]),
                      "ratio": rng.choice([0.167, 0.35, 0.0, 0.25, 0.5])})
        out.append(c)
    return out


def gen_mkdrift(rng, count):
    out = []
    for _ in range(count):
        tr = rng.choice(EXACT_TRS)
        model = rng.choice(["polynomial", "cosine", "blank", "Polynomial", "COSINE", "Blank", "cosine", "polynomial",
                            "cosine", "polynomial", "Cosine", "POLYNOMIAL", "linear", "", "cosine ", "poly"])
        out.append({"kind": "mkdrift", "model": model, "n": rng.choice([2, 3, 4, 7, 10, 16, 33]), "tr": tr,
                    "t0": rng.choice([0.0, 0.0, tr, -3 * tr, 10.0, 0.5, -100.0]),
                    "order": rng.choice([0, 1, 1, 2, 3, 4, 6]),
                    "hfcut": rng.choice([128, 128.0, 64.0, 16.0, 8.0, 4.0, 2.0, 1.0, 0.5, 1000.0, 20.0, 3.0])})
    return out


def gen_fullrank(rng, count):
    out = []
    for _ in range(count):
        n, p = rng.choice([(2, 1), (3, 2), (4, 3), (5, 2), (6, 4), (8, 3), (3, 3), (4, 4)])
        rows = [[float(rng.choice([-2, -1, 0, 0, 1, 1, 2, 3])) for _ in range(p)] for _ in range(n)]
        r = rng.random()
        if r < 0.25 and p >= 2:
            for row in rows:                       # two equal (or proportional) columns: rank deficient
                row[1] = row[0] * 2.0
        elif r < 0.45:
            k = rng.choice([1e-3, 1e-6, 1e3, 2.0 ** -20])
            for row in rows:                       # badly scaled column
                row[-1] *= k
        elif r < 0.55:
            rows = [[1.0 if i == j else 0.0 for j in range(p)] for i in range(n)]     # equal singular values
        out.append({"kind": "fullrank", "rows": rows,
                    "cmax": rng.choice([1e15, 1e15, 10.0, 100.0, 2.0, 1000.0, 1.5, 1e6]),
                    "default_cmax": rng.random() < 0.2, "layout": rng.choice(["C", "F", "C", "strided"])})
    return out
