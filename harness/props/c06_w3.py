"""C06, wave 3 — the rest of `empirical_pvalue.py` (check_p_values refusals, gaussian_fdr_threshold,
NormalEmpiricalNull.learn / threshold / fdr, smoothed_histogram_from_samples, the bookkeeping around the
mixture fits), `__div__`, `Fcontrast(dispersion, invcov)` with rarely used argument forms, and the same
numbers presented in other dtypes / layouts.  Case kinds `pchk`, `gthr`, `enl`, `shist`, `gmm3`, `cdiv`,
`fopt`, `conpres`; observation kind `w3`."""
from __future__ import annotations

import contextlib
import io
import math
import warnings
from fractions import Fraction
from unittest import mock

import numpy as np

from harness.util import Snapshot, errname, fr, frs, plist

DTYPES = ["float64", "float64", "float32", "int64", "int32", "int16", "int8", "uint8", "bool"]
LAYOUTS = ["C", "C", "F", "strided", "neg", "readonly", "list"]


# ----------------------------------------------------------------------
# presentations of one array
# ----------------------------------------------------------------------
def present(a, layout, dtype=None):
    """the same numbers in another memory layout (and dtype, when exact)"""
    a = np.array(a, dtype=dtype) if dtype else np.array(a)
    if a.ndim == 0:
        return a.tolist() if layout == "list" else a
    if layout == "F":
        return np.asfortranarray(a)
    if layout == "strided":
        big = np.zeros(tuple(2 * s for s in a.shape), a.dtype)
        big[tuple(slice(None, None, 2) for _ in a.shape)] = a
        return big[tuple(slice(None, None, 2) for _ in a.shape)]
    if layout == "neg":
        return np.ascontiguousarray(a[::-1])[::-1]
    if layout == "readonly":
        a = a.copy(); a.setflags(write=False)
        return a
    if layout == "list":
        return a.tolist()
    return np.ascontiguousarray(a)


def exact_in(vals, dtype):
    """can every value be stored exactly in `dtype`?"""
    try:
        with np.errstate(all="ignore"):
            b = np.array(vals, float).astype(dtype)
        return bool(np.all(b.astype(float) == np.array(vals, float)))
    except Exception:
        return False


def _optlist(p):
    return f"{len(p)} " + " ".join("nan" if (isinstance(x, float) and math.isnan(x)) else fr(x) for x in p) if len(p) else "0"


# ----------------------------------------------------------------------
# kind `pchk`: check_p_values / fdr / fdr_threshold on every presentation of a p-value vector
# ----------------------------------------------------------------------
def gen_pchk(rng):
    r = rng.random()
    n = rng.choice([1, 2, 3, 4, 6, 8, 12])
    if r < 0.3:                                   # 0/1 vectors: storable in every dtype
        p = [float(rng.randint(0, 1)) for _ in range(n)]
        dtype = rng.choice(DTYPES)
    else:
        grid = rng.choice([8, 64, 1024])
        p = [rng.randint(0, grid) / grid for _ in range(n)]
        if rng.random() < 0.5 and n > 1:
            for _ in range(rng.randint(1, n)):
                p[rng.randrange(n)] = p[rng.randrange(n)]
        dtype = rng.choice(["float64", "float64", "float32"])
    bad = None
    if r > 0.8:
        bad = rng.choice(["nan", "nan-neg", "neg", "big", "empty", "none", "neg-big"])
    shape = rng.choice(["1d", "1d", "2d", "col", "scalar"]) if n > 1 else rng.choice(["1d", "scalar", "0d"])
    return {"kind": "pchk", "p": p, "dtype": dtype, "layout": rng.choice(LAYOUTS), "shape": shape, "bad": bad,
            "alpha": rng.choice([1 / 16, 0.05, 0.25, 0.5, 1.0, 0.0, -0.5, 2.0])}


def run_pchk(c):
    warnings.filterwarnings("ignore")
    from nipy.algorithms.statistics import empirical_pvalue as ep
    p = list(c["p"])
    bad = c["bad"]
    dtype = c["dtype"]
    if bad in ("nan", "nan-neg"):
        p[0] = float("nan"); dtype = "float64"
        if bad == "nan-neg" and len(p) > 1:
            p[-1] = -0.25
    elif bad == "neg":
        p[0] = -0.25; dtype = "float64" if dtype in ("uint8", "bool") else dtype
    elif bad == "big":
        p[-1] = 1.5; dtype = "float64" if dtype == "bool" else dtype
    elif bad == "neg-big":
        p[0] = -0.25; p[-1] = 1.5; dtype = "float64"
    elif bad == "empty":
        p = []
    if not exact_in([x for x in p if not math.isnan(x)], dtype):
        dtype = "float64"
    shape = c["shape"]
    if (shape == "scalar" or shape == "0d") and bad is None:
        p = p[:1]
    elif shape in ("scalar", "0d"):
        shape = "1d"
    if bad == "none":
        arg = None
    else:
        a = np.array(p, dtype=dtype)
        if shape == "2d" and len(p) % 2 == 0 and len(p) > 0:
            a = a.reshape(2, -1)
        elif shape == "col":
            a = a.reshape(-1, 1)
        elif shape == "0d" and len(p) == 1:
            a = a.reshape(())
        arg = present(a, c["layout"])
        if shape == "scalar" and len(p) == 1 and bad is None:
            arg = float(p[0])
    n = len(p)
    snap = Snapshot(p=arg) if isinstance(arg, np.ndarray) else None
    lines, impl, fail = [], [], None
    tags = ["pchk", "dtype=" + dtype, "layout=" + c["layout"], "shape=" + shape] + (["refusal", "bad=" + bad] if bad else [])
    alpha = c["alpha"]

    def obs(f):
        try:
            return None, f()
        except Exception as e:      # noqa: BLE001
            return errname(e), None

    if bad == "none":
        # `check_p_values(None)` is None; what follows is not a p-value computation
        if ep.check_p_values(None) is not None:
            fail = "check_p_values(None) is not None"
        for f in (lambda: ep.fdr(None), lambda: ep.fdr_threshold(None)):
            err, val = obs(f)
            if err is None and fail is None:
                fail = f"fdr / fdr_threshold answered {val!r} for p_values=None"
        return {"lines": [], "impl": [], "oracle": fail, "nontrivial": True, "tags": tags, "mutated": None}

    err, chk = obs(lambda: ep.check_p_values(arg))
    lines.append(f"chkp {_optlist(p)}")
    impl.append(("w3", "text", err) if err else ("w3", "okvals", np.ravel(chk).astype(float).tolist(), 0.0))
    if err is None and (np.ndim(chk) != 1):
        fail = f"check_p_values returned a {np.ndim(chk)}-d array"
    errq, q = obs(lambda: ep.fdr(arg))
    lines.append(f"fdrn {_optlist(p)}")
    rel = 1e-6 if dtype == "float32" else 1e-13
    impl.append(("w3", "text", errq) if errq else ("w3", "vals", np.ravel(q).astype(float).tolist(), rel))
    errt, thr = obs(lambda: ep.fdr_threshold(arg, alpha))
    sp = sorted(Fraction(x) for x in p if not math.isnan(x))
    A = Fraction(alpha)
    near = any(abs(x * n - A * (i + 1)) <= Fraction(1, 10 ** 6) * abs(A * (i + 1)) for i, x in enumerate(sp)) and A != 0
    if errt or not near or dtype not in ("float64",):
        if errt or not near:
            lines.append(f"fdrthrn {fr(alpha)} {_optlist(p)}")
            impl.append(("w3", "text", errt) if errt else ("w3", "vals", [float(thr)], 1e-6 if dtype in ("float32", "float16") else 4e-16))
    # ---- oracle ----
    valid = bad is None
    if valid and (err or errq or errt) and fail is None:
        fail = (f"valid p-values {p} presented as {dtype} / {c['layout']} / {shape} were refused: "
                f"check {err}, fdr {errq}, fdr_threshold {errt}")
    if not valid and bad != "empty" and fail is None and (err is None or errq is None or errt is None):
        fail = f"p-values {p} (NaN or outside [0,1]) were accepted: check {err}, fdr {errq}, fdr_threshold {errt}"
    if not valid and fail is None and err is not None and err != "error:valueError":
        fail = f"check_p_values refused {p} with {err}, not ValueError"
    if valid and fail is None:
        ref = ep.fdr(np.array(p, float))
        q = np.asarray(q, float)
        if q.shape != (n,):
            fail = f"fdr returned shape {q.shape} for {n} p-values presented as {shape}"
        elif not np.allclose(q, ref, rtol=rel, atol=0):
            fail = (f"fdr of the p-values {p} presented as {dtype} / {c['layout']} / {shape} is {q.tolist()}, "
                    f"as a float64 vector {ref.tolist()}")
        else:
            tref = ep.fdr_threshold(np.array(p, float), alpha)
            if not near and not math.isclose(float(thr), float(tref), rel_tol=1e-6 if rel > 1e-9 else 1e-15, abs_tol=0):
                fail = (f"fdr_threshold(alpha={alpha}) of {p} presented as {dtype} / {c['layout']} / {shape} is {thr!r}, "
                        f"as a float64 vector {tref!r}")
            elif alpha <= 0 and float(thr) != alpha / n:
                fail = f"fdr_threshold with alpha={alpha} <= 0 is {thr!r}, not alpha / n"
    return {"lines": lines, "impl": impl, "oracle": fail, "nontrivial": n > 1, "tags": tags,
            "mutated": snap.changed() if snap else None}


# ----------------------------------------------------------------------
# kind `gthr`: gaussian_fdr_threshold = norm.isf o fdr_threshold o norm.sf
# ----------------------------------------------------------------------
def gen_gthr(rng):
    n = rng.choice([1, 2, 5, 10, 30, 100])
    x = [rng.gauss(0, 1) for _ in range(n)]
    for _ in range(rng.choice([0, 1, 3, 6])):
        x[rng.randrange(n)] = rng.uniform(2.5, 7.0)
    if rng.random() < 0.4:
        x = [round(t * 4) / 4 for t in x]
    if rng.random() < 0.15:
        x = [abs(t) + 3 for t in x]                   # everything rejected
    return {"kind": "gthr", "x": x, "alpha": rng.choice([0.05, 0.05, 0.1, 0.25, 0.5, 1 / 16]),
            "layout": rng.choice(LAYOUTS), "default": rng.random() < 0.2,
            "dtype": rng.choice(["float64", "float64", "float32", "int64"])}


class _St:
    """`scipy.stats` stand-in: real `norm.sf`, recording `norm.isf`"""

    def __init__(self):
        import scipy.stats as st
        self.args = []
        rec = self

        class _N:
            sf = staticmethod(st.norm.sf)
            pdf = staticmethod(st.norm.pdf)

            @staticmethod
            def isf(p, *a):
                rec.args.append((np.array(p, float), a))
                return st.norm.isf(p, *a)

        self.norm = _N


def run_gthr(c):
    warnings.filterwarnings("ignore")
    import scipy.stats as st
    from nipy.algorithms.statistics import empirical_pvalue as ep
    x = np.array(c["x"], float)
    dtype = c["dtype"] if exact_in(x, c["dtype"]) else "float64"
    arg = present(np.array(x, dtype=dtype), c["layout"])
    snap = Snapshot(x=arg) if isinstance(arg, np.ndarray) else None
    alpha = 0.05 if c["default"] else c["alpha"]
    n = x.size
    rec = _St()
    fail = None
    with mock.patch.object(ep, "st", rec):
        try:
            got = ep.gaussian_fdr_threshold(arg) if c["default"] else ep.gaussian_fdr_threshold(arg, alpha)
            err = None
        except Exception as e:       # noqa: BLE001
            got, err = None, e
    if err is not None:
        return {"lines": [], "impl": [], "nontrivial": True, "tags": ["gthr", "raised"], "mutated": None,
                "oracle": f"gaussian_fdr_threshold raised {type(err).__name__}: {err} on {n} normal variates ({dtype}, {c['layout']})"}
    p = st.norm.sf(np.asarray(arg))
    lines = [f"gfdrthr {fr(alpha)} {plist(p.tolist())}"]
    sp = sorted(Fraction(t) for t in p.tolist())
    A = Fraction(alpha)
    near = any(abs(t * n - A * (i + 1)) <= Fraction(1, 10 ** 9) * A * (i + 1) for i, t in enumerate(sp))
    impl = [("w3", "vals", [float(rec.args[-1][0])] if rec.args else [], 4e-16)]
    if near:
        lines, impl = [], []
    pth = ep.fdr_threshold(p, alpha)
    if not rec.args:
        fail = "gaussian_fdr_threshold did not evaluate norm.isf"
    elif not (got == st.norm.isf(pth)):
        fail = f"gaussian_fdr_threshold {got!r} is not norm.isf(fdr_threshold(norm.sf(x))) = {st.norm.isf(pth)!r}"
    else:
        q = ep.gaussian_fdr(np.asarray(arg, float))
        rej = q < alpha
        clear = np.abs(x - got) > 1e-9 * np.maximum(1.0, np.abs(x))
        if rej.any() and not np.array_equal((x >= got)[clear], rej[clear]):
            fail = (f"x >= gaussian_fdr_threshold(x, {alpha}) = {got!r} selects {(x >= got).tolist()} but "
                    f"gaussian_fdr(x) < alpha selects {rej.tolist()}")
        elif not rej.any() and not near and not math.isclose(float(pth), alpha / n, rel_tol=1e-15):
            fail = f"nothing is rejected but the critical p-value {pth!r} is not alpha / n"
    tags = ["gthr", "dtype=" + dtype, "layout=" + c["layout"]] + (["default-alpha"] if c["default"] else [])
    return {"lines": lines, "impl": impl, "oracle": fail, "nontrivial": n > 1, "tags": tags,
            "mutated": snap.changed() if snap else None}


# ----------------------------------------------------------------------
# kind `enl`: NormalEmpiricalNull — learn step by step, threshold, fdr(theta)
# ----------------------------------------------------------------------
def gen_enl(rng):
    mode = rng.choice(["learn", "learn", "hand", "hand", "const"])
    if mode == "learn":
        n = rng.choice([30, 60, 100, 200, 400, 800])
        x = [rng.gauss(0, 1) for _ in range(n)]
        for _ in range(rng.choice([0, 0, 3, 8])):
            x[rng.randrange(n)] = rng.uniform(2.5, 6.0)
        if rng.random() < 0.3:
            x = [round(t * 8) / 8 for t in x]
    elif mode == "hand":
        n = rng.choice([1, 2, 3, 5, 8, 13, 20])
        x = [rng.randint(-12, 16) / 4 for _ in range(n)]
    else:
        n = rng.choice([1, 4, 10])
        x = [rng.choice([0.0, 1.5, -2.0])] * n
    lr = rng.choice([None, None, [0.2, 0.8], [0.1, 0.9], [0.0, 1.0], [0.3, 0.7], [0.25, 0.75], [-0.1, 0.8], [0.5, 0.5], [0.7, 1.2]])
    return {"kind": "enl", "mode": mode, "x": x, "lr": lr, "alpha": rng.choice([0.05, 0.1, 0.2, 0.5, 0.25, 1.0]),
            "p0": rng.choice([1.0, 0.5, 0.25, 0.9]), "mu": rng.choice([0.0, 0.0, 0.5, -1.0]),
            "sigma": rng.choice([1.0, 1.0, 0.5, 2.0]), "layout": rng.choice(LAYOUTS + ["2d"]),
            "dtype": rng.choice(["float64", "float64", "float32", "int64", "int8"])}


def run_enl(c):
    warnings.filterwarnings("ignore")
    import scipy.stats as st
    from nipy.algorithms.statistics import empirical_pvalue as ep
    x = np.array(c["x"], float)
    n = x.size
    dtype = c["dtype"] if exact_in(x, c["dtype"]) else "float64"
    a = np.array(x, dtype=dtype)
    arg = a.reshape(-1, 1) if c["layout"] == "2d" else present(a, c["layout"])
    snap = Snapshot(x=arg) if isinstance(arg, np.ndarray) else None
    lines, impl, fail = [], [], None
    tags = ["enl", "mode=" + c["mode"], "dtype=" + dtype, "layout=" + c["layout"]]
    en = ep.NormalEmpiricalNull(arg)
    xs = np.asarray(en.x, float)
    if en.n != n or xs.shape != (n,) or not np.array_equal(xs, np.sort(x)):
        fail = "NormalEmpiricalNull does not hold the sorted, flattened sample"
    if c["mode"] in ("learn", "const"):
        left, right = c["lr"] or (0.2, 0.8)
        rec = {"hist": [], "pinv": []}
        real_hist, real_pinv = np.histogram, ep.pinv

        def hist(*a_, **k_):
            r = real_hist(*a_, **k_)
            rec["hist"].append((np.array(a_[0], float), k_.get("bins", a_[1] if len(a_) > 1 else None), r))
            return r

        def pinv(m):
            rec["pinv"].append(np.array(m, float))
            return real_pinv(m)

        with mock.patch.object(np, "histogram", hist), mock.patch.object(ep, "pinv", pinv):
            try:
                en.learn() if c["lr"] is None else en.learn(left, right)
                err = None
            except Exception as e:       # noqa: BLE001
                err = e
        # first half: subsample and number of bins
        step0 = 3.5 * np.std(xs) / np.exp(np.log(n) / 3)
        rng_ = float(xs.max() - xs.min())
        lines.append(f"ensub {plist(xs.tolist())} {fr(n * left)} {fr(n * right)} {fr(rng_)} {fr(step0)}")
        if rec["hist"]:
            sub, bins, (h, ledge) = rec["hist"][0]
            impl.append(("w3", "parts", [("exact", sub.tolist()), ("text", str(int(bins)))]))
            # histogram: counts for the edges NumPy chose, then the masking step
            step = float(ledge[1] - ledge[0])
            lines.append(f"enhist {plist(sub.tolist())} {plist(ledge.tolist())} {fr(step)}")
            if err is None and rec["pinv"]:
                d = rec["pinv"][0]
                impl.append(("w3", "parts", [("exact", h.tolist()),
                                             ("exact", h[h > 0].tolist()),
                                             ("avals", d[1].tolist(), (1e-6 if dtype == "float32" else 4e-16) * float(np.abs(ledge).max()))]))
                if d.shape[0] != 3 or not np.array_equal(d[0], np.ones(d.shape[1])) or \
                        not np.allclose(d[2], d[1] ** 2, rtol=1e-6 if dtype == "float32" else 0, atol=0):
                    fail = fail or "learn: the design of the log-histogram fit is not [1, m, m^2]"
                hk = h[h > 0].astype(np.float64)
                coef = np.dot(np.log(hk), real_pinv(d))
                sq = max(-1.0 / (2 * coef[2]), 1.e-6)
                mu = coef[1] * sq
                lp0 = (coef[0] - np.log(step * n) + 0.5 * np.log(2 * np.pi * sq) + mu ** 2 / (2 * sq))
                E = float(np.exp(lp0))
                if np.isfinite(E) and np.isfinite(coef).all():
                    lines.append(f"enfit {fr(coef[1])} {fr(coef[2])} {fr(E)}")
                    impl.append(("w3", "vals", [float(en.sqsigma), float(en.mu), float(en.p0)], 1e-5 if dtype == "float32" else 4e-16))
                    if fail is None and not (en.sigma == np.sqrt(en.sqsigma) and 0 < en.p0 <= 1 and en.sqsigma >= 1e-6):
                        fail = f"learn: sigma {en.sigma!r} sqsigma {en.sqsigma!r} p0 {en.p0!r} are not coherent"
                tags.append("learned")
            else:
                impl.append(("w3", "parts", [("exact", h.tolist()), ("text", errname(err) if err else "no-fit")]))
                tags.append("learn-" + (type(err).__name__ if err else "nofit"))
        else:
            impl.append(("w3", "parts", [("skip", None), ("text", errname(err) if err else "no-histogram")]))
            tags.append("learn-" + (type(err).__name__ if err else "nohist"))
        if err is not None:
            return {"lines": lines, "impl": impl, "oracle": fail, "nontrivial": True, "tags": tags,
                    "mutated": snap.changed() if snap else None}
    else:
        # parameters set by hand (public attributes); `learned` keeps fdrcurve from fitting again
        en.learned, en.mu, en.sigma, en.p0 = 1, c["mu"], c["sigma"], c["p0"]
    if c["mode"] != "hand":
        en.learned = 1          # keep the parameters just learnt
    if not (np.isfinite(en.p0) and np.isfinite(en.mu) and np.isfinite(en.sigma) and en.sigma > 0):
        return {"lines": lines, "impl": impl, "oracle": fail, "nontrivial": True, "tags": tags + ["nonfinite-fit"],
                "mutated": snap.changed() if snap else None}
    efp = np.array(en.fdrcurve(), float)
    sfx = st.norm.sf(xs, en.mu, en.sigma)
    lines.append(f"efp {fr(en.p0)} {plist(sfx.tolist())}")
    impl.append(("vals", efp.tolist(), [1e-13] * n))
    alpha = c["alpha"]
    try:
        with contextlib.redirect_stdout(io.StringIO()):
            thr = en.threshold(alpha)
        th = sorted({float(xs[0]) - 1.0, float(xs[0]), float(xs[n // 2]), float(xs[-1]), float(xs[-1]) + 0.5,
                     float((xs[0] + xs[-1]) / 2), float(xs[n // 3]) + 0.0625})
        farr = np.asarray(en.fdr(np.array(th)), float)
        fsc = [float(en.fdr(float(t))) for t in th]
    except Exception as e:      # noqa: BLE001
        return {"lines": lines, "impl": impl, "nontrivial": True, "tags": tags + ["raised"],
                "mutated": snap.changed() if snap else None,
                "oracle": fail or (f"{type(e).__name__}: {e} raised by threshold({alpha}) / fdr(theta) of a "
                                   f"NormalEmpiricalNull on {n} samples (p0 {en.p0!r}, mu {en.mu!r}, sigma {en.sigma!r})")}
    lines.append(f"enthr {fr(alpha)} {plist(xs.tolist())} {plist(efp.tolist())}")
    impl.append(("w3", "text", "inf") if np.isinf(thr) else ("w3", "vals", [float(thr)], 4e-16))
    if fail is None and np.any(np.diff(efp) > 0):
        fail = "fdrcurve is not non-increasing along the sorted sample"
    mixed = efp[-1] < alpha and np.any(efp >= alpha)
    if fail is None and mixed:
        above = xs > thr
        below = xs < thr
        if not (np.all(efp[above] < alpha) and np.all(efp[below] >= alpha)):
            fail = (f"threshold({alpha}) = {thr!r} does not separate the samples with FDR < alpha from the others: "
                    f"x {xs.tolist()} fdr {efp.tolist()}")
        tags.append("thr-mixed")
    elif efp[-1] > alpha:
        if fail is None and not np.isinf(thr):
            fail = f"no sample has FDR <= alpha = {alpha} but threshold is {thr!r}"
        tags.append("thr-inf")
    else:
        tags.append("thr-all-below")
    # fdr(theta) at and between the samples
    for t, f, fs in zip(th, farr, fsc):
        s_t = float(st.norm.sf(t, en.mu, en.sigma))
        lines.append(f"enfdr {fr(en.p0)} {fr(s_t)} {fr(t)} {plist(xs.tolist())} {plist(efp.tolist())}")
        impl.append(("w3", "vals", [fs], 1e-13))
        if fail is None and not (fs == f or abs(fs - f) <= 1e-13 * abs(f)):
            fail = f"NormalEmpiricalNull.fdr({t!r}) is {fs!r} as a scalar and {f!r} inside an array"
        if fail is None and not (0 <= fs <= 1):
            fail = f"NormalEmpiricalNull.fdr({t!r}) = {fs!r} outside [0,1]"
        hit = np.nonzero(xs == t)[0]
        if fail is None and hit.size and abs(fs - efp[hit[0]]) > 1e-12 * max(efp[hit[0]], 1e-300):
            fail = (f"NormalEmpiricalNull.fdr at the sample point {t!r} is {fs!r} but fdrcurve gives {efp[hit[0]]!r} there")
    ut = en.uncorrected_threshold(alpha) if alpha < 1 else None
    if fail is None and ut is not None and not (ut == st.norm.isf(alpha, en.mu, en.sigma)):
        fail = "uncorrected_threshold is not the normal quantile of the fitted null"
    return {"lines": lines, "impl": impl, "oracle": fail, "nontrivial": n > 1, "tags": tags,
            "mutated": snap.changed() if snap else None}


# ----------------------------------------------------------------------
# kind `shist`: smoothed_histogram_from_samples
# ----------------------------------------------------------------------
def gen_shist(rng):
    n = rng.choice([1, 2, 5, 20, 60, 200])
    kind = rng.choice(["gauss", "grid", "grid", "const"])
    if kind == "gauss":
        x = [rng.gauss(0, 2) for _ in range(n)]
    elif kind == "grid":
        x = [rng.randint(-16, 16) / 4 for _ in range(n)]
    else:
        x = [rng.choice([0.0, 2.5])] * n
    bins = None
    if rng.random() < 0.4:
        k = rng.choice([1, 2, 4, 9])
        lo = rng.choice([-5.0, -4.0, 0.0, -1.0])
        w = rng.choice([0.5, 1.0, 2.0, 0.25])
        bins = [lo + w * i for i in range(k + 1)]
    return {"kind": "shist", "x": x, "bins": bins, "nbins": rng.choice([None, 4, 7, 16, 64]),
            "normalized": rng.random() < 0.5, "layout": rng.choice(["C", "F", "strided", "neg", "readonly"]),
            "dtype": rng.choice(["float64", "float64", "float32", "int64", "int16"])}


def run_shist(c):
    warnings.filterwarnings("ignore")
    import scipy.ndimage as ndi
    from nipy.algorithms.statistics import empirical_pvalue as ep
    x = np.array(c["x"], float)
    n = x.size
    dtype = c["dtype"] if exact_in(x, c["dtype"]) else "float64"
    arg = present(np.array(x, dtype=dtype), c["layout"])
    bins = None if c["bins"] is None else np.array(c["bins"], float)
    snap = Snapshot(x=arg, **({"bins": bins} if bins is not None else {}))
    kw = {"normalized": c["normalized"]}
    if c["nbins"] is not None:
        kw["nbins"] = c["nbins"]
    rec = {"hist": [], "filt": []}
    real_hist = np.histogram

    def hist(*a_, **k_):
        r = real_hist(*a_, **k_)
        rec["hist"].append(r)
        return r

    def filt(h, sigma, **k_):
        rec["filt"].append((np.array(h, float), float(sigma), k_))
        return h

    tags = ["shist", "dtype=" + dtype, "bins=" + ("given" if bins is not None else "auto"), f"normalized={c['normalized']}"]
    with mock.patch.object(np, "histogram", hist), mock.patch.object(ndi, "gaussian_filter1d", filt):
        try:
            h, eb = ep.smoothed_histogram_from_samples(arg, bins=bins, **kw)
            err = None
        except Exception as e:      # noqa: BLE001
            err = e
    if bins is not None:
        # as written, the histogram is only computed when no bins are given: `h` is unbound otherwise
        return {"lines": [f"shist 1 {plist(x.tolist())} 0 0 {plist(bins.tolist())} {1 if c['normalized'] else 0} 1 1"],
                "impl": [("w3", "text", errname(err) if err is not None else "returned")], "oracle": None,
                "nontrivial": True, "tags": tags + ["bins-given-refused" if err is not None else "bins-given-ok"],
                "mutated": snap.changed()}
    if err is not None or not rec["filt"]:
        return {"lines": [], "impl": [], "nontrivial": True, "tags": tags + ["raised"], "mutated": snap.changed(),
                "oracle": f"smoothed_histogram_from_samples raised {type(err).__name__}: {err} on {n} samples ({dtype})"}
    hraw, sigma, fkw = rec["filt"][0]
    eb = np.asarray(eb, float)
    fail = None
    if bins is None:
        b0 = np.asarray(rec["hist"][0][1], float)
        m = float(b0.mean())
    else:
        b0, m = np.array([]), 0.0
    dc = float(eb[1] - eb[0])
    sd = float(np.asarray(arg).std())
    ex = float(np.exp(.2 * np.log(n)))
    okn = not c["normalized"] or (hraw.size and np.all(np.isfinite(hraw)))
    lines, impl = [], []
    if okn and np.isfinite(sigma) and dc != 0:
        lines.append(f"shist 0 {plist(x.tolist())} {plist(b0.tolist())} {fr(m)} {plist(eb.tolist())} "
                     f"{1 if c['normalized'] else 0} {fr(sd)} {fr(ex)}")
        scale = float(np.abs(b0).max()) if b0.size else 0.0
        impl.append(("w3", "parts", [("avals", eb.tolist() if bins is None else [], (1e-6 if dtype == "float32" else 2e-15) * scale),
                                     ("vals", hraw.tolist(), 1e-15), ("vals", [sigma], 1e-15)]))
    counts = rec["hist"][-1][0]
    if fkw.get("mode") != "constant":
        fail = "the histogram is not smoothed with mode='constant'"
    elif bins is None and int(counts.sum()) != n:
        fail = f"automatic bins lose samples: {int(counts.sum())} of {n} counted"
    elif bins is not None and not np.array_equal(eb, bins):
        fail = "the bins handed in are not the bins returned"
    elif c["normalized"] and counts.sum() > 0 and abs(float(hraw.sum() * dc) - 1) > 1e-12:
        fail = f"normalized histogram integrates to {float(hraw.sum() * dc)!r}"
    else:
        inside = int(np.sum((x >= eb[0]) & (x <= eb[-1])))
        if int(counts.sum()) != inside:
            fail = f"histogram counts {int(counts.sum())} samples, {inside} lie within the bins"
    if fail is None:          # the real, smoothed result
        h2, _ = ep.smoothed_histogram_from_samples(arg, bins=bins, **kw)
        if np.shape(h2) != (eb.size - 1,) or (np.all(np.isfinite(hraw)) and np.isfinite(sigma) and sigma > 0
                                               and (np.any(np.asarray(h2) < 0) or np.sum(h2) > np.sum(hraw) * (1 + 1e-9) + 1e-300)):
            fail = "smoothed histogram has the wrong length, negative values or more mass than the counts"
    return {"lines": lines, "impl": impl, "oracle": fail, "nontrivial": n > 1, "tags": tags, "mutated": snap.changed()}


# ----------------------------------------------------------------------
# kind `gmm3`: bookkeeping of three_classes_GMM_fit / gamma_gaussian_fit around stand-in estimators
# ----------------------------------------------------------------------
def gen_gmm3(rng):
    n = rng.choice([5, 10, 20, 50, 100])
    return {"kind": "gmm3", "x": [rng.randint(-40, 40) / 8 for _ in range(n)],
            "alpha": rng.choice([0.01, 0.05, 0.1, 0.25, 0.2, 0.5]), "ps": rng.choice([100, 10, 8, 1]),
            "fixed": rng.random() < 0.4, "bias": rng.choice([0, 0, 1]), "theta": rng.choice([0, 0.5, -1.0, 100.0]),
            "test": rng.choice(["none", "none", "arr", "empty"]), "ret": rng.random() < 0.3,
            "shape": rng.choice(["col", "flat"])}


def _lik(t, salt):
    t = np.ravel(np.asarray(t, float))
    i = np.arange(t.size)
    return np.stack([((i * 7 + k * 3 + salt) % 8 + 1) / 8.0 for k in range(3)], 1)


class _FakeVBGMM:
    last = None

    def __init__(self, *a, **k):
        self.init = a
        self.priors = None
        self.estimated = None
        self.weights = np.array([0.25, 0.5, 0.125])
        _FakeVBGMM.last = self

    def set_priors(self, *a):
        self.priors = a

    def estimate(self, x, **k):
        self.estimated = (np.array(x), k)

    def likelihood(self, t):
        return _lik(t, 0)

    def slikelihood(self, t):
        return _lik(t, 5)


class _FakeGGGM:
    last = None

    def __init__(self):
        self.calls = []
        _FakeGGGM.last = self

    def init_fdr(self, x):
        self.calls.append(("init_fdr", np.array(x)))

    def estimate(self, x, **k):
        self.calls.append(("estimate", k))

    def posterior(self, t):
        self.calls.append(("posterior", np.array(t)))
        l = _lik(t, 2)
        return l[:, 0], l[:, 1], l[:, 2]


def _rows(a):
    a = np.asarray(a, float)
    return f"{a.shape[0]} {a.shape[1]} {frs(a.ravel().tolist())}"


def run_gmm3(c):
    warnings.filterwarnings("ignore")
    from nipy.algorithms.statistics import empirical_pvalue as ep
    import nipy.algorithms.clustering.bgmm as bg
    import nipy.algorithms.clustering.ggmixture as gg
    x = np.array(c["x"], float)
    n = x.size
    arg = x.reshape(-1, 1) if c["shape"] == "col" else x
    test = None if c["test"] == "none" else (np.array([]) if c["test"] == "empty" else np.array([0.5, -1.0, 2.25, 0.0]))
    snap = Snapshot(x=arg)
    alpha, ps = c["alpha"], c["ps"]
    lines, impl, fail = [], [], None
    tags = ["gmm3", "test=" + c["test"], f"bias={c['bias']}", f"fixed={c['fixed']}"]
    with mock.patch.object(bg, "VBGMM", _FakeVBGMM):
        _FakeVBGMM.last = None
        try:
            out = ep.three_classes_GMM_fit(arg, test=test, alpha=alpha, prior_strength=ps, fixed_scale=c["fixed"],
                                           bias=c["bias"], theta=c["theta"], return_estimator=c["ret"])
            err = None
        except Exception as e:     # noqa: BLE001
            out, err = None, e
    if err is not None:
        return {"lines": [], "impl": [], "nontrivial": True, "tags": tags + ["raised"], "mutated": snap.changed(),
                "oracle": f"three_classes_GMM_fit bookkeeping raised {type(err).__name__}: {err}"}
    if c["test"] == "empty":
        if out is not None:
            fail = "three_classes_GMM_fit with an empty test array did not return None"
        return {"lines": [], "impl": [], "oracle": fail, "nontrivial": True, "tags": tags, "mutated": snap.changed()}
    est = _FakeVBGMM.last
    bfp = out[0] if c["ret"] else out
    if c["ret"] and out[1] is not est:
        fail = "return_estimator=True does not hand back the estimator"
    k, dim, pm, pscale, pw, pshr, pdof = est.init
    sx = np.sort(x)
    lines.append(f"gmmpri {plist(sx.tolist())} {fr(alpha * n)} {fr((1 - alpha) * n)} {fr(alpha)} {fr(ps)} "
                 f"{fr(float(np.var(x)))} {1 if c['fixed'] else 0}")
    means = np.ravel(pm).tolist()
    impl.append(("w3", "parts", [("optvals", means, 1e-14), ("vals", [float(np.ravel(pscale)[0])], 1e-15),
                                 ("vals", np.ravel(pdof).tolist(), 0.0), ("vals", np.ravel(pw).tolist(), 1e-15),
                                 ("vals", np.ravel(pshr).tolist(), 0.0)]))
    if fail is None and abs(float(np.sum(pw)) - ps) > 1e-12 * ps:
        fail = f"the prior class weights {np.ravel(pw).tolist()} do not sum to prior_strength = {ps}"
    if fail is None and (k, dim) != (3, 1):
        fail = "the mixture is not built with 3 classes in dimension 1"
    if fail is None and est.priors is not None:
        a = est.priors          # set_priors(prior_means, prior_weights, prior_scale, prior_dof, prior_shrinkage)
        same = all(np.array_equal(np.asarray(u), np.asarray(v), equal_nan=True)
                   for u, v in zip(a, (pm, pw, pscale, pdof, pshr)))
        if not same:
            fail = "set_priors is not called with the priors the constructor received"
    if fail is None and (est.estimated is None or not np.array_equal(est.estimated[0].ravel(), x)):
        fail = "the mixture is not estimated on the data"
    t_eff = x if test is None else test
    if c["bias"]:
        from nipy.algorithms.clustering.gmm import GridDescriptor
        gd = GridDescriptor(1); gd.set([x.min(), x.max()], 100)
        grid = gd.make_grid()
        lj = _lik(grid, 0)
        lw = np.sum(lj[grid.squeeze() > c["theta"]], 0)
        lines.append(f"gmmbias {plist(lw.tolist())} {plist(est.weights.tolist())} {_rows(_lik(t_eff, 5))}")
    else:
        lines.append(f"gmmnorm {_rows(_lik(t_eff, 0))}")
    bfp = np.asarray(bfp, float)
    if np.all(np.isfinite(bfp)):
        impl.append(("w3", "rows", bfp.tolist(), 1e-14))
    else:
        lines.pop()
        tags.append("nan-rows")
    if fail is None and bfp.shape != (np.size(t_eff), 3):
        fail = f"posterior array has shape {bfp.shape} for {np.size(t_eff)} test values"
    if fail is None and np.all(np.isfinite(bfp)) and (np.any(bfp < 0) or not np.allclose(bfp.sum(1), 1, atol=1e-12)):
        fail = "posterior rows are not probability vectors"
    # gamma_gaussian_fit: the transposed posterior of the estimator
    with mock.patch.object(gg, "GGGM", _FakeGGGM):
        _FakeGGGM.last = None
        try:
            g = ep.gamma_gaussian_fit(x, test=test, return_estimator=c["ret"])
        except Exception as e:     # noqa: BLE001
            g = None
            fail = fail or f"gamma_gaussian_fit bookkeeping raised {type(e).__name__}: {e}"
    if g is not None:
        ge = _FakeGGGM.last
        gp = np.asarray(g[0] if c["ret"] else g, float)
        te = np.ravel(t_eff)
        if te.size:
            lines.append(f"ggpost {_rows(_lik(te, 2).T)}")
            impl.append(("w3", "rows", gp.tolist(), 0.0))
        names = [nm for nm, _ in ge.calls]
        if fail is None and (names != ["init_fdr", "estimate", "posterior"] or not np.array_equal(ge.calls[0][1], x)
                             or not np.array_equal(ge.calls[2][1], te)):
            fail = "gamma_gaussian_fit does not run init_fdr(x), estimate(x), posterior(test) in this order"
        elif fail is None and c["ret"] and g[1] is not ge:
            fail = "gamma_gaussian_fit(return_estimator=True) does not hand back the estimator"
    return {"lines": lines, "impl": impl, "oracle": fail, "nontrivial": True, "tags": tags, "mutated": snap.changed()}


# ----------------------------------------------------------------------
# kind `cdiv`: Contrast.__div__ / labs contrast.__div__
# ----------------------------------------------------------------------
def _ipd(rng, q):
    """integer symmetric positive definite matrix"""
    a = np.array([[rng.randint(-2, 2) for _ in range(q)] for _ in range(q)], float)
    return a @ a.T + np.diag([float(rng.choice([1, 2, 3])) for _ in range(q)])


def _gen_obj(rng, nvs=(1, 2, 3)):
    q = rng.choice([1, 1, 2, 2, 3])
    nv = rng.choice(nvs)
    var = np.zeros((q, q, nv))
    for v in range(nv):
        var[:, :, v] = _ipd(rng, q)
    return {"cls": rng.choice(["fmri", "fmri", "labs"]), "q": q, "nv": nv,
            "ty": rng.choice(["t", "F", "F", "tmin-conjunction"]),
            "effect": [[float(rng.randint(-12, 12)) for _ in range(nv)] for _ in range(q)], "var": var.tolist(),
            "dof": rng.choice([1.0, 2.0, 5.0, 30.0, 1e3, 1e10, 5e10])}


def gen_cdiv(rng):
    from harness.props import c06_ext as X
    c = _gen_obj(rng)
    c.update({"kind": "cdiv", "tiny": rng.choice(X.TINYS), "dofmax": rng.choice(X.DOFMAXS),
              "k": rng.choice([2.0, 0.5, 4.0, 3.0, -2.0, 0.0, 1024.0, 2.0 ** -30, 10.0, 7.0]),
              "ktype": rng.choice(["float", "int", "np.float64", "np.int32", "float"])})
    return c


def run_cdiv(c):
    warnings.filterwarnings("ignore")
    from harness.props import c06_ext as X
    cls, q, nv = c["cls"], c["q"], c["nv"]
    E, V = np.array(c["effect"], float), np.array(c["var"], float)
    obj = X.mk(cls, E, V, c["dof"], c["ty"], c["tiny"], c["dofmax"])
    snap = Snapshot(effect=obj.effect, variance=obj.variance)
    k = c["k"]
    kt = c["ktype"] if float(k).is_integer() or c["ktype"] in ("float", "np.float64") else "float"
    karg = {"float": float(k), "int": int(k) if float(k).is_integer() else float(k), "np.float64": np.float64(k),
            "np.int32": np.int32(k) if float(k).is_integer() else np.float64(k)}[kt]
    fail = None
    try:
        with contextlib.redirect_stdout(io.StringIO()):
            new = obj.__div__(karg)
        err = None
    except Exception as e:      # noqa: BLE001
        new, err = None, e
    r = 1 / float(k) if k != 0 else 0.0
    mty = X.seen_ty(cls, c["ty"])
    lines, impl = [], []
    for v in range(nv):
        lines.append(f"cdiv {cls} {X.obj_tokens(cls, mty, E[:, v], V[:, :, v], c['dof'], c['tiny'], c['dofmax'])} {fr(k)} {fr(r)}")
        if new is None:
            impl.append(("w3", "text", errname(err)))
        else:
            t, dof, tn, dm, e, vv = X.state(new, cls)
            impl.append(("w3", "obj", X.tyname(cls, t), [dof, tn, dm] + e[:, v].tolist() + vv[:, :, v].ravel().tolist(), 2e-15))
    tags = ["cdiv", "cls=" + cls, "ktype=" + kt, "k=0" if k == 0 else ("k<0" if k < 0 else "k>0")]
    if new is None and k != 0:
        fail = f"c.__div__({karg!r}) raised {type(err).__name__}: {err}"
    if new is not None and k == 0:
        fail = f"c.__div__({karg!r}) returned a contrast"
    elif new is not None:
        with contextlib.redirect_stdout(io.StringIO()):
            ref = (1 / float(k)) * obj
        _, d1, t1, m1, e1, v1 = X.state(ref, cls)
        _, d2, t2, m2, e2, v2 = X.state(new, cls)
        if not (np.array_equal(e1, e2) and np.array_equal(v1, v2) and (d1, t1, m1) == (d2, t2, m2)):
            fail = f"c.__div__({karg!r}) is not (1 / {k}) * c"
        elif k > 0:
            fail = X.scale_clause(cls, obj, new, 1 / float(k), f"c.__div__({karg!r})")
    return {"lines": lines, "impl": impl, "oracle": fail, "nontrivial": True, "tags": tags, "mutated": snap.changed()}


# ----------------------------------------------------------------------
# kind `conpres`: one contrast, its arrays presented in other dtypes / layouts
# ----------------------------------------------------------------------
def gen_conpres(rng):
    c = _gen_obj(rng, nvs=(1, 2, 4))
    c.update({"kind": "conpres", "edtype": rng.choice(["float64", "int64", "int32", "int16", "int8", "float32"]),
              "vdtype": rng.choice(["float64", "int64", "int64", "int32", "int16", "int8", "uint8", "float32"]),
              "elayout": rng.choice(["C", "F", "strided", "neg", "readonly"]),
              "vlayout": rng.choice(["C", "F", "strided", "neg", "readonly"]),
              "baseline": rng.choice([0.0, 0.0, 1.0, -0.5, 2.5]), "calls": [rng.choice("spz") for _ in range(3)]})
    return c


def run_conpres(c):
    warnings.filterwarnings("ignore")
    from harness.props import c06_ext as X
    cls, q, nv, b = c["cls"], c["q"], c["nv"], c["baseline"]
    E, V = np.array(c["effect"], float), np.array(c["var"], float)
    ed = c["edtype"] if exact_in(E, c["edtype"]) else "float64"
    vd = c["vdtype"] if exact_in(V, c["vdtype"]) else "float64"
    ea = present(np.array(E, dtype=ed), c["elayout"])
    va = present(np.array(V, dtype=vd), c["vlayout"])

    def build(e_, v_):
        if cls == "fmri":
            from nipy.modalities.fmri.glm import Contrast
            with contextlib.redirect_stdout(io.StringIO()):
                return Contrast(e_, v_, dof=c["dof"], contrast_type=c["ty"])
        import nipy.labs.glm.glm as lg
        k = lg.contrast(q, X.seen_ty("labs", c["ty"]))
        k.effect, k.variance = (e_[0], v_[0, 0]) if q == 1 else (e_, v_)
        k.dof = c["dof"]
        return k

    obj = build(ea, va)
    snap = Snapshot(effect=ea, variance=va)
    ref = build(E.copy(), V.copy())
    single = "float32" in (ed, vd)
    tags = ["conpres", "cls=" + cls, "ty=" + c["ty"], f"dim={q}", "edtype=" + ed, "vdtype=" + vd,
            "elayout=" + c["elayout"], "vlayout=" + c["vlayout"]]
    fail = None
    calls = [(op, b) for op in c["calls"]] + [("z", b)]
    lines, impl = [], []
    ety = X.eff_ty(c["ty"], q)
    desc = (f"{cls} {c['ty']} contrast of dimension {q}, effect {E.tolist()} as {ed}/{c['elayout']}, variance "
            f"{V.tolist()} as {vd}/{c['vlayout']}, baseline {b}")
    try:
        if single:
            got = [X.call(obj, cls, op, bb) for op, bb in calls]
        else:
            it, tk, errs = X.run_calls(obj, cls, calls, nv)
            if errs:
                raise errs[0][2]
            got = [np.array([it[v][i][1] for v in range(nv)]) for i in range(len(calls))]
            mty = X.seen_ty(cls, c["ty"])
            from harness.props.c06_ext import TINY, DOFMAX
            for v in range(nv):
                lines.append(f"hist {cls} {X.obj_tokens(cls, mty, E[:, v], V[:, :, v], c['dof'], TINY, DOFMAX)} {len(tk)} " + " ".join(tk))
                impl.append(("hist", it[v]))
    except Exception as e:      # noqa: BLE001
        return {"lines": [], "impl": [], "nontrivial": True, "tags": tags + ["raised"], "mutated": snap.changed(),
                "oracle": f"{type(e).__name__}: {e} raised on a {desc}"}
    cond = max(np.linalg.cond(V[:, :, v]) for v in range(nv)) if (q > 1 and ety == "F") else 1.0
    rt = (1e-4 if single else 1e-9) * cond
    for (op, bb), g in zip(calls, got):
        w = X.call(ref, cls, op, bb)
        if fail is None and not np.allclose(g, w, rtol=rt, atol=1e-6 if (single or op == "z") and single else (1e-9 if op == "z" else 1e-300)):
            fail = (f"{X.OPNAME[cls][op]}({bb}) of a {desc} is {g.tolist()}, with float64 C-contiguous arrays {w.tolist()}")
    return {"lines": lines, "impl": impl, "oracle": fail, "nontrivial": True, "tags": tags, "mutated": snap.changed()}


# ----------------------------------------------------------------------
# kind `fopt`: Tcontrast / Fcontrast / t / vcov with rarely used argument forms
# ----------------------------------------------------------------------
def gen_fopt(rng, design, imat, fullrank):
    n = rng.choice([5, 6, 8, 12])
    p = rng.choice([2, 3, 3, 4])
    n = max(n, p + 2)
    nv = rng.choice([2, 3, 4])
    q = rng.randint(1, p)
    dform = rng.choice(["array", "array", "float", "np.float64", "0d", "int"])
    return {"kind": "fopt", "X": design(rng, n, p), "Y": imat(rng, n, nv, -8, 8), "M": fullrank(rng, q, p),
            "c": fullrank(rng, 1, p)[0], "dform": dform,
            "disp": [rng.choice([0.5, 1.0, 2.0, 4.0, 2.0 ** -20, 16.0, 3.0]) for _ in range(nv)],
            "wscale": rng.choice([1.0, 1.0, 2.0, 0.5]), "wrows": rng.choice([0, 0, 0, 1]),
            "mdtype": rng.choice(["float64", "int64", "int8", "float32"]), "mlayout": rng.choice(LAYOUTS),
            "cols": rng.sample(range(p), rng.randint(1, p))}


def run_fopt(c):
    warnings.filterwarnings("ignore")
    from nipy.algorithms.statistics.models.regression import OLSModel
    X = np.array(c["X"], float); Y = np.array(c["Y"], float)
    n, p = X.shape
    nv = Y.shape[1]
    res = OLSModel(X).fit(Y)
    theta = np.asarray(res.theta, float); cov = np.asarray(res.cov, float)
    M = np.array(c["M"], float); q = M.shape[0]
    cvec = np.array(c["c"], float)
    Marg = present(np.array(M, dtype=c["mdtype"]), c["mlayout"])
    carg = present(np.array(cvec, dtype=c["mdtype"]), c["mlayout"] if c["mlayout"] != "strided" else "C")
    dv = np.array(c["disp"], float)
    form = c["dform"]
    if form == "int" and not float(dv[0]).is_integer():
        form = "float"
    if form == "array":
        darg, d = dv.copy(), dv
    elif form == "list":
        darg, d = dv.tolist(), dv
    else:
        d = np.full(nv, dv[0])
        darg = {"float": float(dv[0]), "np.float64": np.float64(dv[0]), "0d": np.array(dv[0]), "int": int(dv[0])}[form]
    snap = Snapshot(M=Marg, c=carg, theta=res.theta, cov=res.cov, **({"disp": darg} if isinstance(darg, np.ndarray) else {}))
    V1 = M @ cov @ M.T
    condV = np.linalg.cond(V1)
    W = np.linalg.inv(V1) * c["wscale"]
    if c["wrows"]:
        W = np.eye(q + 1)
    tags = ["fopt", "dform=" + form, "mdtype=" + c["mdtype"], "mlayout=" + c["mlayout"], f"wscale={c['wscale']}"]
    fail = None
    desc = f"dispersion={darg!r} ({form}), contrast as {c['mdtype']}/{c['mlayout']}"
    lines, impl = [], []
    head = lambda v, dd: f"{p} {frs(theta[:, v])} {frs(cov.ravel())} {fr(dd)}"
    # ---- supplied invcov ----
    try:
        fw = res.Fcontrast(Marg, invcov=W)
        errw = None
    except Exception as e:      # noqa: BLE001
        fw, errw = None, e
    for v in range(nv):
        dd = float(np.atleast_1d(res.dispersion)[v])
        lines.append(f"fcon2 {head(v, dd)} {q} {frs(M.ravel())} {W.shape[0]} {frs(W.ravel())}")
        if fw is None:
            impl.append(("w3", "text", errname(errw)))
        else:
            u = np.abs(M) @ np.abs(theta[:, v])
            tolF = 1e-12 * float(u @ np.abs(W) @ u) / max(q * dd, 1e-300) + 1e-300
            fe = np.asarray(fw.effect, float).reshape(q, -1)
            fcv = np.asarray(fw.covariance, float).reshape(q, q, -1)
            tolc = 1e-12 * float((np.abs(M) @ np.abs(cov) @ np.abs(M.T)).max()) * abs(dd) + 1e-300
            impl.append(("vals", [np.atleast_1d(fw.F)[v], fw.df_num] + fe[:, v].tolist() + fcv[:, :, v].ravel().tolist(),
                         [tolF, 0] + [1e-13 * float(u.max()) + 1e-300] * q + [tolc] * (q * q)))
    if c["wrows"]:
        if fw is not None:
            fail = "Fcontrast accepted an inverse covariance of the wrong size"
        return {"lines": lines, "impl": impl, "oracle": fail, "nontrivial": True, "tags": tags + ["refusal"], "mutated": snap.changed()}
    if fw is None:
        return {"lines": lines, "impl": impl, "nontrivial": True, "tags": tags + ["raised"], "mutated": snap.changed(),
                "oracle": f"Fcontrast(matrix, invcov=W) raised {type(errw).__name__}: {errw}"}
    # ---- explicit dispersion in every documented form ----
    try:
        f0 = res.Fcontrast(M)
        fd = res.Fcontrast(Marg, dispersion=darg)
        f1 = res.Fcontrast(Marg, dispersion=1.0)
        fc1 = res.Fcontrast(carg, dispersion=darg)
        td = res.Tcontrast(carg, dispersion=darg)
        tcols = res.t(c["cols"])
        vc_col = res.vcov(column=c["cols"], dispersion=darg)
        vc_one = res.vcov(column=c["cols"][0], dispersion=darg)
        vc_all = res.vcov(dispersion=darg)
        vc_oth = res.vcov(matrix=M, other=cvec[None], dispersion=darg)
    except Exception as e:      # noqa: BLE001
        return {"lines": lines, "impl": impl, "nontrivial": True, "tags": tags + ["raised"], "mutated": snap.changed(),
                "oracle": f"{type(e).__name__}: {e} raised with {desc} on a fitted OLS model"}
    mut = snap.changed()
    F0 = np.atleast_1d(f0.F); Fd = np.atleast_1d(fd.F); F1 = np.atleast_1d(f1.F); Fc1 = np.atleast_1d(fc1.F)
    Fw = np.atleast_1d(fw.F)
    fe = np.asarray(fd.effect, float).reshape(q, -1)
    fcv = np.asarray(fd.covariance, float).reshape(q, q, -1)
    tt = np.atleast_1d(td.t); te = np.atleast_1d(td.effect); tsd = np.ravel(np.atleast_1d(td.sd))
    Wt = np.linalg.inv(V1)
    single = c["mdtype"] == "float32"
    rt = 1e-5 if single else 1e-9
    for v in range(nv):
        dd = float(d[v])
        th = theta[:, v]
        u = np.abs(M) @ np.abs(th)
        tolF = 1e-10 * condV * float(u @ np.abs(Wt) @ u) / (q * dd) + 1e-300
        tolc = 1e-12 * float((np.abs(M) @ np.abs(cov) @ np.abs(M.T)).max()) * dd + 1e-300
        cv = fcv[:, :, v if fcv.shape[2] > 1 else 0]
        if not single:
            lines.append(f"fcon {head(v, dd)} {q} {p} {frs(M.ravel())}")
            impl.append(("vals", [Fd[v], fd.df_num] + fe[:, v].tolist() + cv.ravel().tolist(),
                         [tolF, 0] + [1e-13 * float(u.max()) + 1e-300] * q + [tolc] * (q * q)))
            sdv = float(tsd[v if tsd.size > 1 else 0])
            ae = 1e-13 * float(np.abs(cvec) @ np.abs(th)) + 1e-300
            av = 1e-12 * float(np.abs(cvec) @ np.abs(cov) @ np.abs(cvec)) * dd + 1e-300
            lines.append(f"tcon {head(v, dd)} 1 {p} {frs(cvec)} {fr(sdv)}")
            impl.append(("vals", [te[v], sdv ** 2, tt[v]], [ae, av, ae / sdv + 1e-300 if sdv > 0 else 1e-300]))
        if fail is None:
            want = dd * V1
            sdv = float(tsd[v if tsd.size > 1 else 0])
            if np.abs(cv - want).max() > rt * float(np.abs(want).max()) * max(1.0, condV):
                fail = f"Fcontrast({desc}): covariance of response {v} is {cv.tolist()}, not {dd} * M (X'X)^-1 M' = {want.tolist()}"
            elif abs(Fd[v] * dd - F1[v]) > 1e-9 * condV * abs(F1[v]) + 1e-300:
                fail = f"Fcontrast({desc}): F * dispersion = {Fd[v] * dd!r} differs from F at dispersion 1 = {F1[v]!r} (response {v})"
            elif abs(Fw[v] - c["wscale"] * F0[v]) > 1e-9 * condV * abs(F0[v]) + 1e-300 + 1e-10 * condV * c["wscale"] * float(
                    u @ np.abs(Wt) @ u) / max(q * float(np.atleast_1d(res.dispersion)[v]), 1e-300) * (float(np.atleast_1d(res.dispersion)[v]) > 0):
                fail = (f"Fcontrast(invcov = {c['wscale']} * true inverse) gives F = {Fw[v]!r}, without invcov {F0[v]!r} "
                        f"(response {v})")
            elif abs(sdv ** 2 - dd * float(cvec @ cov @ cvec)) > rt * dd * float(np.abs(cvec) @ np.abs(cov) @ np.abs(cvec)):
                fail = f"Tcontrast({desc}): sd^2 = {sdv ** 2!r} is not dispersion * c (X'X)^-1 c' (response {v})"
            elif sdv > 0 and abs(tt[v] - te[v] / sdv) > 1e-12 * abs(tt[v]) + 1e-300:
                fail = f"Tcontrast({desc}): t = {tt[v]!r} is not effect / sd = {te[v] / sdv!r} (response {v})"
            elif abs(Fc1[v] - tt[v] ** 2) > 1e-8 * max(1.0, condV) * abs(Fc1[v]) + 1e-12 * float(np.abs(cvec) @ np.abs(th)) ** 2 / max(sdv ** 2, 1e-300):
                fail = f"{desc}: one-row F = {Fc1[v]!r} but t^2 = {tt[v] ** 2!r} (response {v})"
    # t(column=list) against single columns, vcov forms against cov * dispersion
    if fail is None:
        tc = np.asarray(tcols, float).reshape(len(c["cols"]), -1)
        for i, j in enumerate(c["cols"]):
            tj = np.atleast_1d(res.t(j))
            if not np.allclose(tc[i], tj, rtol=1e-12, atol=1e-300):
                fail = f"t(column={c['cols']}) row {i} is {tc[i].tolist()}, t(column={j}) is {tj.tolist()}"
        for v in range(nv):
            dd0 = float(np.atleast_1d(res.dispersion)[v])
            j = c["cols"][0]
            sdj = float(np.sqrt(cov[j, j] * dd0))
            lines.append(f"tcol {fr(theta[j, v])} {fr(cov[j, j])} {fr(dd0)} {fr(sdj)}")
            impl.append(("vals", [sdj ** 2, tc[0, v]], [1e-15 * sdj ** 2 + 1e-300, 1e-14 * abs(tc[0, v]) + 1e-300]))
    if fail is None:
        cc = cov[np.ix_(c["cols"], c["cols"])]
        for nm, got, base in (("vcov(column=list)", vc_col, cc), ("vcov(column=int)", vc_one, cov[c["cols"][0], c["cols"][0]]),
                              ("vcov()", vc_all, cov), ("vcov(matrix, other)", vc_oth, M @ cov @ cvec[None].T)):
            g = np.asarray(got, float)
            for v in range(nv):
                gv = g if g.ndim == np.ndim(base) and g.shape == np.shape(base) and np.ndim(d[0] * base) == g.ndim and form not in ("array", "list") \
                    else (g[..., v] if g.shape[-1] == nv and g.ndim == np.ndim(base) + 1 else (g[..., 0] if g.ndim == np.ndim(base) + 1 else g))
                want = float(d[v]) * np.asarray(base)
                floor = 1e-12 * float(d[v]) * float(np.abs(cov).max()) * max(1.0, float(np.abs(M).max())) * max(1.0, float(np.abs(cvec).max())) * p
                if np.shape(gv) != np.shape(want) or not np.allclose(gv, want, rtol=1e-12, atol=floor):
                    fail = f"{nm} with {desc}: response {v} gives {np.asarray(gv).tolist()}, not dispersion * cov = {want.tolist()}"
                    break
            if fail:
                break
    return {"lines": lines, "impl": impl, "oracle": fail, "nontrivial": True, "tags": tags, "mutated": mut}


# ----------------------------------------------------------------------
# comparison of the `w3` observations
# ----------------------------------------------------------------------
def _fl(x):
    try:
        return float(x)
    except OverflowError:
        return math.inf if x > 0 else -math.inf


def _cmp_vals(vals, toks, rel, atol=0.0):
    try:
        mv = [Fraction(t) for t in toks]
    except Exception:   # noqa: BLE001
        return f"unparsable model numbers {' '.join(toks)[:80]!r}"
    if len(mv) != len(vals):
        return f"length impl={len(vals)} model={len(mv)}"
    for k, (a, b) in enumerate(zip(vals, mv)):
        fb = _fl(b)
        if float(a) == fb:
            continue
        if rel == 0.0 and atol == 0.0:
            if Fraction(a) != b:
                return f"index {k}: impl={a!r} model={fb!r} (exact comparison)"
        elif not abs(float(a) - fb) <= atol + rel * abs(fb):
            return f"index {k}: impl={float(a)!r} model={fb!r}"
    return None


def compare_w3(obs, model_out):
    from harness.props import c06_ext as X
    sub = obs[1]
    if model_out == "bad-op":
        return "model says bad-op"
    if sub == "text":
        return None if obs[2] == model_out else f"impl={obs[2]!r} model={model_out[:100]!r}"
    if model_out.startswith("error"):
        return f"impl returned {str(obs[2])[:100]}, model says {model_out}"
    if sub == "okvals":
        toks = model_out.split()
        if not toks or toks[0] != "ok":
            return f"impl accepted, model says {model_out[:80]!r}"
        return _cmp_vals(obs[2], toks[1:], 0.0)
    if sub == "vals":
        return _cmp_vals(obs[2], model_out.split(), obs[3], 1e-300)
    if sub == "obj":
        toks = model_out.split()
        return X._cmp_obj(("obj", obs[2], obs[3]), toks[1:], None, obs[4])
    if sub == "rows":
        rows = [r.split() for r in model_out.split(" ; ")] if model_out else []
        if len(rows) != len(obs[2]):
            return f"rows impl={len(obs[2])} model={len(rows)}"
        for i, (a, r) in enumerate(zip(obs[2], rows)):
            d = _cmp_vals(a, r, obs[3], 1e-300)
            if d:
                return f"row {i}: {d}"
        return None
    if sub == "parts":
        parts = []
        for blk in model_out.split(" | "):
            parts += blk.split(" ; ")
        if len(parts) != len(obs[2]):
            return f"parts impl={len(obs[2])} model={len(parts)}: {model_out[:120]!r}"
        for i, (pt, txt) in enumerate(zip(obs[2], parts)):
            kind = pt[0]
            txt = txt.strip()
            if kind == "skip":
                continue
            if kind == "text":
                d = None if pt[1] == txt else f"impl={pt[1]!r} model={txt[:80]!r}"
            elif txt.startswith("error"):
                d = f"impl returned values, model says {txt}"
            elif kind == "exact":
                d = _cmp_vals(pt[1], txt.split(), 0.0)
            elif kind == "vals":
                d = _cmp_vals(pt[1], txt.split(), pt[2], 1e-300)
            elif kind == "avals":
                d = _cmp_vals(pt[1], txt.split(), 4e-16, pt[2])
            elif kind == "optvals":
                toks = txt.split()
                if len(toks) != len(pt[1]):
                    d = f"length impl={len(pt[1])} model={len(toks)}"
                else:
                    d = None
                    for a, t in zip(pt[1], toks):
                        if (t == "nan") != (isinstance(a, float) and math.isnan(a)):
                            d = f"impl={a!r} model={t}"
                        elif t != "nan":
                            d = d or _cmp_vals([a], [t], pt[2], 1e-300)
            else:
                d = f"unknown part kind {kind}"
            if d:
                return f"part {i}: {d}"
        return None
    return f"unknown w3 observation {sub!r}"


KINDS = ("pchk", "gthr", "enl", "shist", "gmm3", "cdiv", "conpres", "fopt")


def generate(rng, tier, design, imat, fullrank):
    k = 1 if tier == "quick" else 25
    cases = [gen_pchk(rng) for _ in range(120 * k)]
    cases += [gen_gthr(rng) for _ in range(40 * k)]
    cases += [gen_enl(rng) for _ in range(60 * k)]
    cases += [gen_shist(rng) for _ in range(40 * k)]
    cases += [gen_gmm3(rng) for _ in range(30 * k)]
    cases += [gen_cdiv(rng) for _ in range(50 * k)]
    cases += [gen_conpres(rng) for _ in range(120 * k)]
    cases += [gen_fopt(rng, design, imat, fullrank) for _ in range(40 * k)]
    return cases


# ----------------------------------------------------------------------
# translator: formula-like source lines -> Lean functions over Rat (`Gen/C06Formulas.lean`)
# ----------------------------------------------------------------------
import ast
import os


class _Tr:
    """Python arithmetic expression -> Lean term.  `names` maps source text of leaves to Lean variables;
    `funs` maps call heads (np.sqrt, st.norm.sf, ...) to function parameters / leaf variables."""

    def __init__(self, src, names, tiebroken, where):
        self.src, self.names, self.tb, self.where = src, names, tiebroken, where

    def fail(self, node):
        raise self.tb(f"{self.where}: cannot translate `{ast.get_source_segment(self.src, node)}`")

    def t(self, n):
        txt = ast.get_source_segment(self.src, n)
        if txt in self.names:
            return self.names[txt]
        if isinstance(n, ast.Constant) and isinstance(n.value, (int, float)) and not isinstance(n.value, bool):
            f = Fraction(n.value)
            return f"({f.numerator} : Rat)" if f.denominator == 1 else f"(mkRat {f.numerator} {f.denominator})"
        if isinstance(n, ast.UnaryOp) and isinstance(n.op, ast.USub):
            return f"(-{self.t(n.operand)})"
        if isinstance(n, ast.BinOp):
            if isinstance(n.op, ast.Pow):
                if isinstance(n.right, ast.Constant) and isinstance(n.right.value, int) and n.right.value >= 0:
                    return f"({self.t(n.left)} ^ {n.right.value})"
                self.fail(n)
            op = {ast.Add: "+", ast.Sub: "-", ast.Mult: "*", ast.Div: "/"}.get(type(n.op))
            if op is None:
                self.fail(n)
            return f"({self.t(n.left)} {op} {self.t(n.right)})"
        if isinstance(n, ast.Compare) and len(n.ops) == 1 and isinstance(n.ops[0], (ast.Lt, ast.Gt, ast.LtE, ast.GtE)):
            op = {ast.Lt: "<", ast.Gt: ">", ast.LtE: "≤", ast.GtE: "≥"}[type(n.ops[0])]
            return f"(decide ({self.t(n.left)} {op} {self.t(n.comparators[0])}))"
        if isinstance(n, ast.Call):
            head = ast.get_source_segment(self.src, n.func)
            if head in ("np.minimum", "min") and len(n.args) == 2:
                return f"(min {self.t(n.args[0])} {self.t(n.args[1])})"
            if head in ("np.maximum", "max") and len(n.args) == 2:
                return f"(max {self.t(n.args[0])} {self.t(n.args[1])})"
            if head in ("float",) and len(n.args) == 1:
                return self.t(n.args[0])
            if head in self.names and len(n.args) == 1:
                return f"({self.names[head]} {self.t(n.args[0])})"
        self.fail(n)


def _find_def(tree, path):
    node = tree
    for nm in path:
        node = next((b for b in node.body if isinstance(b, (ast.FunctionDef, ast.ClassDef)) and b.name == nm), None)
        if node is None:
            return None
    return node


def _find_value(src, fdef, target, nth=0):
    """value of the nth statement in `fdef` that assigns (or augments, or `return`s for target 'return') `target`"""
    k = 0
    for n in ast.walk(fdef):
        val = None
        if isinstance(n, ast.Assign) and len(n.targets) == 1 and ast.get_source_segment(src, n.targets[0]) == target:
            val = n.value
        elif isinstance(n, ast.AugAssign) and ast.get_source_segment(src, n.target) == target:
            val = n.value
        elif isinstance(n, ast.Return) and target == "return" and n.value is not None:
            val = n.value
        if val is not None:
            if k == nth:
                return val
            k += 1
    return None


FORMULAS = [
    # (lean name, file, def path, target, nth, binders, leaf names)
    ("fdrQ", "nipy/algorithms/statistics/empirical_pvalue.py", ["fdr"], "q", 0, "(n_samples sp rank : Rat) : Rat",
     {"n_samples": "n_samples", "sp_values": "sp", "np.arange(1, n_samples + 1)": "rank"}),
    ("fdrPcorr", "nipy/algorithms/statistics/empirical_pvalue.py", ["fdr_threshold"], "p_corr", 0,
     "(alpha n_samples : Rat) : Rat", {"alpha": "alpha", "n_samples": "n_samples"}),
    ("fdrCritical", "nipy/algorithms/statistics/empirical_pvalue.py", ["fdr_threshold"], "critical_set[]", 0,
     "(sp p_corr rank : Rat) : Bool", {"sp_values": "sp", "p_corr": "p_corr", "np.arange(1, n_samples + 1)": "rank"}),
    ("efpRawSrc", "nipy/algorithms/statistics/empirical_pvalue.py", ["NormalEmpiricalNull", "fdrcurve"], "efp", 0,
     "(p0 sf n remaining : Rat) : Rat",
     {"self.p0": "p0", "st.norm.sf(self.x, self.mu, self.sigma)": "sf", "self.n": "n", "np.arange(self.n, 0, - 1)": "remaining"}),
    ("efpClip", "nipy/algorithms/statistics/empirical_pvalue.py", ["NormalEmpiricalNull", "fdrcurve"], "efp", 1,
     "(efp : Rat) : Rat", {"efp": "efp"}),
    ("learnSqsigmaRaw", "nipy/algorithms/statistics/empirical_pvalue.py", ["NormalEmpiricalNull", "learn"], "sqsigma", 0,
     "(c2 : Rat) : Rat", {"coef[2]": "c2"}),
    ("learnSqsigma", "nipy/algorithms/statistics/empirical_pvalue.py", ["NormalEmpiricalNull", "learn"], "sqsigma", 1,
     "(sqsigma : Rat) : Rat", {"sqsigma": "sqsigma"}),
    ("learnMu", "nipy/algorithms/statistics/empirical_pvalue.py", ["NormalEmpiricalNull", "learn"], "mu", 0,
     "(c1 sqsigma : Rat) : Rat", {"coef[1]": "c1", "sqsigma": "sqsigma"}),
    ("learnP0", "nipy/algorithms/statistics/empirical_pvalue.py", ["NormalEmpiricalNull", "learn"], "self.p0", 0,
     "(E : Rat) : Rat", {"np.exp(lp0)": "E"}),
    ("learnMedge", "nipy/algorithms/statistics/empirical_pvalue.py", ["NormalEmpiricalNull", "learn"], "medge", 0,
     "(ledge step : Rat) : Rat", {"ledge": "ledge", "step": "step"}),
    ("smoothWidenSrc", "nipy/algorithms/statistics/empirical_pvalue.py", ["smoothed_histogram_from_samples"], "bins", 0,
     "(m b : Rat) : Rat", {"bins.mean()": "m", "bins": "b"}),
    ("smoothNormDen", "nipy/algorithms/statistics/empirical_pvalue.py", ["smoothed_histogram_from_samples"], "h", 2,
     "(dc total : Rat) : Rat", {"dc": "dc", "h.sum()": "total"}),
    ("smoothSigmaSrc", "nipy/algorithms/statistics/empirical_pvalue.py", ["smoothed_histogram_from_samples"], "sigma", 0,
     "(sd dc e : Rat) : Rat", {"x.std()": "sd", "dc": "dc", "np.exp(.2 * np.log(x.size))": "e"}),
    ("gmmWeight0", "nipy/algorithms/statistics/empirical_pvalue.py", ["three_classes_GMM_fit"], "prior_weights", 0,
     None, None),     # handled separately (array literal)
    ("fmriRmulEffect", "nipy/modalities/fmri/glm.py", ["Contrast", "__rmul__"], "effect_", 0,
     "(effect scalar : Rat) : Rat", {"self.effect": "effect", "scalar": "scalar"}),
    ("fmriRmulVariance", "nipy/modalities/fmri/glm.py", ["Contrast", "__rmul__"], "variance_", 0,
     "(variance scalar : Rat) : Rat", {"self.variance": "variance", "scalar": "scalar"}),
    ("fmriAddEffect", "nipy/modalities/fmri/glm.py", ["Contrast", "__add__"], "effect_", 0,
     "(a b : Rat) : Rat", {"self.effect": "a", "other.effect": "b"}),
    ("fmriAddVariance", "nipy/modalities/fmri/glm.py", ["Contrast", "__add__"], "variance_", 0,
     "(a b : Rat) : Rat", {"self.variance": "a", "other.variance": "b"}),
    ("fmriAddDof", "nipy/modalities/fmri/glm.py", ["Contrast", "__add__"], "dof_", 0,
     "(a b : Rat) : Rat", {"self.dof": "a", "other.dof": "b"}),
    ("fmriDivFactor", "nipy/modalities/fmri/glm.py", ["Contrast", "__div__"], "return", 0,
     "(rmul : Rat → Rat) (scalar : Rat) : Rat", {"self.__rmul__": "rmul", "scalar": "scalar"}),
    ("fmriStatOne", "nipy/modalities/fmri/glm.py", ["Contrast", "stat"], "stat", 0,
     "(sqrt : Rat → Rat) (effect baseline variance tiny : Rat) : Rat",
     {"np.sqrt": "sqrt", "self.effect": "effect", "baseline": "baseline", "self.variance": "variance", "self.tiny": "tiny"}),
    ("labsRmulEffect", "nipy/labs/glm/glm.py", ["contrast", "__rmul__"], "con.effect", 0,
     "(effect k : Rat) : Rat", {"self.effect": "effect", "k": "k"}),
    ("labsRmulVariance", "nipy/labs/glm/glm.py", ["contrast", "__rmul__"], "con.variance", 0,
     "(variance k : Rat) : Rat", {"self.variance": "variance", "k": "k"}),
    ("labsAddEffect", "nipy/labs/glm/glm.py", ["contrast", "__add__"], "con.effect", 0,
     "(a b : Rat) : Rat", {"self.effect": "a", "other.effect": "b"}),
    ("labsAddVariance", "nipy/labs/glm/glm.py", ["contrast", "__add__"], "con.variance", 0,
     "(a b : Rat) : Rat", {"self.variance": "a", "other.variance": "b"}),
    ("labsAddDof", "nipy/labs/glm/glm.py", ["contrast", "__add__"], "con.dof", 0,
     "(a b : Rat) : Rat", {"self.dof": "a", "other.dof": "b"}),
    ("labsStatOne", "nipy/labs/glm/glm.py", ["contrast", "stat"], "t", 0,
     "(sqrt : Rat → Rat) (effect baseline variance tiny : Rat) : Rat",
     {"np.sqrt": "sqrt", "self.effect": "effect", "baseline": "baseline", "self.variance": "variance", "self._tiny": "tiny"}),
]


def translate_formulas(repo, tiebroken):
    out = ["/- GENERATED by harness/props/c06_w3.py from expressions in /repo's source text:",
           "   nipy/algorithms/statistics/empirical_pvalue.py, nipy/modalities/fmri/glm.py, nipy/labs/glm/glm.py.",
           "   Each definition is the Python expression of the named assignment, leaves renamed, float literals as",
           "   exact binary64 rationals.  Do not edit. -/", "namespace NipyVerif.C06.Src", ""]
    cache = {}
    for name, rel, path, target, nth, binders, names in FORMULAS:
        fp = os.path.join(repo, rel)
        if fp not in cache:
            try:
                src = open(fp).read()
                cache[fp] = (src, ast.parse(src))
            except Exception as e:      # noqa: BLE001
                raise tiebroken(f"{rel} does not parse: {e}")
        src, tree = cache[fp]
        fdef = _find_def(tree, path)
        if fdef is None:
            raise tiebroken(f"{rel}: {'.'.join(path)} not found")
        val = _find_value(src, fdef, target[:-2] if target.endswith("[]") else target, nth)
        if val is not None and target.endswith("[]"):
            val = val.slice if isinstance(val, ast.Subscript) else None
        if val is None:
            raise tiebroken(f"{rel}: {'.'.join(path)}: assignment #{nth} to `{target}` not found")
        where = f"{rel}:{'.'.join(path)}:{target}"
        if name == "gmmWeight0":
            # prior_weights = np.array([alpha, 1 - 2 * alpha, alpha]) * prior_strength
            ok = (isinstance(val, ast.BinOp) and isinstance(val.op, ast.Mult) and isinstance(val.left, ast.Call)
                  and ast.get_source_segment(src, val.left.func) == "np.array" and isinstance(val.left.args[0], ast.List))
            if not ok:
                raise tiebroken(f"{where}: unexpected shape")
            tr = _Tr(src, {"alpha": "alpha", "prior_strength": "ps"}, tiebroken, where)
            items = [f"({tr.t(e)} * {tr.t(val.right)})" for e in val.left.args[0].elts]
            out.append(f"/-- `{ast.get_source_segment(src, val)}` -/")
            out.append(f"def gmmWeights (alpha ps : Rat) : List Rat := [{', '.join(items)}]")
            continue
        tr = _Tr(src, names, tiebroken, where)
        ret = binders.rsplit(":", 1)[1].strip()
        body = tr.t(val)
        out.append(f"/-- `{' '.join(ast.get_source_segment(src, val).split())}` ({'.'.join(path)}, `{target}`) -/")
        out.append(f"def {name} {binders} := {body}")
    # defaults of the public arguments
    src, tree = cache[os.path.join(repo, "nipy/algorithms/statistics/empirical_pvalue.py")]
    for fn, path, arg in (("fdrThresholdAlpha", ["fdr_threshold"], "alpha"),
                          ("gaussianFdrThresholdAlpha", ["gaussian_fdr_threshold"], "alpha"),
                          ("learnLeft", ["NormalEmpiricalNull", "learn"], "left"),
                          ("learnRight", ["NormalEmpiricalNull", "learn"], "right")):
        fdef = _find_def(tree, path)
        a = fdef.args
        names_ = [x.arg for x in a.args]
        try:
            d = a.defaults[names_.index(arg) - (len(names_) - len(a.defaults))]
            v = Fraction(float(ast.literal_eval(d)))
        except Exception:      # noqa: BLE001
            raise tiebroken(f"default of {'.'.join(path)}({arg}) is not a numeric literal")
        out.append(f"def {fn} : Rat := mkRat {v.numerator} {v.denominator}")
    out += ["", "end NipyVerif.C06.Src", ""]
    return [("NipyVerif/Gen/C06Formulas.lean", "\n".join(out))]
