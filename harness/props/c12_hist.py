"""C12 — operation histories on ONE Forest object (helper of harness/props/C12.py).

A case is an initial parent array plus a list of raw steps.  Raw step arguments are
oversized index material; they are materialised against the object as it is when the
step is reached (V changes when the history continues on a sub-forest).  Every step:

  * the real method is called on the one object `F`;
  * the value returned and the object's fields afterwards (parents, edges, weights,
    children cache) are written in the text form of the Lean model (`fhist` line:
    the model replays the *whole* history from the initial array, carrying its own
    edges and cache);
  * the oracle compares the value returned with the direct definition computed from
    `F.parents` as it was when the call was made, and then interrogates a *deep copy*
    of the object with every query (so the sweep never disturbs the cache under test):
    children / descendants / leaf / root / depth must all describe the current parents.
"""
from __future__ import annotations

import copy

import numpy as np

from harness.util import errname

QUERIES = ["gc", "gc", "gd", "gd", "leaf", "root", "depth", "tdepth", "check", "cc", "dist", "lst", "lst",
           "pand", "pup", "sub", "merge"]
MUTATORS = ["reorder", "reorder", "reorder", "subr", "merger", "cch", "dga"]


# ----------------------------------------------------------------------
# direct definitions from a parent array
# ----------------------------------------------------------------------
class CyclicParents(Exception):
    pass


def direct(ps):
    V = len(ps)
    kids = [[u for u in range(V) if ps[u] == v and u != v] for v in range(V)]

    def anc(v):
        out, w = [v], v
        while ps[w] != w:
            w = ps[w]
            out.append(w)
            if len(out) > V:
                raise CyclicParents(f"the parents {ps} contain a cycle through {w}: the object is not a forest")
        return out
    if any(not (0 <= x < V) for x in ps):
        raise CyclicParents(f"the parents {ps} have entries outside 0..{V - 1}: the object is not a forest")
    ancs = [anc(v) for v in range(V)]
    desc = [sorted(u for u in range(V) if v in ancs[u]) for v in range(V)]
    hts = [0] * V
    for v in sorted(range(V), key=lambda x: len(desc[x])):
        hts[v] = 0 if not kids[v] else 1 + max(hts[u] for u in kids[v])
    return {"V": V, "kids": kids, "anc": ancs, "desc": desc, "hts": hts,
            "leaf": [not k for k in kids], "root": [ps[v] == v for v in range(V)]}


def tree_dist(D, ps, u, v):
    au, av = D["anc"][u], D["anc"][v]
    for i, a in enumerate(au):
        if a in av:
            return i + av.index(a)
    return None


def comp_labels(D):
    roots = [a[-1] for a in D["anc"]]
    firsts = []
    for r in roots:
        if r not in firsts:
            firsts.append(r)
    return [firsts.index(r) for r in roots]


# ----------------------------------------------------------------------
# generation
# ----------------------------------------------------------------------
def raw_step(rng, name):
    R = lambda: rng.randrange(1 << 16)   # noqa: E731
    if name == "gc":
        return ["gc", R() if rng.random() < 0.8 else None]
    if name == "gd":
        return ["gd", R(), int(rng.random() < 0.4)]
    if name in ("sub", "subr"):
        dens = rng.choice([0.5, 0.7, 0.9])
        return ["sub", [int(rng.random() < dens) for _ in range(16)], int(name == "subr"),
                rng.choice(["bool", "bool", "int"]), int(rng.random() < 0.06)]
    if name in ("merge", "merger"):
        return ["merge", int(name == "merger")]
    if name == "dist":
        r = rng.random()
        return ["dist", None if r < 0.3 else R() if r < 0.5 else [R() for _ in range(rng.choice([1, 2, 3]))]]
    if name == "lst":
        return ["lst", [R() for _ in range(rng.choice([1, 1, 2, 2, 3, 4, 6]))], int(rng.random() < 0.4),
                int(rng.random() < 0.1), rng.choice(["list", "array"])]
    if name == "pand":
        return ["pand", [int(rng.random() < 0.6) for _ in range(16)], int(rng.random() < 0.06)]
    if name == "pup":
        return ["pup", [rng.choice([0, 1, 1, 2, 3]) for _ in range(16)], int(rng.random() < 0.06)]
    return [name]


def gen_steps(rng, nmut=None):
    """queries before and after every mutating call; the first query is one that fills the cache
    more often than not"""
    steps = [raw_step(rng, rng.choice(["gc", "gd", "gc", "merge", "pup", "lst", "leaf", "depth"]))]
    nmut = rng.choice([1, 1, 2, 2, 3]) if nmut is None else nmut
    for _ in range(nmut):
        for _ in range(rng.choice([0, 0, 1])):
            steps.append(raw_step(rng, rng.choice(QUERIES)))
        steps.append(raw_step(rng, rng.choice(MUTATORS)))
        for _ in range(rng.choice([1, 1, 2, 3])):
            steps.append(raw_step(rng, rng.choice(QUERIES)))
    return steps


def gen_forest_parents(rng, V):
    perm = list(range(V))
    rng.shuffle(perm)
    p = [0] * V
    style = rng.choice(["mixed", "mixed", "chain", "bushy", "roots"])
    for k, v in enumerate(perm):
        if k == 0 or rng.random() < {"mixed": 0.2, "chain": 0.05, "bushy": 0.1, "roots": 0.6}[style]:
            p[v] = v
        elif style == "chain":
            p[v] = perm[k - 1]
        elif style == "bushy":
            p[v] = perm[rng.randrange(0, max(1, k // 2))]
        else:
            p[v] = perm[rng.randrange(0, k)] if rng.random() < 0.6 else perm[k - 1]
    return p


def gen_case(rng, V=None, parents=None, nmut=None):
    if parents is None:
        V = V or rng.choice([1, 2, 2, 3, 3, 4, 4, 5, 5, 6, 7, 8, 10, 12])
        parents = gen_forest_parents(rng, V)
    return {"kind": "fhist", "parents": list(parents), "steps": gen_steps(rng, nmut)}


# ----------------------------------------------------------------------
# text forms shared with the Lean model
# ----------------------------------------------------------------------
def t_nats(l):
    return "[" + " ".join(str(int(x)) for x in l) + "]"


def t_natss(ll):
    return "[" + " ; ".join(" ".join(str(int(x)) for x in l) for l in ll) + "]"


def t_bools(l):
    return "[" + " ".join(str(int(bool(x))) for x in l) + "]"


def state_text(F):
    ps = " ".join(str(int(x)) for x in F.parents)
    E = np.asarray(F.edges).reshape(-1, 2) if np.size(F.edges) else np.zeros((0, 2), int)
    W = np.asarray(F.weights).ravel()
    es = " ".join(f"{int(a)}>{int(b)}:{int(w)}" for (a, b), w in zip(E.tolist(), W.tolist()))
    ch = F.children
    if isinstance(ch, list) and len(ch) == 0:
        cs = "-"
    else:
        cs = " ; ".join(" ".join(str(int(x)) for x in row) for row in ch)
    return f"{ps} | {es} | {cs}"


def norm(s):
    return " ".join(s.split())


# ----------------------------------------------------------------------
# running one history
# ----------------------------------------------------------------------
def sweep(F, trail):
    """every query on a deep copy of the object must describe F.parents as they are now"""
    ps = [int(x) for x in F.parents]
    V = len(ps)
    where = f"after {' -> '.join(trail) or 'construction'} (parents now {ps})"
    try:
        D = direct(ps)
    except CyclicParents as e:
        return f"{where}: {e}"
    G = copy.deepcopy(F)
    try:
        if int(G.V) != V:
            return f"{where}: V={G.V} but parents has {V} entries"
        ch = [[int(x) for x in r] for r in G.get_children()]
        if ch != D["kids"]:
            return f"{where}: get_children() = {ch} but the children under these parents are {D['kids']}"
        for v in range(V):
            one = [int(x) for x in copy.deepcopy(F).get_children(v)]
            if one != D["kids"][v]:
                return f"{where}: get_children({v}) = {one}, children under these parents are {D['kids'][v]}"
            dv = [int(x) for x in copy.deepcopy(F).get_descendants(v)]
            if dv != D["desc"][v]:
                return f"{where}: get_descendants({v}) = {dv}, descendants under these parents are {D['desc'][v]}"
        leaf = [bool(x) for x in G.isleaf()]
        root = [bool(x) for x in G.isroot()]
        if leaf != D["leaf"] or root != D["root"]:
            return f"{where}: isleaf/isroot = {leaf}/{root} inconsistent with the parents"
        if any(leaf[v] != (len(ch[v]) == 0) for v in range(V)):
            return f"{where}: isleaf {leaf} and get_children {ch} disagree"
        depth = [int(x) for x in G.depth_from_leaves()]
        bad = [v for v in range(V) if ps[v] != v and depth[ps[v]] <= depth[v]]
        if bad:
            return f"{where}: depth_from_leaves {depth} does not increase from node {bad[0]} to its parent"
        if depth != D["hts"]:
            return f"{where}: depth_from_leaves {depth} differs from the heights {D['hts']}"
        if int(G.check()) != 1:
            return f"{where}: check() says the object is not a forest"
        E = np.asarray(G.edges).reshape(-1, 2).tolist() if np.size(G.edges) else []
        W = [int(w) for w in np.asarray(G.weights).ravel()]
        up = sorted((a, b) for (a, b), w in zip(E, W) if w > 0)
        down = sorted((b, a) for (a, b), w in zip(E, W) if w < 0)
        want = sorted((v, ps[v]) for v in range(V) if ps[v] != v)
        if up != want or down != want or int(G.E) != 2 * len(want):
            return f"{where}: edges/weights {list(zip(E, W))} are not the child-parent links of the parents"
        M = copy.deepcopy(F).merge_simple_branches()
        valid = [len(k) != 1 for k in D["kids"]]
        keep = [v for v in range(V) if valid[v]]
        wantm = [keep.index(ps[v]) if valid[ps[v]] else keep.index(v) for v in keep]
        if [int(x) for x in M.parents] != wantm:
            return (f"{where}: merge_simple_branches() gives parents {[int(x) for x in M.parents]}; dropping the "
                    f"single-child nodes of the current forest gives {wantm}")
    except Exception as e:   # noqa: BLE001
        return f"{where}: a query raised {type(e).__name__}: {e}"
    return None


def run_history(case):
    from nipy.algorithms.graph.forest import Forest
    ps0 = [int(x) for x in case["parents"]]
    V0 = len(ps0)
    F = Forest(V0, np.array(ps0, dtype=np.int_))
    fails, tags, trail = [], ["fhist"], []
    toks = []          # model tokens of the ops
    obs = [state_text(F)]
    first = sweep(F, trail)
    if first:
        fails.append(first)

    def fail(msg):
        fails.append(f"after {' -> '.join(trail) or 'construction'}: {msg}")

    nsteps = 0
    for step in case["steps"]:
        name = step[0]
        ps = [int(x) for x in F.parents]
        V = len(ps)
        try:
            D = direct(ps)
        except CyclicParents as e:
            fail(str(e))
            break
        leaves = [v for v in range(V) if D["leaf"][v]]
        valid_args = True
        want = None          # ("eq", value) checked against the returned value
        label = name
        try:
            # ------------------------------------------------------------ materialise
            if name == "gc":
                r = step[1]
                v = -1 if r is None else ([-1] + list(range(V)) + [V, V + 1, -2])[r % (V + 4)]
                tok = f"gc {v}"
                label = f"get_children({v})"
                valid_args = -1 <= v < V
                call = lambda: F.get_children(v)                          # noqa: E731
                fmt = (lambda x: t_natss(x)) if v == -1 else (lambda x: t_nats(x))
                want = D["kids"] if v == -1 else (D["kids"][v] if 0 <= v < V else None)
                canon = (lambda x: [[int(a) for a in r_] for r_ in x]) if v == -1 else (lambda x: [int(a) for a in x])
            elif name == "gd":
                v = (list(range(V)) + [V, -1])[step[1] % (V + 2)]
                ex = bool(step[2])
                tok = f"gd {v} {int(ex)}"
                label = f"get_descendants({v}, exclude_self={ex})"
                valid_args = 0 <= v < V
                call = lambda: F.get_descendants(v, exclude_self=ex)      # noqa: E731
                fmt = t_nats
                canon = lambda x: [int(a) for a in x]                     # noqa: E731
                want = [u for u in D["desc"][v] if not (ex and u == v)] if valid_args else None
            elif name in ("leaf", "root"):
                tok = name
                call = F.isleaf if name == "leaf" else F.isroot
                fmt = t_bools
                canon = lambda x: [bool(a) for a in x]                    # noqa: E731
                want = D[name]
            elif name == "depth":
                tok = "depth"
                call = F.depth_from_leaves
                fmt = t_nats
                canon = lambda x: [int(a) for a in x]                     # noqa: E731
                want = D["hts"]
            elif name == "tdepth":
                tok = "tdepth"
                call = F.tree_depth
                fmt = lambda x: str(int(x))                               # noqa: E731
                canon = int
                want = max(D["hts"]) + 1
            elif name == "check":
                tok = "check"
                call = F.check
                fmt = lambda x: str(int(x))                               # noqa: E731
                canon = int
                want = 1
            elif name == "cc":
                tok = "cc"
                call = F.cc
                fmt = t_nats
                canon = lambda x: [int(a) for a in x]                     # noqa: E731
                want = comp_labels(D)
            elif name == "cch":
                tok = "cch"
                call = F.compute_children
                fmt = lambda x: "none"                                    # noqa: E731
                canon = lambda x: None                                    # noqa: E731
            elif name == "dga":
                tok = "dga"
                call = F.define_graph_attributes
                fmt = lambda x: "none"                                    # noqa: E731
                canon = lambda x: None                                    # noqa: E731
            elif name == "sub":
                bits, repl, dt, badsize = step[1], bool(step[2]), step[3], bool(step[4])
                n = V + 1 if badsize else V
                vb = [(bits * (1 + n // len(bits)))[k] for k in range(n)]
                valid = np.array(vb, dtype=bool if dt == "bool" else np.int_)
                tok = f"sub {int(repl)} {n} " + " ".join(map(str, vb))
                label = f"subforest({vb})" + (" [continue on it]" if repl else "")
                valid_args = (not badsize) and sum(vb) > 0
                call = lambda: F.subforest(valid)                         # noqa: E731
                fmt = lambda S: t_nats(S.parents)                         # noqa: E731
                canon = lambda S: [int(a) for a in S.parents]             # noqa: E731
                if valid_args:
                    keep = [v for v in range(V) if vb[v]]
                    want = [keep.index(ps[v]) if vb[ps[v]] else keep.index(v) for v in keep]
            elif name == "merge":
                repl = bool(step[1])
                tok = f"merge {int(repl)}"
                label = "merge_simple_branches()" + (" [continue on it]" if repl else "")
                call = F.merge_simple_branches
                fmt = lambda S: t_nats(S.parents)                         # noqa: E731
                canon = lambda S: [int(a) for a in S.parents]             # noqa: E731
                vb = [len(k) != 1 for k in D["kids"]]
                keep = [v for v in range(V) if vb[v]]
                want = [keep.index(ps[v]) if vb[ps[v]] else keep.index(v) for v in keep]
            elif name == "dist":
                r = step[1]
                if r is None:
                    seed, seeds, tok = None, list(range(V)), "dist 0"
                elif isinstance(r, int):
                    seed, seeds = r % V, [r % V]
                    tok = f"dist 1 1 {seed}"
                else:
                    seeds = [x % V for x in r]
                    seed = np.array(seeds, dtype=np.intp)
                    tok = f"dist 1 {len(seeds)} " + " ".join(map(str, seeds))
                label = f"all_distances({r if r is None else seeds})"
                call = lambda: F.all_distances(seed)                      # noqa: E731
                canon = lambda x: [[None if np.isinf(a) else int(a) for a in row]   # noqa: E731
                                   for row in np.atleast_2d(x).tolist()]
                fmt = lambda x: "[" + " ; ".join(" ".join("inf" if a is None else str(a) for a in row)   # noqa: E731
                                                 for row in canon(x)) + "]"
                if any(ps[v] != v for v in range(V)):
                    want = [[tree_dist(D, ps, s, v) for v in range(V)] for s in seeds]
            elif name == "reorder":
                tok = None          # needs the order the implementation returns
                call = F.reorder_from_leaves_to_roots
                fmt = t_nats
                canon = lambda x: [int(a) for a in x]                     # noqa: E731
            elif name == "lst":
                raws, custom, anynode, how = step[1], bool(step[2]), bool(step[3]), step[4]
                pool = list(range(V)) if anynode else leaves
                ids = list(dict.fromkeys(pool[x % len(pool)] for x in raws))
                tok = f"lst {int(custom)} {len(ids)} " + " ".join(map(str, ids))
                label = f"leaves_of_a_subtree({ids}, custom={custom})"
                valid_args = all(D["leaf"][i] for i in ids)
                arg = ids if how == "list" else np.array(ids, dtype=np.int_)
                call = lambda: F.leaves_of_a_subtree(arg, custom)         # noqa: E731
                fmt = lambda x: str(int(bool(x)))                         # noqa: E731
                canon = lambda x: bool(x)                                 # noqa: E731
                if valid_args and not custom:
                    common = [a for a in D["anc"][ids[0]] if all(a in D["anc"][i] for i in ids)]
                    below = [u for u in D["desc"][common[0]] if D["leaf"][u]] if common else leaves
                    want = all(u in ids for u in below)
            elif name == "pand":
                bits, bad = step[1], bool(step[2])
                n = V + 1 if bad else V
                pb = [(bits * (1 + n // len(bits)))[k] for k in range(n)]
                tok = f"pand {n} " + " ".join(map(str, pb))
                label = f"propagate_upward_and({pb})"
                valid_args = not bad
                parr = np.array(pb, dtype=bool)
                call = lambda: F.propagate_upward_and(parr)               # noqa: E731
                fmt = t_bools
                canon = lambda x: [bool(a) for a in x]                    # noqa: E731
            elif name == "pup":
                labs, bad = step[1], bool(step[2])
                n = V + 1 if bad else V
                lb = [(labs * (1 + n // len(labs)))[k] for k in range(n)]
                tok = f"pup {n} " + " ".join(map(str, lb))
                label = f"propagate_upward({lb})"
                valid_args = not bad
                larr = np.array(lb, dtype=np.int_)
                call = lambda: F.propagate_upward(larr)                   # noqa: E731
                fmt = t_nats
                canon = lambda x: [int(a) for a in x]                     # noqa: E731
            else:
                raise KeyError(name)
        except KeyError:
            raise
        # ---------------------------------------------------------------- call
        cont = (name == "sub" and bool(step[2])) or (name == "merge" and bool(step[1]))
        tags.append("op=" + name + ("+continue" if cont else ""))
        try:
            ret = call()
            ok = True
        except Exception as e:   # noqa: BLE001
            ok = False
            err = e
        trail.append(label)
        nsteps += 1
        if ok:
            val = canon(ret)
            if name == "reorder":
                tok = f"reorder {len(val)} " + " ".join(map(str, val))
                newp = [int(x) for x in F.parents]
                if sorted(val) != list(range(V)):
                    fail(f"reorder_from_leaves_to_roots returned a non-permutation {val}")
                else:
                    io = {o: i for i, o in enumerate(val)}
                    if any(newp[io[v]] != io[ps[v]] for v in range(V)):
                        fail(f"reordering does not preserve ancestry: parents {ps} order {val} -> {newp}")
                    elif any(newp[i] < i for i in range(V)):
                        fail(f"after reordering parents {ps} a parent precedes its child: {newp}")
            elif want is not None and val != want:
                fail(f"{label} returned {val}; by the direct definition on parents {ps} it is {want}")
            elif name == "pand":
                for v in range(V):
                    w_ = bool(parr[v]) if not D["kids"][v] else all(val[u] for u in D["kids"][v])
                    if val[v] != w_:
                        fail(f"{label}: node {v} is {val[v]} but the and of its children is {w_} (parents {ps})")
                        break
            elif name == "pup":
                for v in sorted(range(V), key=lambda x: D["hts"][x]):
                    ks = {val[u] for u in D["kids"][v]}
                    w_ = ks.pop() if len(ks) == 1 else int(larr[v])
                    if val[v] != w_:
                        fail(f"{label}: node {v} has label {val[v]}, documented rule gives {w_} (parents {ps})")
                        break
            text = fmt(ret)
            if cont:
                F = ret                      # the history continues on the returned forest
        else:
            text = errname(err)
            if name == "reorder":
                tok = "reorder 0"
            if valid_args:
                fail(f"{label} raised {type(err).__name__}: {err} (parents {ps})")
        toks.append(tok)
        obs.append(text + " ~ " + state_text(F))
        bad = sweep(F, trail)
        if bad and not fails:
            fails.append(bad)
    line = f"fhist {V0} " + " ".join(map(str, ps0)) + f" {len(toks)} " + " ".join(toks)
    tags.append("hist-len=" + str(min(nsteps, 12)))
    return {"lines": [line], "impl": [("hist", " # ".join(obs))], "oracle": fails[0] if fails else None,
            "nontrivial": any(ps0[v] != v for v in range(V0)) and nsteps >= 3, "tags": tags, "mutated": None}


def compare_hist(val, model_out):
    a, b = val.split(" # "), model_out.split(" # ")
    if len(a) != len(b):
        return f"history length impl={len(a)} model={len(b)}: model says {model_out[:200]!r}"
    for k, (x, y) in enumerate(zip(a, b)):
        if norm(x) != norm(y):
            return f"step {k}: impl={x!r} model={y!r}"
    return None


def shrink_hist(case):
    steps = case["steps"]
    for k in range(len(steps) - 1, -1, -1):          # drop one step
        yield dict(case, steps=steps[:k] + steps[k + 1:])
    ps = case["parents"]
    V = len(ps)
    if V > 1:
        for v in range(V - 1, -1, -1):               # remove a node nobody points to
            if all(ps[u] != v or u == v for u in range(V)):
                ren = lambda x: x - (x > v)           # noqa: E731
                yield dict(case, parents=[ren(ps[u]) for u in range(V) if u != v])
