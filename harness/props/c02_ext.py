"""C02, third part — case kinds added in wave 3 (model: lean/NipyVerif/Model/C02C.lean).

progx      programs over the whole operation language on a store of objects: every operation of the
           histories, indices of every kind (None, lists / arrays, floats / strings, NumPy integers),
           rollimg(..., fix0), ImageList.from_image(...)[a:b:c]...[i], re-observation of objects made
           earlier, data access (get_fdata / np.asarray / __array__), iter_axis(asarray=True) elements,
           from_image(...).get_list_data(axis) - interleaved on any object made so far
acm        ArrayCoordMap(cmap, shape)[slicers] by itself (its own error order), values, transposed_values
grid       Grid(cmap)[np.ogrid notation] (real and complex steps), fromshape: ArrayCoordMap.from_shape
xyzaff     xyz_affine(img): the matrix
ornto      io_orientation of affines with mutually orthogonal columns, computed by the model alone
rt         round trips (rollimg there and back, rollaxis + inverse, reorder + inverse order, rename +
           rename back, synchronized_order with the original): the image comes back exactly
"""
from __future__ import annotations

import copy
import math
import random
import warnings
from fractions import Fraction

import numpy as np

from harness.util import Snapshot, errname, fr


def B():
    from harness.props import C02 as base
    return base


# ----------------------------------------------------------------------
# generation
# ----------------------------------------------------------------------
def gen_xatoms(rng, shape):
    """an index tuple with at least one entry that is not int / slice / Ellipsis, or NumPy integers"""
    b = B()
    nd = len(shape)
    atoms = [b.gen_atom(rng, n) for n in shape]
    r = rng.random()
    if r < 0.25:
        atoms = atoms[: rng.randrange(0, nd + 1)]
    elif r < 0.5:
        i = rng.randrange(0, nd + 1); j = rng.randrange(i, nd + 1)
        atoms = atoms[:i] + [["E"]] + atoms[j:]
    k = rng.random()
    pos = rng.randrange(0, len(atoms) + 1)
    if k < 0.35:
        atoms.insert(pos, ["N"])
        if rng.random() < 0.2:
            atoms.insert(rng.randrange(0, len(atoms) + 1), ["N"])
    elif k < 0.6 and 0 not in shape:
        # a list / array in place of one axis entry (in range for every axis length >= 1)
        cand = [i for i, a in enumerate(atoms) if a[0] in ("I", "S")]
        what = rng.choice([[0], [0, 0], "a0", "a00"])
        if cand:
            atoms[rng.choice(cand)] = ["F", what]
        elif len([a for a in atoms if a[0] != "E"]) < nd:
            atoms.insert(pos, ["F", what])
        else:
            atoms.insert(pos, ["N"])
    elif k < 0.8:
        what = rng.choice([1.5, 0.0, "i", "x"])
        cand = [i for i, a in enumerate(atoms) if a[0] in ("I", "S")]
        if cand and rng.random() < 0.7:
            atoms[rng.choice(cand)] = ["R", what]
        else:
            atoms.insert(pos, ["R", what])
    else:
        # NumPy integer scalars as indices / slice bounds: plain integers to the model
        for a in atoms:
            if a[0] == "I":
                a.append(rng.choice(["i8", "i4", "i2", "u1"]) if a[1] >= 0 else rng.choice(["i8", "i4", "i1"]))
            elif a[0] == "S" and rng.random() < 0.5:
                a.append("i8")
    if rng.random() < 0.1:
        atoms.append(["I", 0])            # possibly too many
    return atoms


def py_index(atoms):
    out = []
    for a in atoms:
        k = a[0]
        if k == "I":
            out.append(np.dtype(a[2]).type(a[1]) if len(a) > 2 else int(a[1]))
        elif k == "S":
            if len(a) > 4:
                t = np.dtype(a[4]).type
                out.append(slice(*(None if v is None else t(v) for v in a[1:4])))
            else:
                out.append(slice(a[1], a[2], a[3]))
        elif k == "E":
            out.append(Ellipsis)
        elif k == "N":
            out.append(None)
        elif k == "F":
            w = a[1]
            out.append(np.array([0]) if w == "a0" else np.array([0, 0]) if w == "a00" else list(w))
        else:
            out.append(a[1])
    return tuple(out)


def t_xatoms(atoms):
    b = B()
    at = []
    for a in atoms:
        k = a[0]
        if k == "I":
            at.append("I %d" % a[1])
        elif k == "S":
            at.append("S %s %s %s" % (b.t_opt(a[1]), b.t_opt(a[2]), b.t_opt(a[3])))
        elif k == "E":
            at.append("E")
        elif k == "N":
            at.append("N")
        elif k == "F":
            at.append("F")
        else:
            at.append("R")
    return f"X {len(at)} " + " ".join(at)


def gen_sls(rng, n):
    """list slices applied one after the other to a list of n items"""
    sls = []
    for _ in range(rng.choice([0, 0, 1, 1, 2])):
        a = rng.choice([None, None] + list(range(-n - 2, n + 3)))
        b_ = rng.choice([None, None] + list(range(-n - 2, n + 3)))
        c = rng.choice([None, None, 1, 2, -1, -2, 3] + ([0] if rng.random() < 0.1 else []))
        sls.append([a, b_, c])
        if c != 0:
            n = len(range(*slice(a, b_, c).indices(n)))
    return sls, n


def gen_pop(rng, g):
    """one instruction of the extended language for the object `g` (an Image)"""
    b = B()
    shape, inn, outn = list(g.shape), list(g.axes.coord_names), list(g.reference.coord_names)
    n = len(shape)
    r = rng.random()
    if r < 0.36:
        return ["B", b.gen_op(rng, shape, inn, outn)]
    if r < 0.50:
        return ["X", gen_xatoms(rng, shape)]
    if r < 0.58:
        return ["RF", b.gen_axis(rng, n, inn, outn),
                b.gen_axis(rng, n, inn, outn) if rng.random() < 0.5 else rng.choice([0, n, n - 1]),
                rng.random() < 0.5]
    if r < 0.72:
        if n == 1 and rng.random() < 0.8:          # the slices of a 1-D image are not images
            return ["X", gen_xatoms(rng, shape)]
        ax = b.gen_axis(rng, n, inn, outn) if rng.random() < 0.97 else None
        nit = shape[ax] if isinstance(ax, int) and -n <= ax < n else rng.choice([1, 2, 3])
        sls, m = gen_sls(rng, nit)
        i = (rng.randrange(-m, m) if rng.random() < 0.85 else rng.choice([m, -m - 1])) if m else rng.choice([0, -1])
        return ["IM", ax, rng.random() < 0.6, sls, i]
    if r < 0.80:
        return ["OB"]
    if r < 0.87:
        return ["DA", rng.choice(["get_fdata", "asarray", "__array__"])]
    if r < 0.93:
        return ["IA", b.gen_axis(rng, n, inn, outn, allow_bad=rng.random() < 0.3), rng.randrange(0, 1 << 16)]
    od = n
    return ["LD", b.gen_axis(rng, n, inn, outn), rng.random() < 0.6,
            rng.choice([None] + list(range(-od - 1, od + 1)))]


def materialise_progx(case):
    b = B()
    warnings.filterwarnings("ignore")
    rng = random.Random(case["gen"])
    spec = b.gen_image(rng)
    img, _ = b.build_image(spec)
    objs, instrs = [img], []
    for _ in range(case["n"]):
        src = 0 if rng.random() < 0.4 else rng.randrange(len(objs))
        g = objs[src]
        pop = gen_pop(rng, g)
        try:
            res = run_pop(g, pop)
        except Exception:
            instrs.append([src, pop])
            continue
        if pop[0] == "B" and pop[1][0] == "IT":
            op = pop[1]
            op = ["IT", op[1], (op[2] % len(res)) if len(res) else 0, op[3]]
            res = res[op[2]] if res else None
            pop = ["B", op]
        if pop[0] == "IA":
            pop = ["IA", pop[1], (pop[2] % len(res)) if len(res) else 0]
        instrs.append([src, pop])
        if hasattr(res, "coordmap") and pop[0] != "OB":
            objs.append(res)
    return {"kind": "progx", "img": spec, "instrs": instrs}


# ----------------------------------------------------------------------
# the real code
# ----------------------------------------------------------------------
def run_pop(g, pop):
    """one instruction on the real code (IA: the list of all elements)"""
    b = B()
    from nipy.core.api import ImageList
    from nipy.core.image import image as im
    k = pop[0]
    if k == "B":
        return b.apply_op(g, pop[1])
    if k == "X":
        return g[py_index(pop[1])]
    if k == "RF":
        return im.rollimg(g, pop[1], pop[2], pop[3])
    if k == "IM":
        il = ImageList.from_image(g, pop[1], dropout=pop[2])
        for a, b_, c in pop[3]:
            il = il[slice(a, b_, c)]
        return il[int(pop[4])]
    if k == "OB":
        return g
    if k == "DA":
        return {"get_fdata": lambda: g.get_fdata(), "asarray": lambda: np.asarray(g.get_fdata()),
                "__array__": lambda: g.__array__()}[pop[1]]()
    if k == "IA":
        return list(im.iter_axis(g, pop[1], asarray=True))
    if k == "LD":
        return ImageList.from_image(g, pop[1], dropout=pop[2]).get_list_data(axis=pop[3])
    raise ValueError("unknown instruction " + str(k))


def ilist_params(g, ax):
    """texts of the two orientation parameters of the model's `fromImage` and whether dropping the
    output axis contradicts the orientation of the slices (then any refusal is legal)"""
    b = B()
    n = g.ndim
    o_txt = b.t_orntsrc(g.affine)
    os_txt = "0"
    contradictory = False
    try:
        from nipy.core.reference.coordinate_map import io_axis_indices
        in_ax, _ = io_axis_indices(g.coordmap, ax) if ax is not None else (None, None)
    except Exception:
        in_ax = None
    if in_ax is not None and n >= 2 and -n <= in_ax < n:
        from nipy.core.image.image import rollimg
        sl_aff = np.asarray(rollimg(g, in_ax)[0].affine)
        os_txt = b.t_orntsrc(sl_aff, False)
        o_full = b.ornt_of(g.affine, True)
        out_ax = o_full[in_ax] if in_ax < len(o_full) else None
        contradictory = out_ax is not None and out_ax in b.ornt_of(sl_aff, False)
    return o_txt, os_txt, contradictory


def t_pop(pop, g):
    b = B()
    k = pop[0]
    if k == "B":
        return "B " + b.t_op(pop[1], g)
    if k == "X":
        return t_xatoms(pop[1])
    if k == "RF":
        return f"RF {b.t_axis(pop[1])} {b.t_axis(pop[2])} {1 if pop[3] else 0} {b.t_orntsrc(g.affine, pop[3])}"
    if k == "IM":
        o, os_, _ = ilist_params(g, pop[1])
        sl = " ".join(f"{b.t_opt(a)} {b.t_opt(b_)} {b.t_opt(c)}" for a, b_, c in pop[3])
        return (f"IM {b.t_optaxis(pop[1])} {1 if pop[2] else 0} {o} {os_} {len(pop[3])} {sl} {pop[4]}"
                ).replace("  ", " ")
    if k == "OB":
        return "OB"
    if k == "DA":
        return "DA"
    if k == "IA":
        return f"IA {b.t_axis(pop[1])} {pop[2]} {b.t_orntsrc(g.affine)}"
    if k == "LD":
        o, os_, _ = ilist_params(g, pop[1])
        return f"LD {b.t_optaxis(pop[1])} {1 if pop[2] else 0} {o} {os_} {b.t_opt(pop[3])}"
    raise ValueError(k)


def check_array(arr, data0, base, what):
    """an array handed out by a data access: every value is a value of the original image, none twice"""
    v = np.asarray(arr).ravel()
    k = v - base
    if np.any(k != np.round(k)) or np.any(k < 0) or np.any(k >= data0.size):
        return f"{what}: the array holds a value that is not in the original image"
    if len(set(k.astype(int).tolist())) != k.size:
        return f"{what}: a value of the original image appears more than once in the array"
    return None


def expect_x(atoms, shape):
    """'refuse' for every tuple holding something that is not int / slice / Ellipsis; None (decided by
    the plain rules) otherwise"""
    if any(a[0] in ("N", "F", "R") for a in atoms):
        return "refuse"
    return None


def plain_atoms(atoms):
    return [a[:2] if a[0] == "I" else a[:4] if a[0] == "S" else a for a in atoms]


def run_progx(self, c):
    b = B()
    from nipy.core.api import ImageList
    from nipy.core.image import image as im
    spec, instrs = c["img"], c["instrs"]
    img0, data0 = b.build_image(spec)
    base = spec.get("base", 0)
    objs = [img0]
    snaps = [b.img_snapshot(img0)]
    first_obs = [b.t_state(img0)]
    refmaps = [{nm: nm for nm in img0.reference.coord_names}]
    dropped = [False]
    toks, obs, tags = [], [], ["progx"]
    fail = mut = None
    ok_ops = 0
    for no, (src, pop) in enumerate(instrs):
        if src >= len(objs):
            toks.append(f"{src} OB"); obs.append("E error:indexError")
            continue
        g = objs[src]
        k = pop[0]
        what = f"instruction {no} ({k} on object {src})"
        toks.append(f"{src} " + t_pop(pop, g))
        arg_before = copy.deepcopy(pop)
        if k == "B":
            res, ob, tag, f, m, rm = self.one_op(g, pop[1], what, img0, data0, base, refmaps[src])
            if f and dropped[src] and "do not correspond to the original" in f:
                # the source had lost a reference coordinate (dropout): compare the others
                f = None
                if res is not None and hasattr(res, "coordmap"):
                    f = b.check_against_original(res, img0, data0, base, rm, what, may_drop=True)
            obs.append(ob); tags.append("B:" + tag)
            fail = fail or f
            mut = mut or m
            if res is not None:
                ok_ops += 1
                if hasattr(res, "coordmap"):
                    objs.append(res); snaps.append(b.img_snapshot(res)); refmaps.append(rm)
                    dropped.append(dropped[src]); first_obs.append(b.t_state(res))
            continue
        shape, inn, outn = list(g.shape), list(g.axes.coord_names), list(g.reference.coord_names)
        snap = b.img_snapshot(g)
        try:
            res = run_pop(g, pop)
        except Exception as e:   # noqa: BLE001 - every refusal is an observation
            cls = type(e).__name__
            obs.append("E " + errname(e)); tags.append(f"{k}:refused")
            exp = None
            if k == "X":
                exp = expect_x(pop[1], shape) or b.expect(["G", plain_atoms(pop[1]), False], shape, inn, outn)
                legal = b.LEGAL_REFUSALS + ("TypeError",)
            elif k == "RF":
                s = [b.axis_status(pop[1], inn, outn), b.axis_status(pop[2], inn, outn, True)]
                exp = "refuse" if "refuse" in s else ("either" if "either" in s else "ok")
                legal = b.LEGAL_REFUSALS
            elif k in ("IM", "LD"):
                st = b.axis_status(pop[1], inn, outn) if pop[1] is not None else "refuse"
                _, _, contra = ilist_params(g, pop[1])
                exp = "either"
                if st == "ok" and len(shape) >= 2 and not pop[2]:
                    # a valid axis, no dropping: only the list operations can refuse
                    if k == "IM":
                        nl = shape[pop[1] if isinstance(pop[1], int) else inn.index(pop[1])]
                        okl = True
                        for a, b_, c_ in pop[3]:
                            if c_ == 0:
                                okl = False
                                break
                            nl = len(range(*slice(a, b_, c_).indices(nl)))
                        exp = "ok" if okl and -nl <= pop[4] < nl else "either"
                    else:
                        exp = "ok" if pop[3] is not None and -len(shape) <= pop[3] < len(shape) else "either"
                elif st == "ok" and len(shape) >= 2 and pop[2] and cls not in ("AxisError", "IndexError", "ValueError"):
                    exp = "ok"
                if st == "ok" and len(shape) >= 2 and pop[2] and cls == "ValueError" and not contra \
                        and "number of axes implied" in str(e):
                    exp = "ok"            # the from_image + dropout defect family (singleton axes)
                legal = b.LEGAL_REFUSALS + ("KeyError", "AttributeError", "TypeError")
            elif k == "IA":
                exp = b.axis_status(pop[1], inn, outn)
                legal = b.LEGAL_REFUSALS
            else:
                exp, legal = "ok", ()
            if exp == "ok":
                fail = fail or (f"{what}: {cls}: {e} raised for a valid request {pop} on an image with shape "
                                f"{shape}, axes {inn}, reference {outn}, affine {np.asarray(g.affine).tolist()}")
            elif cls not in legal:
                fail = fail or f"{what}: unexpected {cls}: {e} for {pop}"
            if snap.changed():
                mut = mut or f"{what} changed its input image ({snap.changed()})"
            continue
        ok_ops += 1
        tags.append(f"{k}:ok")
        b.meta_probe(res, g)
        if snap.changed():
            mut = mut or f"{what} changed its input image ({snap.changed()})"
        if pop != arg_before:
            mut = mut or f"{what} changed the arguments it was given: {arg_before} -> {pop}"
        if k == "X":
            if expect_x(pop[1], shape) == "refuse":
                fail = fail or (f"{what}: index {pop[1]} holds an entry that is not int / slice / Ellipsis "
                                f"but was accepted")
            fail = fail or b.check_against_original(res, img0, data0, base, refmaps[src], what,
                                                    may_drop=dropped[src])
            obs.append(b.t_state(res))
            if hasattr(res, "coordmap"):
                objs.append(res); snaps.append(b.img_snapshot(res)); refmaps.append(refmaps[src])
                dropped.append(dropped[src]); first_obs.append(b.t_state(res))
        elif k == "RF":
            fail = fail or b.check_against_original(res, img0, data0, base, refmaps[src], what,
                                                    may_drop=dropped[src])
            obs.append(b.t_state(res))
            objs.append(res); snaps.append(b.img_snapshot(res)); refmaps.append(refmaps[src])
            dropped.append(dropped[src]); first_obs.append(b.t_state(res))
        elif k == "IM":
            fail = fail or b.check_against_original(res, img0, data0, base, refmaps[src], what,
                                                    may_drop=pop[2] or dropped[src])
            if not pop[2] and list(res.reference.coord_names) != outn:
                fail = fail or f"{what}: dropout=False changed the reference {outn} -> {list(res.reference.coord_names)}"
            # the item is the matching element of iter_axis
            try:
                il = ImageList.from_image(g, pop[1], dropout=False)
                for a, b_, c_ in pop[3]:
                    il = il[slice(a, b_, c_)]
                if not np.array_equal(np.asarray(il[int(pop[4])].get_fdata()), np.asarray(res.get_fdata())):
                    fail = fail or f"{what}: the data of the item depend on `dropout`"
            except Exception:
                pass
            obs.append(b.t_state(res))
            objs.append(res); snaps.append(b.img_snapshot(res))
            refmaps.append({nm: refmaps[src][nm] for nm in res.reference.coord_names if nm in refmaps[src]})
            dropped.append(dropped[src] or bool(pop[2])); first_obs.append(b.t_state(res))
        elif k == "OB":
            ob = b.t_state(res)
            if ob != first_obs[src]:
                fail = fail or (f"{what}: object {src} no longer shows what it showed when it was made: "
                                f"{first_obs[src][:120]!r} -> {ob[:120]!r}")
            obs.append(ob)
        elif k == "DA":
            a = np.asarray(res)
            if a.shape != tuple(g.shape) or not np.array_equal(a, np.asarray(g.get_fdata())):
                fail = fail or f"{what}: {pop[1]} does not give the data of the image"
            fail = fail or check_array(a, data0, base, what)
            obs.append(b.t_arr(a))
        elif k == "IA":
            kk = pop[2]
            els = list(im.iter_axis(g, pop[1]))
            if len(els) != len(res):
                fail = fail or f"{what}: asarray=True yields {len(res)} elements, asarray=False {len(els)}"
            elif kk < len(res):
                d = np.asarray(els[kk].get_fdata() if hasattr(els[kk], "coordmap") else els[kk])
                if np.asarray(res[kk]).shape != d.shape or not np.array_equal(np.asarray(res[kk]), d):
                    fail = fail or f"{what}: asarray=True element {kk} differs from the data of the image element"
            seen = [set(np.asarray(x).ravel().tolist()) for x in res]
            if sum(len(s) for s in seen) != int(np.prod(shape)) or len(set().union(*seen)) != int(np.prod(shape)):
                fail = fail or f"{what}: the arrays do not partition the values of the image"
            if kk < len(res):
                fail = fail or check_array(res[kk], data0, base, what)
                obs.append(b.t_arr(res[kk]))
            else:
                obs.append("E error:indexError")
        elif k == "LD":
            a = np.asarray(res)
            fail = fail or check_array(a, data0, base, what)
            if a.size != int(np.prod(shape)):
                fail = fail or f"{what}: get_list_data holds {a.size} of {int(np.prod(shape))} values"
            obs.append(b.t_arr(a))
    for i, s in enumerate(snaps):
        ch = s.changed()
        if ch:
            mut = mut or f"object {i} of the store changed after it was made ({ch})"
    if mut:
        fail = fail or mut
    line = "progx " + b.t_image(spec) + f" {len(toks)} " + " ".join(toks)
    return {"lines": [line] if toks else [], "impl": [obs] if toks else [], "oracle": fail,
            "nontrivial": ok_ops >= 1 and data0.size > 1,
            "tags": sorted(set(tags)) + [f"nd={data0.ndim}", f"objs={min(len(objs), 5)}",
                                         "dtype=" + spec.get("dtype", "f8"), "layout=" + spec.get("layout", "C")],
            "mutated": mut}


# ----------------------------------------------------------------------
# ArrayCoordMap / Grid
# ----------------------------------------------------------------------
def build_cmap(spec):
    from nipy.core.api import AffineTransform, CoordinateSystem
    return AffineTransform(CoordinateSystem(spec["in"], "voxels"), CoordinateSystem(spec["out"], "world"),
                           np.array(spec["aff"], dtype=float))


def t_acm_in(spec, shape):
    aff = np.array(spec["aff"], dtype=float)
    nout, nin = aff.shape[0] - 1, aff.shape[1] - 1
    return (f"{len(shape)} " + " ".join(str(s) for s in shape) + f" {nin} " + " ".join(spec["in"])
            + f" {nout} " + " ".join(spec["out"]) + f" {nout} {nin + 1} "
            + " ".join(fr(v) for v in aff[:-1].ravel().tolist())).replace("  ", " ")


def t_acm(a):
    cm = a.coordmap
    aff = np.asarray(cm.affine)
    head = ("K " + " ".join(str(s) for s in a.shape) + " | " + " ".join(cm.function_domain.coord_names) + " | "
            + " ".join(cm.function_range.coord_names) + " | "
            + " ".join(fr(v) for v in aff[:-1].ravel().tolist()) + " | ")
    try:
        v = np.asarray(a.values)
        t = np.asarray(a.transposed_values)
    except Exception as e:   # noqa: BLE001
        return head + "E " + errname(e), None, None
    return (head + " ".join(fr(x) for x in v.ravel().tolist()) + " | "
            + " ".join(fr(x) for x in t.ravel().tolist())), v, t


def run_acm(self, c):
    b = B()
    from nipy.core.reference.array_coords import ArrayCoordMap
    spec, shape, atoms = c["img"], c["shape"], c["sl"]
    cm = build_cmap(spec)
    nd = len(spec["in"])
    fail = None
    tags = []
    a = ArrayCoordMap(cm, tuple(shape))
    idx = b.py_slicer(atoms, c.get("bare", False))
    exp = b.expect(["G", atoms, False], shape, spec["in"], spec["out"]) if len(shape) == nd else "either"
    try:
        r = a[idx]
        ob, v, t = t_acm(r)
        tags.append("acm:ok")
        if exp == "refuse":
            fail = f"ArrayCoordMap.__getitem__ accepted the invalid index {atoms} for shape {shape}"
        if v is not None and len(shape) == nd:
            # every row of values is the world position of the array index it stands for
            I = np.indices(tuple(shape))
            orig = np.array([np.asarray(I[k][idx]).ravel() for k in range(nd)]).T.astype(float)
            want = np.asarray(cm(orig)).reshape(orig.shape[0], -1) if orig.size else np.zeros((0, len(spec["out"])))
            tol = 1e-9 * (1 + (float(np.abs(want).max()) if want.size else 0))
            if v.shape != want.shape or (want.size and np.abs(v - want).max() > tol):
                fail = fail or (f"ArrayCoordMap{list(shape)}[{atoms}].values are not the world positions of "
                                f"the selected array indices")
            if t.shape != (len(spec["out"]),) + tuple(r.shape) or \
                    not np.array_equal(t.reshape(len(spec["out"]), -1).T, v):
                fail = fail or "transposed_values is not values in np.indices layout"
        elif v is None and len(r.shape) > 0:
            fail = fail or f"ArrayCoordMap.values raised for shape {r.shape}"
    except Exception as e:   # noqa: BLE001
        ob = "E " + errname(e)
        tags.append("acm:refused")
        if exp == "ok":
            fail = f"ArrayCoordMap{list(shape)}[{atoms}]: {type(e).__name__}: {e} for a valid index"
        elif type(e).__name__ not in ("ValueError", "IndexError"):
            fail = f"ArrayCoordMap.__getitem__: unexpected {type(e).__name__}: {e}"
    at = []
    for x in atoms:
        at.append("I %d" % x[1] if x[0] == "I" else ("E" if x[0] == "E" else
                  "S %s %s %s" % (b.t_opt(x[1]), b.t_opt(x[2]), b.t_opt(x[3]))))
    line = "acm " + t_acm_in(spec, shape) + f" {len(at)} " + " ".join(at)
    return {"lines": [line], "impl": [[ob]], "oracle": fail, "nontrivial": ob[0] == "K",
            "tags": tags, "mutated": None}


def gspec_points(s):
    """the points np.ogrid makes of one slice, independently: (list of Fractions) or an error name"""
    if s[0] == "T":
        a, b_, st = s[1], s[2], s[3]
        if b_ is None:
            return "AttributeError"
        a = Fraction(0) if a is None else Fraction(a)
        st = Fraction(1) if st is None else Fraction(st)
        if st == 0:
            return "ZeroDivisionError"
        n = max(0, math.ceil((Fraction(b_) - a) / st))
        return [a + k * st for k in range(n)]
    a, b_, n = Fraction(s[1]), Fraction(s[2]), s[3]
    if n == 1:
        return [a]
    return [a + k * (b_ - a) / (n - 1) for k in range(n)]


def t_gspec(s):
    o = lambda v: "_" if v is None else fr(v)   # noqa: E731
    if s[0] == "T":
        return f"T {o(s[1])} {o(s[2])} {o(s[3])}"
    return f"J {fr(s[1])} {fr(s[2])} {s[3]}"


def run_grid(self, c):
    from nipy.core.reference.array_coords import ArrayCoordMap, Grid
    spec = c["img"]
    cm = build_cmap(spec)
    nd = len(spec["in"])
    fail = None
    if c["kind"] == "fromshape":
        shape = c["shape"]
        call = lambda: ArrayCoordMap.from_shape(cm, tuple(shape))   # noqa: E731
        specs = [["T", 0, s, 1] for s in shape]
        line = "fromshape " + t_acm_in(spec, []) + f" {len(shape)} " + " ".join(map(str, shape))
    else:
        specs = c["specs"]
        sl = tuple(slice(None if s[1] is None else float(s[1]), None if s[2] is None else float(s[2]),
                         None if s[3] is None else float(s[3])) if s[0] == "T"
                   else slice(float(s[1]), float(s[2]), complex(0, s[3])) for s in specs)
        if c.get("ints"):
            sl = tuple(slice(*(None if v is None else int(v) for v in (x.start, x.stop, x.step)))
                       if not isinstance(x.step, complex) else x for x in sl)
        src = cm.function_domain if c.get("from_cs") else cm
        call = lambda: Grid(src)[sl]   # noqa: E731
        line = "grid " + t_acm_in(spec if not c.get("from_cs") else
                                  dict(spec, out=spec["in"], aff=np.eye(nd + 1).tolist()), []) \
            + f" {len(specs)} " + " ".join(t_gspec(s) for s in specs)
    pts = [gspec_points(s) for s in specs]
    errs = [p for p in pts if isinstance(p, str)]
    if errs:
        want_err = errs[0]
    elif len(specs) != nd:
        want_err = "ValueError"
    elif any(len(p) == 0 for p in pts):
        want_err = "IndexError"
    else:
        want_err = None
    try:
        r = call()
        ob, v, t = t_acm(r)
        if want_err:
            fail = f"{c['kind']}: accepted {specs} although {want_err} was expected"
        else:
            if tuple(r.shape) != tuple(len(p) for p in pts):
                fail = f"{c['kind']}: shape {r.shape} for {specs}"
            else:
                import itertools
                P = np.array([[float(x) for x in tup] for tup in itertools.product(*pts)])
                base_cm = cm if not c.get("from_cs") else None
                want = np.asarray(base_cm(P)).reshape(P.shape[0], -1) if base_cm is not None else P
                tol = 1e-9 * (1 + (float(np.abs(want).max()) if want.size else 0))
                if v is None or v.shape != want.shape or np.abs(v - want).max() > tol:
                    fail = f"{c['kind']}: values are not the coordinate map at the grid points of {specs}"
    except Exception as e:   # noqa: BLE001
        ob = "E " + errname(e)
        if want_err is None:
            fail = f"{c['kind']}: {type(e).__name__}: {e} for the valid request {specs}"
        elif type(e).__name__ != want_err:
            fail = f"{c['kind']}: {type(e).__name__}: {e} where {want_err} was expected for {specs}"
    return {"lines": [line], "impl": [[ob]], "oracle": fail, "nontrivial": ob[0] == "K",
            "tags": [c["kind"] + ":" + ("ok" if ob[0] == "K" else "refused")], "mutated": None}


# ----------------------------------------------------------------------
# xyz_affine
# ----------------------------------------------------------------------
def run_xyzaff(self, c):
    b = B()
    from nipy.core.image.image_spaces import is_xyz_affable, xyz_affine
    spec = c["img"]
    img, data0 = b.build_image(spec)
    snap = b.img_snapshot(img)
    fail = None
    try:
        M = np.asarray(xyz_affine(img, b.N2X))
        ob = "M " + " ".join(fr(v) for v in M.ravel().tolist())
        if not is_xyz_affable(img, b.N2X):
            fail = "xyz_affine succeeded but is_xyz_affable says False"
        # the matrix gives the x, y, z of every voxel from its first three indices alone
        idx = np.indices(data0.shape).reshape(data0.ndim, -1).T.astype(float)
        w = np.asarray(img.coordmap(idx)).reshape(idx.shape[0], -1)
        h = np.concatenate([idx[:, :3], np.ones((idx.shape[0], 1))], axis=1)
        got = h @ M.T
        tol = 1e-9 * (1 + float(np.abs(w).max()))
        if M.shape != (4, 4) or np.abs(got[:, :3] - w[:, :3]).max() > tol or not np.array_equal(M[3], [0, 0, 0, 1]):
            fail = fail or "xyz_affine does not give the x, y, z coordinates of the voxels"
        names = list(img.reference.coord_names)[:3]
        if [b.N2X.get(nm) for nm in names] != ["x", "y", "z"]:
            fail = fail or f"xyz_affine accepted an image whose first three reference coordinates are {names}"
    except Exception as e:   # noqa: BLE001
        ob = "E " + errname(e)
        if type(e).__name__ not in ("AxesError", "AffineError"):
            fail = f"xyz_affine: unexpected {type(e).__name__}: {e}"
        if is_xyz_affable(img, b.N2X):
            fail = fail or "xyz_affine raised but is_xyz_affable says True"
    mut = None
    if snap.changed():
        mut = f"xyz_affine changed the image ({snap.changed()})"
    pairs = sorted((a, b.XYZI[x]) for a, x in b.N2X.items())
    line = ("xyzaff " + b.t_image(spec) + f" {len(pairs)} " + " ".join(f"{a} {x}" for a, x in pairs)
            + " " + b.t_orntsrc(img.affine, False))
    return {"lines": [line], "impl": [[ob]], "oracle": fail or mut, "nontrivial": True,
            "tags": ["xyzaff:" + ("ok" if ob[0] == "M" else "refused")], "mutated": mut}


# ----------------------------------------------------------------------
# io_orientation of affines with orthogonal columns
# ----------------------------------------------------------------------
ROTS = [(3, 4), (4, 3), (1, 2), (2, 1), (1, 3), (5, 12), (2, 3), (1, 4)]


def gen_orth(rng):
    """(nout x nin) integer / dyadic matrix with mutually orthogonal columns"""
    n = rng.choice([2, 3, 3, 3, 4])
    M = np.eye(n)
    for _ in range(rng.choice([1, 1, 2, 3])):
        i, j = rng.sample(range(n), 2)
        a, b_ = rng.choice(ROTS)
        if rng.random() < 0.5:
            b_ = -b_
        G = np.eye(n)
        G[i, i] = a; G[j, j] = a; G[i, j] = -b_; G[j, i] = b_
        for k in range(n):
            if k not in (i, j):
                G[k, k] = rng.choice([1, 1, 2, 5])      # any scaling of the other axes keeps columns orthogonal
        M = G @ M if rng.random() < 0.5 else M @ G
        # left multiplication by a non-conformal G breaks orthogonality of columns: re-check below
    p = list(range(n)); rng.shuffle(p)
    M = M[:, p]
    for k in range(n):
        M[:, k] *= rng.choice([1, 1, 2, 0.5, -1, 0.25, 3])
    if rng.random() < 0.2:
        M[:, rng.randrange(n)] = 0
    if rng.random() < 0.2:
        M = M[:, : n - 1]
    if rng.random() < 0.15:
        M = np.vstack([M, np.zeros((1, M.shape[1]))])
    q = list(range(M.shape[0])); rng.shuffle(q)
    return M[q]


def orth_status(A):
    """'orth' when the columns are mutually orthogonal and every comparison io_orientation makes on
    them is decided with a margin (unique largest entry per column, different columns prefer different
    rows); 'tie' when orthogonal but some comparison is a tie (rounding decides); None otherwise"""
    F = [[Fraction(float(x)) for x in row] for row in A]
    q, p = len(F), len(F[0]) if F else 0
    cols = [[F[r][k] for r in range(q)] for k in range(p)]
    for i in range(p):
        for j in range(i + 1, p):
            if sum(x * y for x, y in zip(cols[i], cols[j])) != 0:
                return None
    rows = []
    for cidx in range(p):
        m = [abs(x) for x in cols[cidx]]
        if max(m, default=0) == 0:
            continue
        if m.count(max(m)) > 1:
            return "tie"
        rows.append(m.index(max(m)))
    if len(set(rows)) != len(rows):
        return "tie"
    return "orth"


def run_ornto(self, c):
    b = B()
    from nipy.core.reference.coordinate_map import _fix0
    A = np.array(c["A"], dtype=float)
    q, p = A.shape
    aff = np.zeros((q + 1, p + 1)); aff[:q, :p] = A; aff[q, p] = 1
    fix = c["fix"]
    a = np.asarray(_fix0(aff) if fix else aff, dtype=float)
    o = b.ornt_of(aff, fix)
    got = "O " + " ".join(b.t_opt(v) for v in o)
    st = orth_status(a[:q, :p])
    lines, impl, tags = [], [], []
    R, keys = b.polar_and_keys(a)
    lines.append("ornt " + b.t_mat(R) + f" {len(keys)} " + " ".join(fr(v) for v in keys.tolist()))
    impl.append([got]); tags.append("ornt:polar")
    fail = None
    if st == "orth":
        lines.append("ornto " + b.t_mat(A) + f" {1 if fix else 0}")
        impl.append([got]); tags.append("ornto:orth")
        # for orthogonal columns the column-normalised matrix is its own polar factor
        z = np.sqrt((a[:q, :p] ** 2).sum(axis=0)); z[z == 0] = 1
        if R.shape != (q, p) or np.abs(R - a[:q, :p] / z).max() > 1e-9:
            fail = "io_orientation: polar factor of an affine with orthogonal columns differs from the normalised columns"
        want = [None if not np.any(a[:q, k]) else int(np.argmax(np.abs(a[:q, k]))) for k in range(p)]
        if o != want:
            fail = fail or f"io_orientation {o} is not the dominant output axis of every input axis {want}"
    else:
        tags.append("ornto:" + str(st))
    vals = [v for v in o if v is not None]
    if len(set(vals)) != len(vals):
        fail = fail or f"io_orientation pairs one output axis with two input axes: {o}"
    return {"lines": lines, "impl": impl, "oracle": fail, "nontrivial": st == "orth", "tags": tags, "mutated": None}


# ----------------------------------------------------------------------
# round trips
# ----------------------------------------------------------------------
def gen_rt(rng):
    b = B()
    spec = b.gen_image(rng, small=True)
    n = len(spec["shape"])
    inn, outn = spec["in"], spec["out"]
    k = rng.choice(["rollimg", "rollimg", "rollimg-name", "rollaxis", "reorder", "reorder-ref", "rename", "sync",
                    "rollimg-any"])
    a = rng.randrange(n)
    if k == "rollimg-name" and inn[a] in outn:
        k = "rollimg"                      # a name on both sides may legally be refused
    if k == "rollaxis" and len(outn) != n:
        k = "rollimg-any"                  # rollaxis reorders the reference with the same order
    if k == "rollimg":
        ops = [["RI", rng.choice([a, a - n]), 0], ["RI", 0, a + 1]]
    elif k == "rollimg-name":
        ops = [["RI", inn[a], 0], ["RI", 0, a + 1]]
    elif k == "rollimg-any":
        s = rng.randrange(n + 1)
        pos = s - 1 if a < s else s          # where axis `a` sits after rollimg(img, a, s)
        ops = [["RI", a, s], ["RI", pos, a + 1 if pos < a else a]]
    elif k == "rollaxis":
        ops = [["RX", rng.choice([a, a - n] + ([inn[a]] if inn[a] not in outn else [])), False], ["RX", a, True]]
    elif k == "reorder":
        p = list(range(n)); rng.shuffle(p)
        inv = [p.index(i) for i in range(n)]
        ops = [["RA", p if rng.random() < 0.5 else [inn[i] for i in p]], ["RA", inv]]
    elif k == "reorder-ref":
        m = len(outn)
        p = list(range(m)); rng.shuffle(p)
        inv = [p.index(i) for i in range(m)]
        ops = [["RR", p if rng.random() < 0.5 else [outn[i] for i in p]], ["RR", inv]]
    elif k == "rename":
        which = rng.choice(["NA", "NR"])
        names = inn if which == "NA" else outn
        ks = rng.sample(names, rng.randrange(1, len(names) + 1))
        new = ["q%d" % i for i in range(len(ks))]
        ops = [[which, [[x, y] for x, y in zip(ks, new)]], [which, [[y, x] for x, y in zip(ks, new)]]]
    else:
        p = list(range(n)); rng.shuffle(p)
        m = len(outn)
        q = list(range(m)); rng.shuffle(q)
        ops = [["RA", p], ["RR", q], ["SY", list(inn), list(outn), True, True]]
    return {"kind": "rt", "img": spec, "ops": ops, "what": k}


def run_rt(self, c):
    b = B()
    r = self.run_case({"kind": "seq", "img": c["img"], "ops": c["ops"]})
    img0, data0 = b.build_image(c["img"])
    img = img0
    try:
        for op in c["ops"]:
            img = b.apply_op(img, op)
    except Exception as e:   # noqa: BLE001
        r["oracle"] = r["oracle"] or f"round trip {c['what']} {c['ops']}: {type(e).__name__}: {e}"
        r["tags"] = r["tags"] + ["rt:" + c["what"]]
        return r
    same = (tuple(img.shape) == tuple(img0.shape)
            and list(img.axes.coord_names) == list(img0.axes.coord_names)
            and list(img.reference.coord_names) == list(img0.reference.coord_names)
            and np.array_equal(np.asarray(img.affine), np.asarray(img0.affine))
            and np.array_equal(np.asarray(img.get_fdata()), np.asarray(img0.get_fdata())))
    if not same or not (img == img0) or (img != img0):
        r["oracle"] = r["oracle"] or (f"round trip {c['what']} {c['ops']} does not give the image back: shape "
                                      f"{img.shape}, axes {img.axes.coord_names}, reference "
                                      f"{img.reference.coord_names}, affine {np.asarray(img.affine).tolist()}")
    r["tags"] = r["tags"] + ["rt:" + c["what"]]
    return r


# ----------------------------------------------------------------------
# generation of the helper cases
# ----------------------------------------------------------------------
def gen_rat(rng):
    return rng.choice([0, 1, 2, -1, 3, 0.5, -2.5, 4, 10, -7.25, 1.5])


def gen_gspec(rng, bad):
    r = rng.random()
    if bad and r < 0.3:
        return rng.choice([["T", 0, None, 1], ["T", 0, 2, 0], ["J", 0, 1, 0], ["T", 3, 0, 1], ["T", 0, 3, -1]])
    if r < 0.45:
        a, b_ = gen_rat(rng), gen_rat(rng)
        return ["J", a, b_, rng.choice([1, 2, 2, 3, 4, 5])]
    a = rng.choice([None, 0, 1, -2, 0.5, 3])
    st = rng.choice([None, 1, 1, 2, 0.5, -1, -0.5, 0.25, 3])
    n = rng.choice([1, 2, 3, 4])
    a0 = 0 if a is None else a
    s0 = 1 if st is None else st
    stop = a0 + s0 * n - rng.choice([0, 0, s0 * 0.5])
    return ["T", a, stop, st]


def generate(rng, tier):
    b = B()
    q = tier == "quick"
    nprogx, nacm, ngrid, nxyz, nornt, nrt = (1000, 500, 300, 250, 250, 400) if q else (9000, 6000, 3000, 2500, 2500, 4000)
    cases = []
    for _ in range(nprogx):
        cases.append({"kind": "progx", "gen": rng.randrange(1 << 40), "n": rng.choice([2, 3, 4, 5, 6, 8, 10])})
    for _ in range(nacm):
        spec = b.gen_image(rng, small=True)
        shape = list(spec["shape"])
        r = rng.random()
        atoms = b.gen_getitem(rng, shape)[1]
        if r < 0.1:
            rng.shuffle(atoms)                                   # refusals on several axes: order of errors
            atoms = atoms + [b.gen_atom(rng, 2, bad=True)]
        elif r < 0.25:
            j = rng.randrange(len(shape))
            atoms = [b.gen_atom(rng, n, bad=rng.random() < 0.5) for n in shape]
        elif r < 0.3:
            shape[rng.randrange(len(shape))] = 0                 # an empty axis in the source
        cases.append({"kind": "acm", "img": {k: spec[k] for k in ("in", "out", "aff")}, "shape": shape,
                      "sl": atoms, "bare": len(atoms) == 1 and rng.random() < 0.5})
    for _ in range(ngrid):
        spec = b.gen_image(rng, small=True)
        nd = len(spec["in"])
        cm = {k: spec[k] for k in ("in", "out", "aff")}
        if rng.random() < 0.35:
            shape = [rng.choice([1, 1, 2, 3, 4]) for _ in range(nd)]
            r = rng.random()
            if r < 0.1:
                shape[rng.randrange(nd)] = 0
            elif r < 0.2:
                shape = shape[:-1] if rng.random() < 0.5 else shape + [2]
            cases.append({"kind": "fromshape", "img": cm, "shape": shape})
        else:
            bad = rng.random() < 0.3
            specs = [gen_gspec(rng, bad) for _ in range(nd)]
            if bad and rng.random() < 0.3:
                specs = specs[:-1] if (nd > 1 and rng.random() < 0.5) else specs + [gen_gspec(rng, False)]
            ints = all(s[0] == "T" and all(v is None or float(v).is_integer() for v in s[1:]) for s in specs) \
                and rng.random() < 0.5
            cases.append({"kind": "grid", "img": cm, "specs": specs, "ints": ints, "from_cs": rng.random() < 0.1})
    for _ in range(nxyz):
        spec = b.gen_image(rng, small=True, nd=rng.choice([3, 3, 4, 4, 5, 2]))
        if rng.random() < 0.6:
            spec["out"] = rng.choice([list("xyztuv"), ["mx", "my", "mz", "t", "u", "v"], ["x", "my", "z", "t", "u", "v"],
                                      ["y", "x", "z", "t", "u", "v"]])[: len(spec["out"])]
        cases.append({"kind": "xyzaff", "img": spec})
    for _ in range(nornt):
        cases.append({"kind": "ornto", "A": gen_orth(rng).tolist(), "fix": rng.random() < 0.5})
    for _ in range(nrt):
        cases.append(gen_rt(rng))
    for _ in range(100 if q else 1500):
        cases.append(gen_xbool(rng))
    return cases


# ----------------------------------------------------------------------
# boolean selectors (oracle only: outside the model's index kinds)
# ----------------------------------------------------------------------
def gen_xbool(rng):
    b = B()
    spec = b.gen_image(rng, small=True)
    shape = spec["shape"]
    atoms = [b.gen_atom(rng, n) for n in shape]
    if rng.random() < 0.4:
        atoms = atoms[: rng.randrange(0, len(shape) + 1)]
    elif rng.random() < 0.3:
        i = rng.randrange(0, len(shape) + 1)
        atoms = atoms[:i] + [["E"]] + atoms[i + rng.randrange(0, 2):]
    what = rng.choice(["T", "F", "nT", "nF", "mask", "lmask", "m01", "score"])
    pos = rng.randrange(0, len(atoms) + 1)
    if what in ("mask", "lmask", "m01", "score") and atoms and rng.random() < 0.7:
        atoms[min(pos, len(atoms) - 1)] = ["B", what]
    else:
        atoms.insert(pos, ["B", what])
    return {"kind": "xbool", "img": spec, "atoms": atoms}


def bool_index(atoms, shape):
    """the index tuple: a Python / NumPy boolean, a boolean mask (array / list), a 0-1 integer list, a signed
    score array used as a selector"""
    out, ax = [], 0
    for a in atoms:
        if a[0] != "B":
            out.extend(py_index([a]))
            ax += a[0] in ("I", "S")
            continue
        n = shape[min(ax, len(shape) - 1)]
        w = a[1]
        if w in ("T", "F"):
            out.append(w == "T")
        elif w in ("nT", "nF"):
            out.append(np.bool_(w == "nT"))
        elif w == "mask":
            out.append(np.arange(n) % 2 == 0); ax += 1
        elif w == "lmask":
            out.append([bool(i % 2 == 0) for i in range(n)]); ax += 1
        elif w == "m01":
            out.append([int(i % 2 == 0) for i in range(n)]); ax += 1
        else:
            out.append(np.arange(n) - 1.0 > 0); ax += 1
    return out[0] if len(out) == 1 and atoms[0][0] == "B" else tuple(out)


def run_xbool(self, c):
    b = B()
    img0, data0 = b.build_image(c["img"])
    base = c["img"].get("base", 0)
    snap = b.img_snapshot(img0)
    idx = bool_index(c["atoms"], list(img0.shape))
    fail, tag, ok = None, "xbool:refused", False
    try:
        res = img0[idx]
    except Exception as e:   # noqa: BLE001 - every refusal of a boolean selector is legal
        if type(e).__name__ not in b.LEGAL_REFUSALS + ("TypeError",):
            fail = f"unexpected {type(e).__name__}: {e} for the boolean index {c['atoms']}"
    else:
        tag, ok = "xbool:accepted", True
        if hasattr(res, "coordmap"):
            fail = b.check_against_original(res, img0, data0, base, {nm: nm for nm in img0.reference.coord_names},
                                            f"index {c['atoms']}")
        else:
            fail = check_array(res, data0, base, f"index {c['atoms']}")
    if snap.changed():
        fail = fail or f"indexing with {c['atoms']} changed the image ({snap.changed()})"
    return {"lines": [], "impl": [], "oracle": fail, "nontrivial": ok and data0.size > 1,
            "tags": ["xbool", tag, "bool=" + next(a[1] for a in c["atoms"] if a[0] == "B")], "mutated": None}


RUNNERS = {"progx": run_progx, "acm": run_acm, "grid": run_grid, "fromshape": run_grid, "xyzaff": run_xyzaff,
           "ornto": run_ornto, "rt": run_rt, "xbool": run_xbool}
