"""C16 helper — every fff routine that writes through a view, run on views cut out of larger
parent buffers; the WHOLE parent is compared with the NumPy definition (inside the window = the
definition, outside = untouched bit for bit), the source parents must not change.

Families (one case = one layout pairing, every routine of the family):
  vec : fff_vector_* and level-1 BLAS on (offset, stride, tail) views of 1-D parents
  mat : fff_matrix_* (incl. row/col/diag/block views) and level-2/3 BLAS updating a sub-matrix
  arr : fff_array_* on strided / reversed / offset 4-D views of every datatype, with conversions

The model lines (`vop` / `mop` / `aop`) carry the parent buffers and the view geometry; the Lean
model (Model/C16B.lean) answers with the whole destination parent.
"""
from __future__ import annotations

import ctypes as C
import itertools

import numpy as np

from harness.util import fr, plist

DT = {"uint8": 0, "int8": 1, "uint16": 2, "int16": 3, "uint32": 4, "int32": 5, "uint64": 6, "int64": 7,
      "float32": 8, "float64": 9}
_SIGS = set()
EMIT_LINES = True


class FIt(C.Structure):
    _fields_ = [(n_, C.c_size_t) for n_ in ("idx", "size")] + [("data", C.c_void_p)] + \
               [(n_, C.c_size_t) for n_ in ("x", "y", "z", "t", "ddimY", "ddimZ", "ddimT", "incX", "incY", "incZ", "incT")] + \
               [("update", C.c_void_p)]


def sigs(lib, M):
    if id(lib) in _SIGS:
        return
    lib.fff_array_iterator_init_skip_axis.restype = FIt
    lib.fff_array_iterator_init_skip_axis.argtypes = [C.POINTER(M.FArr), C.c_int]
    PV, PM, PA = C.POINTER(M.FVec), C.POINTER(M.FMat), C.POINTER(M.FArr)
    D, Z, I = C.c_double, C.c_size_t, C.c_int
    lib.fff_vector_get.restype = D; lib.fff_vector_get.argtypes = [PV, Z]
    lib.fff_vector_set.argtypes = [PV, Z, D]
    lib.fff_vector_fetch.argtypes = [PV, C.c_void_p, I, Z]
    lib.fff_vector_wsum.restype = C.c_longdouble
    lib.fff_vector_wsum.argtypes = [PV, PV, C.POINTER(C.c_longdouble)]
    lib.fff_matrix_get.restype = D; lib.fff_matrix_get.argtypes = [PM, Z, Z]
    lib.fff_matrix_set.argtypes = [PM, Z, Z, D]
    for f in ("set_all", "set_scalar", "scale", "add_constant"):
        getattr(lib, "fff_matrix_" + f).argtypes = [PM, D]
    lib.fff_matrix_sum.restype = C.c_longdouble; lib.fff_matrix_sum.argtypes = [PM]
    lib.fff_matrix_row.restype = M.FVec; lib.fff_matrix_row.argtypes = [PM, Z]
    lib.fff_matrix_col.restype = M.FVec; lib.fff_matrix_col.argtypes = [PM, Z]
    lib.fff_matrix_diag.restype = M.FVec; lib.fff_matrix_diag.argtypes = [PM]
    lib.fff_matrix_block.restype = M.FMat; lib.fff_matrix_block.argtypes = [PM, Z, Z, Z, Z]
    lib.fff_matrix_get_row.argtypes = [PV, PM, Z]; lib.fff_matrix_get_col.argtypes = [PV, PM, Z]
    lib.fff_matrix_get_diag.argtypes = [PV, PM]
    lib.fff_matrix_set_row.argtypes = [PM, Z, PV]; lib.fff_matrix_set_col.argtypes = [PM, Z, PV]
    lib.fff_matrix_set_diag.argtypes = [PM, PV]
    for f in ("sub", "mul_elements", "div_elements"):
        getattr(lib, "fff_matrix_" + f).argtypes = [PM, PM]
    lib.fff_array_view.restype = M.FArr; lib.fff_array_view.argtypes = [I, C.c_void_p] + [Z] * 8
    lib.fff_array_set.argtypes = [PA] + [Z] * 4 + [D]
    lib.fff_array_set_all.argtypes = [PA, D]
    lib.fff_array_extrema.argtypes = [C.POINTER(D), C.POINTER(D), PA]
    lib.fff_array_copy.argtypes = [PA, PA]
    lib.fff_array_compress.argtypes = [PA, PA, D, D, D, D]
    for f in ("add", "sub", "mul", "div"):
        getattr(lib, "fff_array_" + f).argtypes = [PA, PA]
    lib.fff_array_clamp.argtypes = [PA, PA, D, C.POINTER(I)]
    lib.fff_array_iterate_vector_function.argtypes = [PA, I, C.c_void_p, C.c_void_p]
    lib.fff_blas_idamax.restype = Z; lib.fff_blas_idamax.argtypes = [PV]
    lib.fff_blas_dswap.argtypes = [PV, PV]; lib.fff_blas_dcopy.argtypes = [PV, PV]
    lib.fff_blas_drot.argtypes = [PV, PV, D, D]
    lib.fff_blas_dtrmv.argtypes = [I, I, I, PM, PV]; lib.fff_blas_dtrsv.argtypes = [I, I, I, PM, PV]
    lib.fff_blas_dsymv.argtypes = [I, D, PM, PV, D, PV]
    lib.fff_blas_dger.argtypes = [D, PV, PV, PM]
    lib.fff_blas_dsyr.argtypes = [I, D, PV, PM]
    lib.fff_blas_dsyr2.argtypes = [I, D, PV, PV, PM]
    _SIGS.add(id(lib))


class quiet_stderr:
    """FFF_WARNING / FFF_ERROR print to the C stderr: silence it around calls that take those branches on purpose"""

    def __enter__(self):
        import os, sys
        sys.stderr.flush()
        self.saved = os.dup(2)
        self.null = os.open(os.devnull, os.O_WRONLY)
        os.dup2(self.null, 2)

    def __exit__(self, *a):
        import os
        os.dup2(self.saved, 2); os.close(self.saved); os.close(self.null)


def dy(rs, shape, lo=-6, hi=7, den=4):
    """distinct-ish dyadic values, never 0 (so that an untouched / overwritten cell is visible)"""
    a = rs.randint(lo * den, hi * den, size=shape).astype(float) / den
    a[a == 0] = 0.25
    return a


def pw2(rs, shape):
    return rs.choice([0.5, 1.0, 2.0, -1.0, -2.0, 4.0, -0.5], size=shape)


# ----------------------------------------------------------------------
# views
# ----------------------------------------------------------------------
class VV:
    """vector view (off, n, stride) of a fresh 1-D parent"""

    def __init__(self, M, rs, n, lay, vals=None):
        off, st, tail = lay
        self.n, self.off, self.st = n, off, st
        size = off + (n - 1) * st + 1 + tail if n else off + tail + 1
        self.P = dy(rs, size)
        self.idx = off + st * np.arange(n)
        if vals is not None:
            self.P[self.idx] = vals
        self.P0 = self.P.copy()
        self.fv = M.FVec(n, st, C.cast(self.P.ctypes.data + 8 * off, C.POINTER(C.c_double)), 0)
        self.ref = C.byref(self.fv)

    @property
    def v(self):
        return self.P0[self.idx]

    def geom(self):
        return f"{self.off} {self.n} {self.st}"

    def desc(self):
        return f"vector view (offset {self.off}, size {self.n}, stride {self.st}) of a {self.P.size}-element parent"


class MV:
    """matrix view (r x c window at (top,left)) of a fresh C-contiguous 2-D parent"""

    def __init__(self, M, rs, r, c, lay, vals=None, parent=None, at=None):
        if parent is None:
            top, bot, left, right = lay
            self.P = dy(rs, (top + r + bot, left + c + right))
        else:
            self.P = parent; top, left = at
        self.r, self.c, self.top, self.left = r, c, top, left
        self.tda = self.P.shape[1]
        self.sl = (slice(top, top + r), slice(left, left + c))
        if vals is not None:
            self.P[self.sl] = vals
        self.P0 = self.P.copy()
        self.off = top * self.tda + left
        self.fm = M.FMat(r, c, self.tda, C.cast(self.P.ctypes.data + 8 * self.off, C.POINTER(C.c_double)), 0)
        self.ref = C.byref(self.fm)

    @property
    def v(self):
        return self.P0[self.sl]

    def geom(self):
        return f"{self.off} {self.r} {self.c} {self.tda}"

    def desc(self):
        return (f"{self.r}x{self.c} window at ({self.top},{self.left}) of a {self.P.shape[0]}x{self.P.shape[1]} parent "
                f"(tda {self.tda})")


def whole(name, dest, expected_window, sources=(), tol=1e-12):
    """compare the whole destination parent; returns a failure text or None"""
    P, P0 = dest.P, dest.P0
    E = P0.copy()
    if isinstance(dest, VV):
        E[dest.idx] = expected_window
        inside = np.zeros(P.shape, bool); inside[dest.idx] = True
    else:
        E[dest.sl] = expected_window
        inside = np.zeros(P.shape, bool); inside[dest.sl] = True
    out_bad = (P != E) & ~inside
    if out_bad.any():
        where = [tuple(int(t) for t in ix) for ix in np.argwhere(out_bad)[:4]]
        return (f"{name}: writes outside its view - destination {dest.desc()}: parent cells {where} changed "
                f"from {[float(P0[w]) for w in where]} to {[float(P[w]) for w in where]}")
    got, want = P[inside], E[inside]
    if not np.allclose(got, want, rtol=tol, atol=tol):
        k = int(np.argmax(~np.isclose(got, want, rtol=tol, atol=tol)))
        return (f"{name}: destination {dest.desc()}: window element #{k} = {float(got[k])!r}, the definition "
                f"gives {float(want[k])!r}")
    for s in sources:
        if not np.array_equal(s.P, s.P0):
            return f"{name}: modifies its source operand ({s.desc()})"
    return None


def restore(*views):
    for v in views:
        v.P[...] = v.P0


# ----------------------------------------------------------------------
# vectors
# ----------------------------------------------------------------------
def run_vec(M, c):
    lib = M.fffpy(); sigs(lib, M)
    rs = np.random.RandomState(c["seed"])
    n, a = c["n"], c["a"]
    X = VV(M, rs, n, c["lx"]); Y = VV(M, rs, n, c["ly"], vals=pw2(rs, n))
    x0, y0 = X.v.copy(), Y.v.copy()
    fails, lines, impl = [], [], []

    def rec(op, params=""):
        lines.append(f"vop {op} {fr(a)} {params}| {X.geom()} | {Y.geom()} | {plist(X.P0)} | {plist(Y.P0)}")
        impl.append(("rats", X.P.tolist(), 64.0))

    def chk(name, expected, dest=X, src=(Y,)):
        f = whole(name, dest, expected, [s for s in src if s is not dest])
        if f:
            fails.append(f)

    for nm, w in (("add", x0 + y0), ("sub", x0 - y0), ("mul", x0 * y0), ("div", x0 / y0), ("memcpy", y0)):
        getattr(lib, "fff_vector_" + nm)(X.ref, Y.ref)
        chk(f"fff_vector_{nm}", w); rec(nm); restore(X, Y)
    for nm, w in (("scale", a * x0), ("add_constant", a + x0), ("set_all", np.full(n, a))):
        getattr(lib, "fff_vector_" + nm)(X.ref, a)
        chk(f"fff_vector_{nm}", w); rec(nm); restore(X, Y)
    i = int(rs.randint(n))
    lib.fff_vector_set(X.ref, i, a)
    w = x0.copy(); w[i] = a
    chk(f"fff_vector_set(i={i})", w); rec("set", f"{i} "); restore(X, Y)
    g = lib.fff_vector_get(X.ref, i)
    if g != x0[i]:
        fails.append(f"fff_vector_get(i={i}) on a {X.desc()} = {g}, element is {x0[i]}")
    # typed fetch: x <- (double) buffer[k * stride]
    t = str(rs.choice(list(DT)))
    fst = int(rs.choice([1, 2, 3]))
    src = np.zeros(fst * n + 2, dtype=t)
    vals = rs.randint(0 if t.startswith("u") else -100, 100, size=n)
    src[0:fst * n:fst] = vals
    lib.fff_vector_fetch(X.ref, src.ctypes.data, DT[t], fst)
    chk(f"fff_vector_fetch({t}, stride {fst})", src[0:fst * n:fst].astype(float), src=())
    restore(X, Y)
    # BLAS level 1 in place
    lib.fff_blas_dscal(a, X.ref); chk("fff_blas_dscal", a * x0); rec("scale"); restore(X, Y)
    lib.fff_blas_daxpy(a, Y.ref, X.ref); chk("fff_blas_daxpy", a * y0 + x0); rec("axpy"); restore(X, Y)
    lib.fff_blas_dcopy(Y.ref, X.ref); chk("fff_blas_dcopy", y0); rec("memcpy"); restore(X, Y)
    lib.fff_blas_dswap(X.ref, Y.ref)
    chk("fff_blas_dswap (x)", y0, src=()); chk("fff_blas_dswap (y)", x0, dest=Y, src=()); restore(X, Y)
    cc, ss = 0.5, -2.0      # any pair: drot applies the linear map as given
    lib.fff_blas_drot(X.ref, Y.ref, cc, ss)
    chk("fff_blas_drot (x)", cc * x0 + ss * y0, src=()); chk("fff_blas_drot (y)", cc * y0 - ss * x0, dest=Y, src=())
    restore(X, Y)
    # reductions: values and no write at all
    reds = (("fff_vector_sum", float(lib.fff_vector_sum(X.ref)), x0.sum()),
            ("fff_vector_sad", float(lib.fff_vector_sad(X.ref, a)), np.abs(x0 - a).sum()),
            ("fff_blas_ddot", lib.fff_blas_ddot(X.ref, Y.ref), (x0 * y0).sum()),
            ("fff_blas_dasum", lib.fff_blas_dasum(X.ref), np.abs(x0).sum()),
            ("fff_blas_dnrm2", lib.fff_blas_dnrm2(X.ref), float(np.sqrt((x0 * x0).sum()))),
            ("fff_blas_idamax", float(lib.fff_blas_idamax(X.ref)), float(np.argmax(np.abs(x0)))))
    sw = C.c_longdouble(0)
    ws = float(lib.fff_vector_wsum(X.ref, Y.ref, C.byref(sw)))
    reds += (("fff_vector_wsum", ws, (x0 * y0).sum()), ("fff_vector_wsum (sum of weights)", float(sw.value), y0.sum()))
    for nm, g, w in reds:
        if not abs(g - w) <= 1e-12 * max(1.0, abs(w)):
            fails.append(f"{nm} on a {X.desc()} = {g!r}, definition gives {float(w)!r} (x={x0.tolist()})")
    chk("vector reductions (sum/sad/ddot/dasum/dnrm2/idamax/wsum)", x0)
    # selection permutes the view, and only the view
    for nm, args, w in (("median", (), np.median(x0)), ("quantile", (0.25, 1), np.percentile(x0, 25)),
                        ("quantile", (0.5, 0), np.sort(x0)[min(n - 1, int(np.ceil(0.5 * n)))] if n > 1 else x0[0])):
        g = getattr(lib, "fff_vector_" + nm)(X.ref, *args)
        if not abs(g - w) <= 1e-12 * max(1.0, abs(w)):
            fails.append(f"fff_vector_{nm}{args} on a {X.desc()} = {g!r}, definition gives {float(w)!r} (x={x0.tolist()})")
        now = X.P[X.idx]
        if sorted(now.tolist()) != sorted(x0.tolist()):
            fails.append(f"fff_vector_{nm}{args}: the view is not a rearrangement of its elements: {x0.tolist()} -> {now.tolist()}")
        chk(f"fff_vector_{nm}{args}", now, src=())
        restore(X, Y)
    return lines, impl, fails, ["views-vec", f"sx={min(X.st, 3)}", f"sy={min(Y.st, 3)}"]


# ----------------------------------------------------------------------
# matrices
# ----------------------------------------------------------------------
def run_mat(M, c):
    lib = M.fffpy(); sigs(lib, M)
    rs = np.random.RandomState(c["seed"])
    r, cc, a = c["r"], c["c"], c["a"]
    CBf = M.CB
    if c.get("alias"):
        # destination and source windows in ONE parent (necessarily the same pitch), disjoint rows
        top, bot, left, right = c["da"]
        gap = c["sa"][0]
        left2 = min(c["sa"][2], left + right)
        big = dy(rs, (top + r + gap + r + bot, left + cc + right))
        big[top + r + gap:top + 2 * r + gap, left2:left2 + cc] = pw2(rs, (r, cc))
        A = MV(M, rs, r, cc, None, parent=big, at=(top, left))
        B = MV(M, rs, r, cc, None, parent=big, at=(top + r + gap, left2))
    else:
        A = MV(M, rs, r, cc, c["da"])
        B = MV(M, rs, r, cc, c["sa"], vals=pw2(rs, (r, cc)))
    Bt = MV(M, rs, cc, r, c["sa"])
    a0, b0, bt0 = A.v.copy(), B.v.copy(), Bt.v.copy()
    fails, lines, impl = [], [], []
    pitch = "same-pitch" if A.tda == B.tda else "diff-pitch"
    contig = ("A-contig" if A.tda == cc else "A-window", "B-contig" if B.tda == cc else "B-window")

    def rec(op, S=None, params=""):
        S = S or B
        lines.append(f"mop {op} {fr(a)} {params}| {A.geom()} | {S.geom()} | {plist(A.P0.ravel())} | {plist(S.P0.ravel())}")
        impl.append(("rats", A.P.ravel().tolist(), 64.0))

    def chk(name, expected, dest=A, src=(B,)):
        f = whole(name, dest, expected, [s for s in src if s.P is not dest.P])
        if f:
            fails.append(f + f" [{pitch}, {contig[0]}, {contig[1]}{', same parent' if c.get('alias') else ''}]")

    def inside_now():
        return A.P[A.sl].copy()

    for nm, w in (("memcpy", b0), ("add", a0 + b0), ("sub", a0 - b0), ("mul_elements", a0 * b0),
                  ("div_elements", a0 / b0)):
        getattr(lib, "fff_matrix_" + nm)(A.ref, B.ref)
        chk(f"fff_matrix_{nm}", w); rec(nm); restore(A, B)
    lib.fff_matrix_transpose(A.ref, Bt.ref)
    chk("fff_matrix_transpose", bt0.T, src=(Bt,)); rec("transpose", Bt); restore(A, B, Bt)
    for nm, w in (("set_all", np.full((r, cc), a)), ("set_scalar", a * np.eye(r, cc)), ("scale", a * a0),
                  ("add_constant", a + a0)):
        getattr(lib, "fff_matrix_" + nm)(A.ref, a)
        chk(f"fff_matrix_{nm}", w); rec(nm); restore(A, B)
    i, j = int(rs.randint(r)), int(rs.randint(cc))
    lib.fff_matrix_set(A.ref, i, j, a)
    w = a0.copy(); w[i, j] = a
    chk(f"fff_matrix_set({i},{j})", w); rec("set", params=f"{i} {j} "); restore(A, B)
    g = lib.fff_matrix_get(A.ref, i, j)
    if g != a0[i, j]:
        fails.append(f"fff_matrix_get({i},{j}) on a {A.desc()} = {g}, element is {a0[i, j]}")
    g = float(lib.fff_matrix_sum(A.ref))
    if abs(g - a0.sum()) > 1e-12 * max(1, abs(a0.sum())):
        fails.append(f"fff_matrix_sum on a {A.desc()} = {g}, definition {a0.sum()}")
    # row / column / diagonal views and copies, vectors strided too
    vl = c["lx"]
    for kind, k, length, sel in (("row", i, cc, lambda Q: Q[i, :]), ("col", j, r, lambda Q: Q[:, j]),
                                 ("diag", None, min(r, cc), lambda Q: np.diagonal(Q))):
        x = VV(M, rs, length, vl)
        args = (k,) if k is not None else ()
        getattr(lib, f"fff_matrix_set_{kind}")(A.ref, *args, x.ref)
        w = a0.copy()
        if kind == "row":
            w[i, :] = x.v
        elif kind == "col":
            w[:, j] = x.v
        else:
            w[np.arange(length), np.arange(length)] = x.v
        chk(f"fff_matrix_set_{kind}{args}", w, src=(x,))
        lines.append(f"mop set_{kind} {fr(a)} {k if k is not None else 0} | {A.geom()} | {x.geom()} | {plist(A.P0.ravel())} | {plist(x.P0)}")
        impl.append(("rats", A.P.ravel().tolist(), 64.0))
        restore(A, B)
        if kind == "diag":
            getattr(lib, f"fff_matrix_get_{kind}")(x.ref, A.ref)
        else:
            getattr(lib, f"fff_matrix_get_{kind}")(x.ref, A.ref, k)
        f = whole(f"fff_matrix_get_{kind}{args}", x, sel(a0), [A])
        if f:
            fails.append(f)
        # the view constructors themselves
        fvv = getattr(lib, f"fff_matrix_{kind}")(A.ref, *args)
        lib.fff_vector_scale(C.byref(fvv), a)
        w = a0.copy()
        if kind == "row":
            w[i, :] *= a
        elif kind == "col":
            w[:, j] *= a
        else:
            w[np.arange(length), np.arange(length)] *= a
        chk(f"fff_vector_scale on fff_matrix_{kind}{args}", w, src=())
        restore(A, B)
    # block of the view (a view of a view), written through
    i0 = int(rs.randint(r)); nr = int(rs.randint(1, r - i0 + 1)); j0 = int(rs.randint(cc)); nc = int(rs.randint(1, cc - j0 + 1))
    blk = lib.fff_matrix_block(A.ref, i0, nr, j0, nc)
    lib.fff_matrix_set_all(C.byref(blk), a)
    w = a0.copy(); w[i0:i0 + nr, j0:j0 + nc] = a
    chk(f"fff_matrix_set_all on fff_matrix_block({i0},{nr},{j0},{nc})", w); restore(A, B)
    blkB = lib.fff_matrix_block(B.ref, i0, nr, j0, nc)
    lib.fff_matrix_memcpy(C.byref(blk), C.byref(blkB))
    w = a0.copy(); w[i0:i0 + nr, j0:j0 + nc] = b0[i0:i0 + nr, j0:j0 + nc]
    chk(f"fff_matrix_memcpy between fff_matrix_block({i0},{nr},{j0},{nc}) views", w)
    lines.append(f"mop memcpy {fr(a)} | {A.off + i0 * A.tda + j0} {nr} {nc} {A.tda} | {B.off + i0 * B.tda + j0} {nr} {nc} {B.tda} "
                 f"| {plist(A.P0.ravel())} | {plist(B.P0.ravel())}")
    impl.append(("rats", A.P.ravel().tolist(), 64.0))
    restore(A, B)

    # ---- BLAS updating the sub-matrix in place ----
    al, be = float(c.get("alpha", 1.0)), float(c.get("beta", 1.0))
    x = VV(M, rs, r, c["lx"]); y = VV(M, rs, cc, c["ly"])
    lib.fff_blas_dger(al, x.ref, y.ref, A.ref)
    chk("fff_blas_dger", a0 + al * np.outer(x.v, y.v), src=(x, y))
    lines.append(f"bop ger {fr(al)} 0 | {A.geom()} | {x.geom()} | {y.geom()} | {plist(A.P0.ravel())} | {plist(x.P0)} | {plist(y.P0)}")
    impl.append(("rats", A.P.ravel().tolist(), 64.0))
    pmw = lambda Q: f"{Q.shape[0]} {Q.shape[1]} " + " ".join(fr(t) for t in Q.ravel().tolist())
    lines.append(f"ger {fr(al)} {pmw(a0)} {plist(x.v)} {plist(y.v)}"); impl.append(("mat", A.P[A.sl].tolist()))
    restore(A, B)
    # dgemv: y <- al op(A) x + be y   (y is the written view)
    for tr in (0, 1):
        xin = VV(M, rs, r if tr else cc, c["lx"]); yout = VV(M, rs, cc if tr else r, c["ly"])
        lib.fff_blas_dgemv(M.f_tr(tr), al, A.ref, xin.ref, be, yout.ref)
        f = whole(f"fff_blas_dgemv(trans={tr})", yout, al * ((a0.T if tr else a0) @ xin.v) + be * yout.v, [A, xin])
        if f:
            fails.append(f)
    # dgemm / dsymm: C (= A view) <- al op(L) op(R) + be C
    kk = int(rs.randint(1, 4))
    for ta, tb in itertools.product((0, 1), repeat=2):
        Lm = MV(M, rs, *((kk, r) if ta else (r, kk)), c["sa"]); Rm = MV(M, rs, *((cc, kk) if tb else (kk, cc)), c["da"])
        lib.fff_blas_dgemm(M.f_tr(ta), M.f_tr(tb), al, Lm.ref, Rm.ref, be, A.ref)
        chk(f"fff_blas_dgemm(transA={ta}, transB={tb})",
            al * (Lm.v.T if ta else Lm.v) @ (Rm.v.T if tb else Rm.v) + be * a0, src=(Lm, Rm))
        restore(A, B)
    for sd, up in itertools.product((0, 1), repeat=2):
        ns = cc if sd else r
        S = MV(M, rs, ns, ns, c["sa"])
        T = np.tril(S.v) if up else np.triu(S.v)
        Sy = T + T.T - np.diag(np.diag(S.v))
        lib.fff_blas_dsymm(M.f_sd(sd), M.f_up(up), al, S.ref, B.ref, be, A.ref)
        chk(f"fff_blas_dsymm(side={sd}, uplo={up})", al * (b0 @ Sy if sd else Sy @ b0) + be * a0, src=(S, B))
        restore(A, B)
    # triangular product / solve on the view: B-operand is the written A view
    for sd, up, tr, dg in itertools.product((0, 1), repeat=4):
        ns = cc if sd else r
        Tm = MV(M, rs, ns, ns, c["sa"])
        Tm.P[Tm.sl][np.arange(ns), np.arange(ns)] = pw2(rs, ns)
        Tm.P0[...] = Tm.P
        T = np.tril(Tm.v) if up else np.triu(Tm.v)
        if dg:
            T = T - np.diag(np.diag(T)) + np.eye(ns)
        T = T.T if tr else T
        lib.fff_blas_dtrmm(M.f_sd(sd), M.f_up(up), M.f_tr(tr), M.f_dg(dg), al, Tm.ref, A.ref)
        chk(f"fff_blas_dtrmm(side={sd}, uplo={up}, trans={tr}, diag={dg})", al * (a0 @ T if sd else T @ a0), src=(Tm,))
        restore(A, B)
        lib.fff_blas_dtrsm(M.f_sd(sd), M.f_up(up), M.f_tr(tr), M.f_dg(dg), al, Tm.ref, A.ref)
        Ti = np.linalg.inv(T)
        f = whole(f"fff_blas_dtrsm(side={sd}, uplo={up}, trans={tr}, diag={dg})", A, al * (a0 @ Ti if sd else Ti @ a0),
                  [Tm], tol=1e-9)
        if f:
            fails.append(f)
        restore(A, B)
    # square destination: symmetric rank updates, triangular / symmetric matrix-vector
    n = min(r, cc)
    Sq = MV(M, rs, n, n, c["da"])
    s0 = Sq.v.copy()
    xs = VV(M, rs, n, c["lx"]); ys = VV(M, rs, n, c["ly"])
    for up in (0, 1):
        mask = np.tril(np.ones((n, n), bool)) if up else np.triu(np.ones((n, n), bool))
        lib.fff_blas_dsyr(M.f_up(up), al, xs.ref, Sq.ref)
        f = whole(f"fff_blas_dsyr(uplo={up})", Sq, np.where(mask, s0 + al * np.outer(xs.v, xs.v), s0), [xs])
        if f:
            fails.append(f)
        lines.append(f"bop syr {fr(al)} {up} | {Sq.geom()} | {xs.geom()} | {xs.geom()} | {plist(Sq.P0.ravel())} | {plist(xs.P0)} | {plist(xs.P0)}")
        impl.append(("rats", Sq.P.ravel().tolist(), 64.0))
        lines.append(f"syr {up} {fr(al)} {pmw(s0)} {plist(xs.v)}"); impl.append(("mat", Sq.P[Sq.sl].tolist()))
        restore(Sq)
        lib.fff_blas_dsyr2(M.f_up(up), al, xs.ref, ys.ref, Sq.ref)
        full = s0 + al * (np.outer(xs.v, ys.v) + np.outer(ys.v, xs.v))
        f = whole(f"fff_blas_dsyr2(uplo={up})", Sq, np.where(mask, full, s0), [xs, ys])
        if f:
            fails.append(f)
        lines.append(f"bop syr2 {fr(al)} {up} | {Sq.geom()} | {xs.geom()} | {ys.geom()} | {plist(Sq.P0.ravel())} | {plist(xs.P0)} | {plist(ys.P0)}")
        impl.append(("rats", Sq.P.ravel().tolist(), 64.0))
        lines.append(f"syr2 {up} {fr(al)} {pmw(s0)} {plist(xs.v)} {plist(ys.v)}"); impl.append(("mat", Sq.P[Sq.sl].tolist()))
        restore(Sq)
        T0 = np.tril(s0) if up else np.triu(s0)
        Sy = T0 + T0.T - np.diag(np.diag(s0))
        lib.fff_blas_dsymv(M.f_up(up), al, Sq.ref, xs.ref, be, ys.ref)
        f = whole(f"fff_blas_dsymv(uplo={up})", ys, al * Sy @ xs.v + be * ys.v, [Sq, xs])
        if f:
            fails.append(f)
        lines.append(f"symv {up} {fr(al)} {pmw(s0)} {plist(xs.v)} {fr(be)} {plist(ys.v)}")
        impl.append(("rats", ys.P[ys.idx].tolist(), 64.0))
        restore(ys)
        # rank-k updates of the square view
        for tr in (0, 1):
            Ak = MV(M, rs, n, n, c["sa"]); Bk = MV(M, rs, n, n, c["sa"])
            oA = Ak.v.T if tr else Ak.v; oB = Bk.v.T if tr else Bk.v
            lib.fff_blas_dsyrk(M.f_up(up), M.f_tr(tr), al, Ak.ref, be, Sq.ref)
            f = whole(f"fff_blas_dsyrk(uplo={up}, trans={tr})", Sq, np.where(mask, al * oA @ oA.T + be * s0, s0), [Ak])
            if f:
                fails.append(f)
            restore(Sq)
            lib.fff_blas_dsyr2k(M.f_up(up), M.f_tr(tr), al, Ak.ref, Bk.ref, be, Sq.ref)
            f = whole(f"fff_blas_dsyr2k(uplo={up}, trans={tr})", Sq,
                      np.where(mask, al * (oA @ oB.T + oB @ oA.T) + be * s0, s0), [Ak, Bk])
            if f:
                fails.append(f)
            lines.append(f"syr2k {up} {tr} {fr(al)} {pmw(Ak.v)} {pmw(Bk.v)} {fr(be)} {pmw(s0)}")
            impl.append(("mat", Sq.P[Sq.sl].tolist()))
            restore(Sq)
        for tr, dg in itertools.product((0, 1), repeat=2):
            Tm = MV(M, rs, n, n, c["sa"])
            Tm.P[Tm.sl][np.arange(n), np.arange(n)] = pw2(rs, n)
            Tm.P0[...] = Tm.P
            T = np.tril(Tm.v) if up else np.triu(Tm.v)
            if dg:
                T = T - np.diag(np.diag(T)) + np.eye(n)
            T = T.T if tr else T
            lib.fff_blas_dtrmv(M.f_up(up), M.f_tr(tr), M.f_dg(dg), Tm.ref, xs.ref)
            f = whole(f"fff_blas_dtrmv(uplo={up}, trans={tr}, diag={dg})", xs, T @ xs.v, [Tm])
            if f:
                fails.append(f)
            lines.append(f"trmv {up} {tr} {dg} {pmw(Tm.v)} {plist(xs.v)}"); impl.append(("rats", xs.P[xs.idx].tolist(), 64.0))
            restore(xs)
            lib.fff_blas_dtrsv(M.f_up(up), M.f_tr(tr), M.f_dg(dg), Tm.ref, xs.ref)
            f = whole(f"fff_blas_dtrsv(uplo={up}, trans={tr}, diag={dg})", xs, np.linalg.inv(T) @ xs.v, [Tm], tol=1e-9)
            if f:
                fails.append(f)
            lines.append(f"trsv {up} {tr} {dg} {pmw(Tm.v)} {plist(xs.v)}"); impl.append(("rats", xs.P[xs.idx].tolist(), 64.0))
            restore(xs)
    tags = ["views-mat", pitch, contig[0], contig[1]] + (["same-parent"] if c.get("alias") else [])
    return lines, impl, fails, tags


# ----------------------------------------------------------------------
# arrays (every datatype, conversions)
# ----------------------------------------------------------------------
def round_rule(v):
    """FFF_ROUND as written: floor(v + 0.5)"""
    return np.floor(np.asarray(v, dtype=float) + 0.5)


def arr_view(rs, dims, dtype, lay):
    """(parent, view): view = parent[slices] with steps / reversed axes / permuted axes"""
    nd = len(dims)
    steps = [int(rs.choice([1, 1, 2, 3])) if lay in ("step", "mixed") else 1 for _ in dims]
    revs = [bool(rs.randint(2)) if lay in ("rev", "mixed") else False for _ in dims]
    pads = [(int(rs.randint(0, 3)), int(rs.randint(0, 3))) if lay != "C" else (0, 0) for _ in dims]
    pshape = [p0 + (d - 1) * s + 1 + p1 for d, s, (p0, p1) in zip(dims, steps, pads)]
    perm = list(rs.permutation(nd)) if lay in ("perm", "mixed") else list(range(nd))
    # parent allocated in permuted axis order, then transposed back: arbitrary stride order
    inv = list(np.argsort(perm))
    info = np.iinfo(dtype) if np.dtype(dtype).kind in "iu" else None
    lo, hi = (max(info.min, -90), min(info.max, 90)) if info else (-90, 90)
    base = rs.randint(lo, hi + 1, size=[pshape[p] for p in perm])
    if info is None:
        base = base / 4.0
    base[base == 0] = 1
    parent = np.ascontiguousarray(base.astype(dtype)).transpose(inv)
    sl = tuple(slice(p0 + (d - 1) * s, (p0 - 1) if p0 > 0 else None, -s) if rv else slice(p0, p0 + (d - 1) * s + 1, s)
               for d, s, (p0, p1), rv in zip(dims, steps, pads, revs))
    view = parent[sl]
    assert list(view.shape) == list(dims), (view.shape, dims)
    return parent, view, sl


def run_arr(M, c):
    lib = M.fffpy(); sigs(lib, M)
    rs = np.random.RandomState(c["seed"])
    dims = c["dims"]
    td, ts = c["dt_dest"], c["dt_src"]
    a = c["a"]
    PA, A, slA = arr_view(rs, dims, td, c["la"])
    PB, B, slB = arr_view(rs, dims, ts, c["lb"])
    PA0, PB0 = PA.copy(), PB.copy()
    A0, B0 = PA0[slA].astype(float), PB0[slB].astype(float)
    fa = lib.fff_array_fromPyArray(A); fb = lib.fff_array_fromPyArray(B)
    fails, lines, impl = [], [], []
    isint = np.dtype(td).kind in "iu"
    info = np.iinfo(td) if isint else None

    def conv(v):
        """definition of the store: FFF_ROUND then the C cast (in range), float32 rounding, identity"""
        v = np.asarray(v, dtype=float)
        if isint:
            return round_rule(v)
        return v.astype(td).astype(float)

    def in_range(v):
        if not isint:
            return bool(np.all(np.isfinite(v)))
        v = np.asarray(v, dtype=float)
        w, w2 = round_rule(v), np.ceil(v - 0.5)      # both nearest integers at a tie must be representable
        lo_, hi_ = max(info.min, -2 ** 31), min(info.max, 2 ** 31 - 1)
        return bool(np.all((w >= lo_) & (w <= hi_) & (w2 >= lo_) & (w2 <= hi_)))

    def geom(sl, P):
        return None

    def chk(name, expected, src_ok=True):
        """inside: the stored value is the conversion of the definition's value (integer types: a nearest
        integer - FFF_ROUND 'rounds to the nearest integer (either smaller or bigger)', the tie rule as
        written is pinned by the model through the `fffround` lines); outside: untouched"""
        E = PA0.astype(float).copy()
        E[slA] = conv(expected)
        got = PA.astype(float)
        inside = np.zeros(PA.shape, bool); inside[slA] = True
        bad_out = (got != E) & ~inside
        rt = 1e-6 if td == "float32" else 1e-12
        if isint:
            R = np.zeros(PA.shape); R[slA] = np.asarray(expected, dtype=float)
            ok_in = np.abs(got[inside] - R[inside]) <= 0.5
        else:
            ok_in = np.isclose(got[inside], E[inside], rtol=rt, atol=1e-12)
        if bad_out.any():
            where = [tuple(int(t) for t in ix) for ix in np.argwhere(bad_out)[:4]]
            fails.append(f"{name}: writes outside its view ({td} array view {list(dims)} with strides {A.strides} of a "
                         f"parent of shape {list(PA.shape)}): parent cells {where} changed")
        elif not ok_in.all():
            k = int(np.argmax(~ok_in))
            fails.append(f"{name}: {td} destination view {list(dims)} strides {A.strides}, source {ts} strides {B.strides}: "
                         f"element #{k} = {got[inside][k]!r}, the definition gives {E[inside][k]!r}"
                         + (" (or the other nearest integer)" if isint else ""))
        elif src_ok and not np.array_equal(PB, PB0):
            fails.append(f"{name}: modifies its source array")
        PA[...] = PA0; PB[...] = PB0

    def rec(op, params=""):
        pass

    lib.fff_array_set_all(fa, a)
    if in_range(np.full(dims, a)):
        chk(f"fff_array_set_all({a})", np.full(dims, a))
    PA[...] = PA0
    lib.fff_array_copy(fa, fb)
    if in_range(B0):
        chk("fff_array_copy", B0)
    PA[...] = PA0
    for nm, w in (("add", A0 + B0), ("sub", A0 - B0), ("mul", A0 * B0)):
        getattr(lib, "fff_array_" + nm)(fa, fb)
        if in_range(w):
            chk(f"fff_array_{nm}", w)
        PA[...] = PA0
    # div: denominators below FFF_TINY in absolute value are replaced by FFF_TINY; none here (|b| >= 1/4)
    lib.fff_array_div(fa, fb)
    w = A0 / B0
    if in_range(w):
        chk("fff_array_div", w)
    PA[...] = PA0
    # compress: affine map s0 -> r0, s1 -> r1
    r0, s0, r1, s1 = [float(t) for t in rs.choice([0.0, 1.0, 2.0, 4.0, -1.0, 0.5], 4, replace=False)]
    lib.fff_array_compress(fa, fb, r0, s0, r1, s1)
    sl_ = (r1 - r0) / (s1 - s0)
    w = sl_ * B0 + (r0 - sl_ * s0)
    if in_range(w):
        chk(f"fff_array_compress(r0={r0}, s0={s0}, r1={r1}, s1={s1})", w)
    PA[...] = PA0
    # element access
    ix = [int(rs.randint(d)) for d in dims]
    ix4 = ix + [0] * (4 - len(ix))
    lib.fff_array_set(fa, *ix4, a)
    w = A0.copy(); w[tuple(ix)] = a
    if in_range(np.array([a])):
        chk(f"fff_array_set{tuple(ix4)}", w, src_ok=False)
    PA[...] = PA0
    g = lib.fff_array_get(fa, *ix4)
    if g != A0[tuple(ix)]:
        fails.append(f"fff_array_get{tuple(ix4)} on a {td} view with strides {A.strides} = {g}, element is {A0[tuple(ix)]}")
    oob = list(ix4); k = int(rs.randint(4)); oob[k] = (list(dims) + [1] * 4)[k]
    g = lib.fff_array_get(fa, *oob)
    if g == g:
        fails.append(f"fff_array_get{tuple(oob)} outside a view of dims {list(dims)} = {g}, documented: NaN")
    lib.fff_array_set(fa, *oob, a)
    if not np.array_equal(PA, PA0):
        fails.append(f"fff_array_set{tuple(oob)} outside a view of dims {list(dims)} writes to the buffer")
    PA[...] = PA0
    # sub-block written through: a view of the view
    blk, sl = [], []
    for d in dims:
        i0 = int(rs.randint(d)); i1 = int(rs.randint(i0, d)); f = int(rs.randint(1, 3))
        blk += [i0, i1, f]; sl.append(slice(i0, i1 + 1, f))
    blk4 = blk + [0, 0, 1] * (4 - len(dims))
    sub = lib.fff_array_get_block(fa, *blk4)
    lib.fff_array_set_all(C.byref(sub), a)
    w = A0.copy(); w[tuple(sl)] = a
    if in_range(np.array([a])):
        chk(f"fff_array_set_all on fff_array_get_block{tuple(blk4)}", w, src_ok=False)
    PA[...] = PA0
    # extrema (read only) and clamp
    mn, mx = C.c_double(), C.c_double()
    lib.fff_array_extrema(C.byref(mn), C.byref(mx), fb)
    if (mn.value, mx.value) != (B0.min(), B0.max()):
        fails.append(f"fff_array_extrema on the {ts} array {B0.ravel().tolist()} = (min {mn.value}, max {mx.value}), "
                     f"definition (min {B0.min()}, max {B0.max()})")
    elif not np.array_equal(PB, PB0):
        fails.append("fff_array_extrema modifies its argument")
    else:
        # clamp: shift by the threshold; integer sources with a small dynamic are only shifted, others are
        # compressed onto [0, clamp-1] (values below the threshold go negative: signed/float destinations)
        imin, imax = float(B0.min()), float(B0.max())
        for th in (imin - 1.0, float(rs.choice(B0.ravel())), imax + 3.0):
            for cl in (256, 4):
                if isint and info.min >= 0 and th > imin and th <= imax:
                    continue
                clamp = C.c_int(cl)
                with quiet_stderr():
                    lib.fff_array_clamp(fa, fb, th, C.byref(clamp))
                tth = max(th, imin)
                if tth > imax:
                    tth = imin
                src_int = np.dtype(ts).kind in "iu"
                if src_int and imax - tth <= cl - 1:
                    w = B0 - tth; wc = int(imax - tth) + 1
                elif imax == tth:
                    PA[...] = PA0
                    continue            # degenerate dynamic: the compression slope is infinite
                else:
                    sl_ = (cl - 1) / (imax - tth)
                    w = sl_ * B0 + (0.0 - sl_ * tth); wc = cl
                if clamp.value != wc:
                    fails.append(f"fff_array_clamp(th={th}, clamp={cl}) on the {ts} array {B0.ravel().tolist()}: clamp "
                                 f"becomes {clamp.value}, definition {wc}")
                if in_range(w):
                    chk(f"fff_array_clamp(th={th}, clamp={cl})", w)
                PA[...] = PA0
    # iterate a vector function along every axis of a double array (in place: x <- a x + 1)
    if td == "float64":
        CBT = C.CFUNCTYPE(None, C.POINTER(M.FVec), C.c_void_p)

        def cb(pv, par):
            lib.fff_vector_scale(pv, a); lib.fff_vector_add_constant(pv, 1.0)
        cbo = CBT(cb)
        for ax in range(len(dims)):
            lib.fff_array_iterate_vector_function(fa, ax, C.cast(cbo, C.c_void_p), None)
            chk(f"fff_array_iterate_vector_function(axis={ax}, x <- {a} x + 1)", a * A0 + 1, src_ok=False)
            PA[...] = PA0
    # the iterator as pointer arithmetic: item offsets visited, every skipped axis and none
    isz = A.itemsize
    d4 = list(dims) + [1] * (4 - len(dims))
    o4 = [st // isz for st in A.strides] + [0] * (4 - len(dims))
    base_off = (A.ctypes.data - PA.ctypes.data) // isz
    for ax in (-1, 0, 1, 2, 3):
        it = lib.fff_array_iterator_init_skip_axis(fa, ax)
        upd = C.CFUNCTYPE(None, C.c_void_p)(it.update)
        got = []
        while it.idx < it.size and len(got) < 4096:
            got.append((it.data - PA.ctypes.data) // isz)
            upd(C.addressof(it))
        lines.append(f"aiter {base_off} {' '.join(map(str, d4))} {' '.join(map(str, o4))} {ax if ax >= 0 else 4}")
        impl.append(("nats", got))
        sl_ = [slice(None)] * 4
        if ax >= 0:
            sl_[ax] = slice(0, 1)
        want = [int(v) for v in (base_off + sum(np.arange(d).reshape([-1 if k == a_ else 1 for k in range(4)]) * o
                                                for a_, (d, o) in enumerate(zip(d4, o4))))[tuple(sl_)].ravel()]
        if got != want:
            fails.append(f"fff_array iterator (skip axis {ax}) over a view of dims {d4} and item offsets {o4}: visits item "
                         f"offsets {got}, the elements in C order are at {want}")
    # FFF_ROUND (the store conversion of the integer accessors): value stored into an int32 cell
    rv = [float(t) for t in rs.randint(-40, 41, size=10) / 4.0] + [0.5, -0.5, 1.5, -1.5, 0.0, -0.25, 0.25]
    cell = np.zeros(1, dtype="int32"); fc = lib.fff_array_fromPyArray(cell)
    stored = []
    for t in rv:
        lib.fff_array_set(fc, 0, 0, 0, 0, t); stored.append(int(cell[0]))
        if abs(stored[-1] - t) > 0.5:
            fails.append(f"fff_array_set into an int32 cell stores {stored[-1]} for {t}: not a nearest integer")
    lib.fff_array_delete(fc)
    lines.append("fffround " + plist(rv)); impl.append(("nats", stored))
    # FFF_ROUND as regenerated from fff_base.h (textual macro expansion)
    lines.append("kround " + plist(rv)); impl.append(("nats", stored))
    lib.fff_array_delete(fa); lib.fff_array_delete(fb)
    neg = any(s < 0 for s in A.strides) or any(s < 0 for s in B.strides)
    tags = ["views-arr", f"dt={td}<-{ts}", "la=" + c["la"]] + (["neg-stride"] if neg else [])
    return lines, impl, fails, tags


# ----------------------------------------------------------------------
# LAPACK wrappers (row-major <-> column-major bookkeeping), factorisations certified by multiplication
# ----------------------------------------------------------------------
def run_lap(M, c):
    lib = M.fffpy(); sigs(lib, M)
    PM, PV, PA = C.POINTER(M.FMat), C.POINTER(M.FVec), C.POINTER(M.FArr)
    lib.fff_lapack_dpotrf.argtypes = [C.c_int, PM, PM]; lib.fff_lapack_dpotrf.restype = C.c_int
    lib.fff_lapack_dgetrf.argtypes = [PM, C.c_void_p, PM]; lib.fff_lapack_dgetrf.restype = C.c_int
    lib.fff_lapack_dgeqrf.argtypes = [PM, PV, PV, PM]; lib.fff_lapack_dgeqrf.restype = C.c_int
    lib.fff_lapack_dgesdd.restype = C.c_int
    lib.fff_lapack_det_sym.restype = C.c_double; lib.fff_lapack_det_sym.argtypes = [PM]
    lib.fff_lapack_inv_sym.restype = C.c_int; lib.fff_lapack_inv_sym.argtypes = [PM, PM]
    rs = np.random.RandomState(c["seed"])
    m, n = c["m"], c["n"]
    fails = []
    tol = 1e-9

    def near(X, Y, sc=1.0):
        return X.shape == Y.shape and np.allclose(X, Y, rtol=tol, atol=tol * max(1.0, sc))

    def frame(name, V):
        out = np.ones(V.P.shape, bool); out[V.sl] = False
        if not np.array_equal(V.P[out], V.P0[out]):
            where = [tuple(int(t) for t in ix) for ix in np.argwhere((V.P != V.P0) & out)[:4]]
            fails.append(f"{name}: writes outside its view ({V.desc()}): parent cells {where} changed")

    # Cholesky of a symmetric positive definite window
    G = rs.randint(-2, 3, size=(n, n + 1)).astype(float)
    S0 = G @ G.T + np.eye(n)
    for up in (0, 1):
        A = MV(M, rs, n, n, c["da"], vals=S0); Aux = MV(M, rs, n, n, c["sa"])
        info = lib.fff_lapack_dpotrf(M.f_up(up), A.ref, Aux.ref)
        R = A.P[A.sl]
        T = np.tril(R) if up else np.triu(R)
        rec_ = T @ T.T if up else T.T @ T
        if info != 0 or not near(rec_, S0, np.abs(S0).max()):
            fails.append(f"fff_lapack_dpotrf(uplo={'Lower' if up else 'Upper'}) on {S0.tolist()} [{A.desc()}]: info={info}, the "
                         f"{'lower' if up else 'upper'} triangle {T.tolist()} does not reproduce the matrix "
                         f"({'L L^T' if up else 'U^T U'} = {rec_.tolist()})")
        other = ~(np.tril(np.ones((n, n), bool)) if up else np.triu(np.ones((n, n), bool)))
        if not np.array_equal(R[other], S0[other]):
            fails.append(f"fff_lapack_dpotrf(uplo={up}): the triangle not referenced was modified")
        frame(f"fff_lapack_dpotrf(uplo={up})", A)
    # LU with partial pivoting of an m x n window
    X0 = dy(rs, (m, n))
    A = MV(M, rs, m, n, c["da"], vals=X0); Aux = MV(M, rs, n, m, c["sa"])
    k = min(m, n)
    ipiv = lib.fff_array_new(5, k, 1, 1, 1)
    info = lib.fff_lapack_dgetrf(A.ref, ipiv, Aux.ref)
    piv = [int(lib.fff_array_get(C.cast(ipiv, PA), i, 0, 0, 0)) for i in range(k)]
    lib.fff_array_delete(ipiv)
    LU = A.P[A.sl].copy()
    # the wrapper hands LAPACK the m x n matrix whose column-major buffer is Aux = A^T row-major, i.e. A itself
    L = np.tril(LU[:, :k], -1) + np.eye(m, k); U = np.triu(LU[:k, :])
    Pm = np.arange(m)
    ok = info >= 0 and all(1 <= q <= m for q in piv)
    if ok:
        for i, q in enumerate(piv):
            Pm[[i, q - 1]] = Pm[[q - 1, i]]
        ok = near(L @ U, X0[Pm], np.abs(X0).max()) and np.all(np.abs(L) <= 1 + 1e-12)
    if not ok:
        fails.append(f"fff_lapack_dgetrf on the {m}x{n} matrix {X0.tolist()} [{A.desc()}]: info={info}, pivots {piv}, "
                     f"P A != L U with the factors read from the result {LU.tolist()}")
    frame("fff_lapack_dgetrf", A)
    # QR (Householder reflectors + tau)
    A = MV(M, rs, m, n, c["da"], vals=X0); Aux = MV(M, rs, n, m, c["sa"])
    tau = VV(M, rs, k, [0, 1, 0]); work = VV(M, rs, max(n, 1) * int(rs.choice([0, 1, 4])) + int(rs.choice([0, 1])), [0, 1, 0])
    if work.n == 0:
        work = VV(M, rs, 1, [0, 1, 0])
    info = lib.fff_lapack_dgeqrf(A.ref, tau.ref, work.ref, Aux.ref)
    if work.n >= n:
        QR = A.P[A.sl].copy()
        Rm = np.triu(QR[:k, :])
        Q = np.eye(m)
        for i in range(k):
            v = np.zeros(m); v[i] = 1.0; v[i + 1:] = QR[i + 1:, i]
            Q = Q @ (np.eye(m) - tau.P[i] * np.outer(v, v))
        if info != 0 or not near(Q[:, :k] @ Rm, X0, np.abs(X0).max()) or not near(Q.T @ Q, np.eye(m)):
            fails.append(f"fff_lapack_dgeqrf on the {m}x{n} matrix {X0.tolist()} [{A.desc()}]: info={info}; Q R (reflectors and "
                         f"tau read from the result) != A or Q not orthogonal")
        frame("fff_lapack_dgeqrf", A)
    # full SVD: U S Vt = A, orthogonal factors; the input is a window (leading dimension = tda)
    A = MV(M, rs, m, n, c["da"], vals=X0)
    dmin, dmax = min(m, n), max(m, n)
    lwork = 2 * (3 * dmin * dmin + max(dmax, 4 * dmin * (dmin + 1)))
    wv = lib.fff_vector_new(lwork); iw = lib.fff_array_new(5, 8 * dmin, 1, 1, 1)
    Aux = MV(M, rs, dmax, dmax, [0, 0, 0, 0]); Um = MV(M, rs, m, m, c["sa"]); Vt = MV(M, rs, n, n, c["sa"])
    sv = VV(M, rs, dmin, [0, 1, 0])
    lib.fff_lapack_dgesdd.argtypes = [PM, PV, PM, PM, PV, C.c_void_p, PM]
    info = lib.fff_lapack_dgesdd(A.ref, sv.ref, Um.ref, Vt.ref, wv, iw, Aux.ref)
    lib.fff_vector_delete(wv); lib.fff_array_delete(iw)
    Uv, Vv, s_ = Um.P[Um.sl], Vt.P[Vt.sl], sv.P[:dmin]
    Sg = np.zeros((m, n)); Sg[np.arange(dmin), np.arange(dmin)] = s_
    want = np.linalg.svd(X0, compute_uv=False)
    if info != 0 or not near(s_, want, want.max()):
        fails.append(f"fff_lapack_dgesdd on the {m}x{n} matrix {X0.tolist()} [{A.desc()}]: info={info}, singular values "
                     f"{s_.tolist()}, numpy.linalg.svd gives {want.tolist()}")
    elif not near(Uv @ Sg @ Vv, X0, np.abs(X0).max()) or not near(Uv.T @ Uv, np.eye(m)) or not near(Vv @ Vv.T, np.eye(n)):
        fails.append(f"fff_lapack_dgesdd on the {m}x{n} matrix {X0.tolist()} [{A.desc()}]: U diag(s) Vt != A or the factors "
                     f"are not orthogonal (U={Uv.tolist()}, Vt={Vv.tolist()})")
    frame("fff_lapack_dgesdd (A)", A); frame("fff_lapack_dgesdd (U)", Um); frame("fff_lapack_dgesdd (Vt)", Vt)
    # determinant / inverse of a symmetric positive definite matrix through the SVD
    A = MV(M, rs, n, n, c["da"], vals=S0)
    d = lib.fff_lapack_det_sym(A.ref)
    wd = float(np.linalg.det(S0))
    if not abs(d - wd) <= 1e-8 * max(1.0, abs(wd)):
        fails.append(f"fff_lapack_det_sym({S0.tolist()}) [{A.desc()}] = {d!r}, determinant is {wd!r}")
    frame("fff_lapack_det_sym", A)
    A = MV(M, rs, n, n, c["da"], vals=S0); iA = MV(M, rs, n, n, c["sa"])
    lib.fff_lapack_inv_sym(iA.ref, A.ref)
    if not near(iA.P[iA.sl] @ S0, np.eye(n), 1.0):
        fails.append(f"fff_lapack_inv_sym({S0.tolist()}) [{A.desc()}] = {iA.P[iA.sl].tolist()}: product with the matrix is not I")
    frame("fff_lapack_inv_sym (A)", A); frame("fff_lapack_inv_sym (iA)", iA)
    # Mahalanobis distance on views: x, S (both overwritten by contract) and the work matrix are windows
    lib.fff_mahalanobis.restype = C.c_double; lib.fff_mahalanobis.argtypes = [PV, PM, PM]
    xv0 = dy(rs, n)
    A = MV(M, rs, n, n, c["da"], vals=S0); Aux = MV(M, rs, n, n, c["sa"]); xv = VV(M, rs, n, [1, int(rs.choice([1, 2, 3])), 1], vals=xv0)
    d2 = lib.fff_mahalanobis(xv.ref, A.ref, Aux.ref)
    yv = np.linalg.solve(S0, xv0)
    if not abs(d2 - float(xv0 @ yv)) <= 1e-9 * max(1.0, abs(float(xv0 @ yv))):
        fails.append(f"fff_mahalanobis(x={xv0.tolist()}, S={S0.tolist()}) [{A.desc()}; {xv.desc()}] = {d2!r}, "
                     f"x' S^-1 x = {float(xv0 @ yv)!r} (S y = x solved, residual {float(np.abs(S0 @ yv - xv0).max()):.1e})")
    frame("fff_mahalanobis (S)", A); frame("fff_mahalanobis (Saux)", Aux)
    outx = np.ones(xv.P.shape, bool); outx[xv.idx] = False
    if not np.array_equal(xv.P[outx], xv.P0[outx]):
        fails.append(f"fff_mahalanobis writes outside its vector view ({xv.desc()})")
    return [], [], fails, ["views-lap", "tall" if m > n else ("wide" if m < n else "square")]


def known_key(failure):
    """defects found on the unchanged tree (C API only; fixes in proposed_fixes/C16-array-extrema.patch and
    C16-lapack-svd-factors.patch)"""
    if failure.startswith("fff_array_extrema"):
        return "array-extrema-first-max"
    if failure.startswith("fff_lapack_dgesdd on the") and "U diag(s) Vt != A" in failure:
        return "dgesdd-factors-transposed"
    if failure.startswith("fff_lapack_inv_sym(") and "is not I" in failure:
        return "inv-sym-wrong"
    return None


def run(check, c):
    from harness.props import C16 as M
    fam = c["fam"]
    lines, impl, fails, tags = {"vec": run_vec, "mat": run_mat, "arr": run_arr, "lap": run_lap}[fam](M, c)
    nt = (c.get("n", 2) >= 2) if fam == "vec" else True
    # defects of the unchanged tree that have a proposed fix must not hide another failure of the same case
    fails.sort(key=lambda f: known_key(f) is not None)
    return check._res(lines if EMIT_LINES else [], impl if EMIT_LINES else [], fails[0] if fails else None, nt, tags)


def generate(rng, n):
    S = lambda: rng.randrange(1 << 30)
    cases = []
    vl = lambda: [rng.choice([0, 0, 1, 3]), rng.choice([1, 1, 2, 3, 5]), rng.choice([0, 0, 2])]
    for _ in range(n["vvec"]):
        cases.append({"kind": "views", "fam": "vec", "n": rng.choice([1, 2, 3, 4, 5, 8]), "lx": vl(), "ly": vl(),
                      "a": rng.choice([0.0, 1.0, -2.0, 0.5, 3.0, -0.25]), "seed": S()})
    for _ in range(n["vmat"]):
        marg = lambda: [rng.choice([0, 0, 1, 2]), rng.choice([0, 0, 1, 2]), rng.choice([0, 0, 1, 2, 3]), rng.choice([0, 0, 1, 2])]
        da, sa = marg(), marg()
        u = rng.random()
        if u < 0.2:
            da = [0, 0, 0, 0]            # contiguous destination
        if 0.1 < u < 0.3:
            sa = [0, 0, 0, 0]            # contiguous source
        if u > 0.55:                     # same row pitch, windows placed differently
            tot = da[2] + da[3]
            sa[2] = rng.randrange(0, tot + 1); sa[3] = tot - sa[2]
        cases.append({"kind": "views", "fam": "mat", "r": rng.choice([1, 2, 3, 4]), "c": rng.choice([1, 2, 3, 4, 5]),
                      "da": da, "sa": sa, "alias": rng.random() < 0.15, "lx": vl(), "ly": vl(),
                      "a": rng.choice([0.0, 1.0, -2.0, 0.5, 3.0]), "alpha": rng.choice([1.0, -1.0, 0.5, 2.0]),
                      "beta": rng.choice([0.0, 1.0, -0.5, 2.0]), "seed": S()})
    for _ in range(n["varr"]):
        nd = rng.choice([1, 2, 3, 4, 4])
        cases.append({"kind": "views", "fam": "arr", "dims": [rng.choice([1, 2, 3, 4]) for _ in range(nd)],
                      "dt_dest": rng.choice(list(DT) + ["float64"] * 4), "dt_src": rng.choice(list(DT) + ["float64"] * 3),
                      "la": rng.choice(["C", "step", "rev", "perm", "mixed", "mixed"]),
                      "lb": rng.choice(["C", "step", "rev", "perm", "mixed"]),
                      "a": rng.choice([0.0, 1.0, 2.0, 0.5, 3.0, 2.5, -1.5, -2.0]), "seed": S()})
    for _ in range(n["vlap"]):
        marg = lambda: [rng.choice([0, 0, 1, 2]), rng.choice([0, 0, 1]), rng.choice([0, 0, 1, 2, 3]), rng.choice([0, 0, 1, 2])]
        cases.append({"kind": "views", "fam": "lap", "m": rng.choice([1, 2, 3, 4, 5]), "n": rng.choice([1, 2, 3, 4]),
                      "da": marg(), "sa": marg(), "seed": S()})
    return cases


def shrink(case):
    for key in ("da", "sa", "lx", "ly"):
        v = case.get(key)
        if isinstance(v, list):
            for i, t in enumerate(v):
                lo = 1 if key in ("lx", "ly") and i == 1 else 0
                if t > lo:
                    c = dict(case); c[key] = v[:i] + [t - 1] + v[i + 1:]
                    yield c
    for key in ("r", "c", "n", "m"):
        if isinstance(case.get(key), int) and case[key] > 1:
            c = dict(case); c[key] = case[key] - 1
            yield c
    if case.get("alias"):
        c = dict(case); c["alias"] = False
        yield c
    if "dims" in case:
        d = case["dims"]
        for i, t in enumerate(d):
            if t > 1:
                c = dict(case); c["dims"] = d[:i] + [t - 1] + d[i + 1:]
                yield c
        if len(d) > 1 and d[-1] == 1:
            c = dict(case); c["dims"] = d[:-1]
            yield c
        for key in ("la", "lb"):
            if case[key] != "C":
                c = dict(case); c[key] = "C"
                yield c
        for key in ("dt_dest", "dt_src"):
            if case[key] != "float64":
                c = dict(case); c[key] = "float64"
                yield c
