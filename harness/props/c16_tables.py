"""C16 helper — translator: read off /repo's *text*
  * the numeric constants of cubic_spline.c (pole, z/(z^2-1), the 2/3 of the basis function),
  * the flag table of fff_blas.c (which macro builds each Fortran flag of each wrapper, the order in
    which the operands are handed over, which size is `m`),
  * the macro definitions themselves (SWAP_TRANS, SWAP_UPLO, SWAP_SIDE, TRANS, DIAG),
and regenerate lean/NipyVerif/Gen/C16Tables.lean.  The model's wrappers consult this table, so the
`blas_rowmajor_*` theorems are re-checked against what the source says now; an unrecognised shape is a
broken tie (TieBroken), never a guess.
"""
from __future__ import annotations

import os
import re
from fractions import Fraction

REPO = os.environ.get("NIPY_VERIF_REPO", "/repo")

MACROS = {
    "DIAG": r'#define\s+DIAG\(Diag\)\s+\(\s*\(Diag\)==\(CblasUnit\)\s*\?\s*"U"\s*:\s*"N"\s*\)',
    "TRANS": r'#define\s+TRANS\(Trans\)\s+\(\s*\(Trans\)==\(CblasNoTrans\)\s*\?\s*"N"\s*:\s*"T"\s*\)',
    "SWAP_TRANS": r'#define\s+SWAP_TRANS\(Trans\)\s+\(\s*\(Trans\)==\(CblasNoTrans\)\s*\?\s*"T"\s*:\s*"N"\s*\)',
    "SWAP_UPLO": r'#define\s+SWAP_UPLO\(Uplo\)\s+\(\s*\(Uplo\)==\(CblasUpper\)\s*\?\s*"L"\s*:\s*"U"\s*\)',
    "SWAP_SIDE": r'#define\s+SWAP_SIDE\(Side\)\s+\(\s*\(Side\)==\(CblasRight\)\s*\?\s*"L"\s*:\s*"R"\s*\)',
}
# wrapper -> flags it must build (variable name -> C argument), vector/matrix operands whose order matters
WRAPPERS = {
    "dgemv": dict(flags={"trans": "TransA"}, first=("x", "y"), dims=("A",)),
    "dtrmv": dict(flags={"uplo": "Uplo", "trans": "TransA", "diag": "Diag"}),
    "dtrsv": dict(flags={"uplo": "Uplo", "trans": "TransA", "diag": "Diag"}),
    "dsymv": dict(flags={"uplo": "Uplo"}),
    "dger": dict(flags={}, first=("x", "y"), dims=("A",)),
    "dsyr": dict(flags={"uplo": "Uplo"}),
    "dsyr2": dict(flags={"uplo": "Uplo"}, first=("x", "y")),
    "dgemm": dict(flags={"transa": "TransA", "transb": "TransB"}, first=("A", "B"), dims=("C",)),
    "dsymm": dict(flags={"side": "Side", "uplo": "Uplo"}, dims=("C",)),
    "dtrmm": dict(flags={"side": "Side", "uplo": "Uplo", "transa": "TransA", "diag": "Diag"}, dims=("B",)),
    "dtrsm": dict(flags={"side": "Side", "uplo": "Uplo", "transa": "TransA", "diag": "Diag"}, dims=("B",)),
    "dsyrk": dict(flags={"uplo": "Uplo", "trans": "Trans"}),
    "dsyr2k": dict(flags={"uplo": "Uplo", "trans": "Trans"}, first=("A", "B")),
}


def _dec(text):
    """exact rational of a decimal literal as written"""
    return Fraction(text)


def read(TieBroken):
    cs = open(os.path.join(REPO, "nipy/algorithms/registration/cubic_spline.c")).read()
    m1 = re.search(r"double\s+z1\s*=\s*(-?\d+\.\d+)\s*;", cs)
    m2 = re.search(r"double\s+cz1\s*=\s*(-?\d+\.\d+)\s*;", cs)
    m3 = re.search(r"y\s*=\s*(\d+\.\d+)\s*-\s*aux\s*\+\s*0\.5\s*\*\s*absx\s*\*\s*aux\s*;", cs)
    if not (m1 and m2 and m3):
        raise TieBroken("cubic_spline.c: the literals z1 / cz1 / the constant of cubic_spline_basis are not where expected")
    consts = {"z1": m1.group(1), "cz1": m2.group(1), "c23": m3.group(1)}
    bl = open(os.path.join(REPO, "lib/fff/fff_blas.c")).read()
    for name, pat in MACROS.items():
        if not re.search(pat, bl):
            raise TieBroken(f"fff_blas.c: macro {name} has an unexpected definition")
    table = {}
    for w, spec in WRAPPERS.items():
        m = re.search(r"\n(?:int|double)\s+fff_blas_" + w + r"\s*\((.*?)\)\s*\{(.*?)\n\}", bl, re.S)
        if not m:
            raise TieBroken(f"fff_blas.c: wrapper fff_blas_{w} not found")
        body = m.group(2)
        ent = {}
        for var, arg in spec["flags"].items():
            mm = re.search(r"char\s*\*\s*" + var + r"\s*=\s*([A-Z_]+)\(\s*" + arg + r"\s*\)\s*;", body)
            if not mm or mm.group(1) not in MACROS:
                raise TieBroken(f"fff_blas_{w}: flag `{var}` is not built by one of the known macros")
            ent[var] = mm.group(1)
        call = re.search(r"FNAME\(" + w + r"\)\s*\((.*?)\)\s*\)?\s*;", body, re.S)
        if not call:
            raise TieBroken(f"fff_blas_{w}: call of the Fortran routine not found")
        args = [a.strip() for a in call.group(1).replace("\n", " ").split(",")]
        ent["args"] = args
        if "first" in spec:
            a, b = spec["first"]
            ia = next((k for k, t in enumerate(args) if t == f"{a}->data"), None)
            ib = next((k for k, t in enumerate(args) if t == f"{b}->data"), None)
            if ia is None or ib is None:
                raise TieBroken(f"fff_blas_{w}: operands {a}, {b} not found in the Fortran call")
            ent["swapped"] = ib < ia
        if "dims" in spec:
            d = spec["dims"][0]
            mm = re.search(r"int\s+m\s*=\s*(?:\(int\)\s*)?" + d + r"->size([12])\s*;", body)
            nn = re.search(r"int\s+n\s*=\s*(?:\(int\)\s*)?" + d + r"->size([12])\s*;", body)
            if not mm or not nn or {mm.group(1), nn.group(1)} != {"1", "2"}:
                raise TieBroken(f"fff_blas_{w}: m / n are not the two sizes of {d}")
            ent["m_is_size2"] = mm.group(1) == "2"
        # the order of the flag arguments in the call (dgemm hands transb first)
        ent["flag_order"] = [a for a in args if a in spec["flags"]]
        table[w] = ent
    return consts, table


def lean_source(TieBroken):
    consts, t = read(TieBroken)
    b = lambda x: "true" if x else "false"
    rat = lambda s: (lambda f: f"(({f.numerator} : Int) : Rat) / {f.denominator}")(_dec(s))

    def sw(w, var):
        """does the wrapper swap this flag?  TRANS/DIAG keep it"""
        return t[w][var].startswith("SWAP_")
    L = ["/- GENERATED by harness/props/c16_tables.py from nipy/algorithms/registration/cubic_spline.c and",
         "   lib/fff/fff_blas.c (current text of the tree under test).  Do not edit. -/",
         "namespace NipyVerif.C16.Gen", "",
         "/-- the pole, `z/(z^2-1)` and the constant of `cubic_spline_basis`, as the decimal literals are written -/",
         f"def z1c : Rat := {rat(consts['z1'])}", f"def cz1c : Rat := {rat(consts['cz1'])}",
         f"def c23c : Rat := {rat(consts['c23'])}", "",
         "/-! flag table of `fff_blas.c`: `true` = the wrapper hands the column-major routine the swapped flag",
         "    (`SWAP_*` macro), `false` = the caller's flag (`TRANS`, `DIAG`); `…SwapsOperands` = the two operands",
         "    are handed over in exchanged order; `…MIsSize2` = `m` is the second size of the row-major matrix -/"]
    items = [
        ("gemvSwapTrans", sw("dgemv", "trans")), ("gemvMIsSize2", t["dgemv"]["m_is_size2"]),
        ("gemvSwapsOperands", t["dgemv"]["swapped"]),
        ("trmvSwapUplo", sw("dtrmv", "uplo")), ("trmvSwapTrans", sw("dtrmv", "trans")), ("trmvSwapDiag", sw("dtrmv", "diag")),
        ("trsvSwapUplo", sw("dtrsv", "uplo")), ("trsvSwapTrans", sw("dtrsv", "trans")), ("trsvSwapDiag", sw("dtrsv", "diag")),
        ("symvSwapUplo", sw("dsymv", "uplo")),
        ("gerSwapsOperands", t["dger"]["swapped"]), ("gerMIsSize2", t["dger"]["m_is_size2"]),
        ("syrSwapUplo", sw("dsyr", "uplo")),
        ("syr2SwapUplo", sw("dsyr2", "uplo")), ("syr2SwapsOperands", t["dsyr2"]["swapped"]),
        ("gemmSwapTransA", sw("dgemm", "transa")), ("gemmSwapTransB", sw("dgemm", "transb")),
        ("gemmSwapsOperands", t["dgemm"]["swapped"] and t["dgemm"]["flag_order"] == ["transb", "transa"]),
        ("gemmMIsSize2", t["dgemm"]["m_is_size2"]),
        ("symmSwapSide", sw("dsymm", "side")), ("symmSwapUplo", sw("dsymm", "uplo")), ("symmMIsSize2", t["dsymm"]["m_is_size2"]),
        ("trmmSwapSide", sw("dtrmm", "side")), ("trmmSwapUplo", sw("dtrmm", "uplo")), ("trmmSwapTrans", sw("dtrmm", "transa")),
        ("trmmMIsSize2", t["dtrmm"]["m_is_size2"]),
        ("trsmSwapSide", sw("dtrsm", "side")), ("trsmSwapUplo", sw("dtrsm", "uplo")), ("trsmSwapTrans", sw("dtrsm", "transa")),
        ("trsmMIsSize2", t["dtrsm"]["m_is_size2"]),
        ("syrkSwapUplo", sw("dsyrk", "uplo")), ("syrkSwapTrans", sw("dsyrk", "trans")),
        ("syr2kSwapUplo", sw("dsyr2k", "uplo")), ("syr2kSwapTrans", sw("dsyr2k", "trans")),
        ("syr2kSwapsOperands", t["dsyr2k"]["swapped"]),
    ]
    if t["dgemm"]["swapped"] != (t["dgemm"]["flag_order"] == ["transb", "transa"]):
        raise TieBroken("fff_blas_dgemm: operands and transpose flags are not exchanged together")
    for name, val in items:
        L.append(f"def {name} : Bool := {b(val)}")
    L += ["", "end NipyVerif.C16.Gen", ""]
    return "\n".join(L), consts
