"""C19 (wave 5) — expression translator: function bodies of the anchored sources, statement by statement,
as Lean terms over the numpy leaves of `lean/NipyVerif/Model/C19E.lean` -> lean/NipyVerif/Gen/C19Expr.lean.

Read with `ast` from the *current* text of
  nipy/labs/mask.py                        `compute_mask` (whole body: sort, exclude_zeros, the two cut indices,
                                           the gap vector, argmax, the midpoint threshold, the comparison, cc /
                                           opening dispatch), `largest_cc` (whole body), `threshold_connect_components`
                                           (whole body incl. the enumerate loop),
  nipy/algorithms/diagnostics/timediff.py  `time_slice_diffs`: the axis prologue up to the second rollaxis, the two
                                           back-rolls, and the loop expressions (squared difference, slice means,
                                           the strict `>` of the highest-difference search, the `T-1` divisor),
  nipy/algorithms/utils/pca.py             `pca`: the three `project_resid` bodies and the projector, `X`, the
                                           `ncomp is None` default and `[:ncomp]`, the axis normalisation.
Every expression goes through one typed expression translator (`_Tr`): names must be declared with a type, operators
and calls must be in its table, anything else raises TieBroken.  `ndimage.label`, `npl.pinv`,
`ndimage.binary_opening`, `largest_cc` (inside `compute_mask`) are named leaves = parameters of the generated
functions.  Theorems `*_as_modelled` of Props/C19E state that the generated terms are the model's definitions.
"""
from __future__ import annotations

import ast
import os
from fractions import Fraction

NUM = ("Nat", "Int", "Rat")


def _func(tree, name):
    for n in ast.walk(tree):
        if isinstance(n, ast.FunctionDef) and n.name == name:
            return n
    return None


def _body(fn):
    b = list(fn.body)
    if b and isinstance(b[0], ast.Expr) and isinstance(getattr(b[0], "value", None), ast.Constant) \
            and isinstance(b[0].value.value, str):
        b = b[1:]
    # free-standing string literals are comments
    return [s for s in b if not (isinstance(s, ast.Expr) and isinstance(s.value, ast.Constant)
                                 and isinstance(s.value.value, str))]


class _Tr:
    """typed Python expression -> Lean term.  env: name -> type.  Returns (term, type, monadic)."""

    def __init__(self, where, env, T, dims=None):
        self.where, self.env, self.T = where, dict(env), T
        self.dims = dims or {}

    def bad(self, node, why="not translated"):
        raise self.T(f"{self.where}: {why}: {ast.unparse(node)[:200]}")

    def cast(self, term, ty, to):
        if ty == to:
            return term
        if ty in NUM and to in NUM and NUM.index(ty) < NUM.index(to):
            return f"({term} : {to})"
        raise self.T(f"{self.where}: cannot use {ty} term {term} as {to}")

    def num(self, node, to):
        t, ty, m = self.ex(node)
        if m or ty not in NUM:
            self.bad(node, f"expected a {to} scalar")
        return self.cast(t, ty, to)

    def const(self, node):
        v = node.value
        if isinstance(v, bool) or not isinstance(v, (int, float)):
            self.bad(node, "constant")
        if isinstance(v, int):
            return (str(v), "Nat", False) if v >= 0 else (f"({v} : Int)", "Int", False)
        q = Fraction(repr(v))
        return (f"(({q.numerator} : Rat) / {q.denominator})" if q.denominator != 1 else f"({q.numerator} : Rat)",
                "Rat", False)

    def ex(self, node):
        t, ty, m = self.ex0(node)
        if " " in t and not (t.startswith("(") and t.endswith(")")):
            t = f"({t})"
        return t, ty, m

    def ex0(self, node):
        if isinstance(node, ast.Name):
            if node.id not in self.env:
                self.bad(node, "undeclared name")
            return node.id, self.env[node.id], False
        if isinstance(node, ast.Constant):
            return self.const(node)
        if isinstance(node, ast.UnaryOp) and isinstance(node.op, ast.USub) and isinstance(node.operand, ast.Constant):
            t, ty, _ = self.const(node.operand)
            return f"(-{t} : Int)", "Int", False
        if isinstance(node, ast.UnaryOp) and isinstance(node.op, ast.Not):
            t, ty, m = self.ex(node.operand)
            if ty == "Nat" and not m:          # `not label_nb`
                return f"decide ({t} = 0)", "Bool", False
            if ty == "Bool" and not m:
                return f"(!{t})", "Bool", False
            self.bad(node)
        if isinstance(node, ast.BinOp):
            return self.binop(node)
        if isinstance(node, ast.Compare) and len(node.ops) == 1:
            return self.compare(node)
        if isinstance(node, ast.IfExp):
            c = self.boolean(node.test)
            a, ta, ma = self.ex(node.body)
            b, tb, mb = self.ex(node.orelse)
            if ma or mb or ta not in NUM or tb not in NUM:
                self.bad(node)
            ty = NUM[max(NUM.index(ta), NUM.index(tb))]
            return f"(if {c} then {self.cast(a, ta, ty)} else {self.cast(b, tb, ty)})", ty, False
        if isinstance(node, ast.Subscript):
            return self.subscript(node)
        if isinstance(node, ast.Call):
            return self.call(node)
        if isinstance(node, ast.Attribute) and node.attr == "ndim" and isinstance(node.value, ast.Name) \
                and node.value.id in self.dims:
            return self.dims[node.value.id], "Int", False
        self.bad(node)

    def boolean(self, node):
        t, ty, m = self.ex(node)
        if m:
            self.bad(node, "monadic test")
        if ty == "Bool":
            if t.startswith("(decide (") and t.endswith("))"):
                return t[len("(decide "):-1]
            return t
        self.bad(node, "test is not boolean")

    def binop(self, node):
        op = {ast.Add: "+", ast.Sub: "-", ast.Mult: "*", ast.Div: "/"}.get(type(node.op))
        if isinstance(node.op, ast.Pow):
            return self.ex_pow(node)
        if op is None:
            self.bad(node, "operator")
        if isinstance(node.left, ast.Constant) and isinstance(node.right, ast.Constant) \
                and all(isinstance(x.value, (int, float)) and not isinstance(x.value, bool)
                        for x in (node.left, node.right)) \
                and any(isinstance(x.value, float) for x in (node.left, node.right)):
            # a float constant expression: folded in double precision, emitted as the exact value of the double
            v = {"+": lambda x, y: x + y, "-": lambda x, y: x - y, "*": lambda x, y: x * y,
                 "/": lambda x, y: x / y}[op](float(node.left.value), float(node.right.value))
            q = Fraction(v)
            return f"(({q.numerator} : Rat) / {q.denominator})", "Rat", False
        a, ta, ma = self.ex(node.left)
        b, tb, mb = self.ex(node.right)
        if ma or mb:
            self.bad(node, "monadic operand")
        if ta in NUM and tb in NUM:
            ty = NUM[max(NUM.index(ta), NUM.index(tb))]
            if op == "/" :
                ty = "Rat"
            if op == "-" and ty == "Nat":
                self.bad(node, "natural-number subtraction")
            return f"({self.cast(a, ta, ty)} {op} {self.cast(b, tb, ty)})", ty, False
        if op == "-" and ta == "Vec" and tb == "Vec":
            return f"Np.sub {a} {b}", "Vec", True
        if op == "-" and ta == "Col" and tb == "Rat":
            return f"Np.subS {a} {b}", "Col", False
        if op == "-" and ta == "Col" and tb == "Col":
            return f"Np.subV t {a} {b}", "Col", False
        self.bad(node, f"operand types {ta} {op} {tb}")

    def ex_pow(self, node):
        # np.subtract(tp, last_tp, dtype=np.float64) ** 2  ->  element-wise lambda over two volumes
        if isinstance(node.right, ast.Constant) and node.right.value == 2 and isinstance(node.left, ast.Call) \
                and ast.unparse(node.left.func) == "np.subtract" and len(node.left.args) == 2 \
                and [k.arg for k in node.left.keywords] == ["dtype"] \
                and ast.unparse(node.left.keywords[0].value) == "np.float64":
            a, ta, _ = self.ex(node.left.args[0])
            b, tb, _ = self.ex(node.left.args[1])
            if ta == tb == "Vol":
                return f"Np.map2 (fun x y => (x - y) * (x - y)) {a} {b}", "Vol", False
        self.bad(node, "power")

    def compare(self, node):
        o = node.ops[0]
        l, r = node.left, node.comparators[0]
        if isinstance(o, (ast.Is, ast.IsNot)):
            self.bad(node, "identity test outside a statement pattern")
        a, ta, ma = self.ex(l)
        b, tb, mb = self.ex(r)
        if ma or mb:
            self.bad(node)
        if ta in NUM and tb in NUM:
            ty = NUM[max(NUM.index(ta), NUM.index(tb))]
            a, b = self.cast(a, ta, ty), self.cast(b, tb, ty)
            rel = {ast.Lt: f"{a} < {b}", ast.Gt: f"{b} < {a}", ast.LtE: f"{a} ≤ {b}", ast.GtE: f"{b} ≤ {a}",
                   ast.Eq: f"{a} = {b}", ast.NotEq: f"{a} ≠ {b}"}.get(type(o))
            if rel is None:
                self.bad(node)
            return f"decide ({rel})", "Bool", False
        if ta == "Vec" and tb in NUM:
            b = self.cast(b, tb, "Rat")
            if isinstance(o, ast.NotEq):
                return f"Np.neS {a} {b}", "BVec", False
            if isinstance(o, ast.GtE):
                return f"Np.geS {a} {b}", "BVec", False
        if ta == "NVec" and tb == "Nat" and isinstance(o, ast.Eq):
            return f"Np.eqN {a} {b}", "BVec", False
        self.bad(node, f"comparison {ta} / {tb}")

    def subscript(self, node):
        a, ta, ma = self.ex(node.value)
        if ma:
            self.bad(node)
        s = node.slice
        if ta == "Vec" and isinstance(s, ast.Slice) and s.step is None and s.lower is not None and s.upper is not None:
            return f"Np.slice {a} {self.num(s.lower, 'Nat')} {self.num(s.upper, 'Nat')}", "Vec", False
        if ta == "Vec" and not isinstance(s, (ast.Slice, ast.Tuple)):
            i, ti, mi = self.ex(s)
            if ti == "BVec":
                return f"Np.maskSel {a} ({i})", "Vec", False
            if ti == "Nat":
                return f"Np.getF {a} {i}", "Rat", False
        if ta == "Rat" and ast.unparse(s) in ("(None, ...)", "None, ..."):      # s[None, ...] broadcasts over rows
            return a, "Rat", False
        self.bad(node, f"subscript of {ta}")

    def call(self, node):
        f = ast.unparse(node.func)
        a, kw = node.args, node.keywords
        if f == "float" and len(a) == 1 and not kw:
            t, ty, m = self.ex(a[0])
            if ty == "Rat" and not m:
                return t, "Rat", False
        if f == "int" and len(a) == 1 and isinstance(a[0], ast.Call) and ast.unparse(a[0].func) == "math.floor" \
                and len(a[0].args) == 1:
            return f"Np.floorNat {self.num(a[0].args[0], 'Rat')}", "Nat", False
        if f == "min" and len(a) == 2 and not kw:
            return f"min {self.num(a[0], 'Rat')} {self.num(a[1], 'Rat')}", "Rat", False
        if f == "len" and len(a) == 1 and isinstance(a[0], ast.Call) and ast.unparse(a[0].func) == "list" \
                and len(a[0].args) == 1 and isinstance(a[0].args[0], ast.Name) \
                and self.env.get(a[0].args[0].id) == "Masks":
            return f"{a[0].args[0].id}.length", "Nat", False
        if f == "len" and len(a) == 1:
            t, ty, m = self.ex(a[0])
            if ty == "Vec" and not m:
                return f"{t}.length", "Nat", False
        if f == "np.sort" and len(a) == 1 and not kw and isinstance(a[0], ast.Call) and not a[0].keywords \
                and isinstance(a[0].func, ast.Attribute) and a[0].func.attr == "reshape" \
                and [ast.unparse(x) for x in a[0].args] == ["-1"]:
            t, ty, m = self.ex(a[0].func.value)
            if ty == "Vec":
                return f"Np.sort {t}", "Vec", False
        if f == "np.asarray" and len(a) == 1 and not kw:
            return self.ex(a[0])
        if f == "np.bincount" and len(a) == 1 and not kw:
            x = ast.unparse(a[0])
            for suf in (".ravel().astype(np.int_)", ".ravel()"):
                if x.endswith(suf) and self.env.get(x[:-len(suf)]) == "NVec":
                    return f"Np.bincount {x[:-len(suf)]}", "NVec", False
        if f == "np.dot" and len(a) == 2 and not kw:
            x, tx, _ = self.ex(a[0])
            if tx == "Mat" and isinstance(a[1], ast.Call) and ast.unparse(a[1].func) == "npl.pinv" \
                    and len(a[1].args) == 1 and ast.unparse(a[1].args[0]) == x:
                return f"Np.dot t (width {x}) t {x} pinv_{x}", "Mat", False
            y, ty_, _ = self.ex(a[1])
            if tx == "Mat" and ty_ == "Col":
                return f"Np.matvec t {x} {y}", "Col", False
        if f == "np.eye" and len(a) == 1 and not kw and ast.unparse(a[0]) == "data.shape[0]":
            return "Np.eye t", "Mat", False
        if isinstance(node.func, ast.Attribute) and not kw:
            o, to, mo = self.ex(node.func.value)
            at = node.func.attr
            if not mo:
                if at == "argmax" and not a and to == "Vec":
                    return f"Np.argmax {o}", "Nat", True
                if at == "argmax" and not a and to == "NVec":
                    return f"Np.argmaxN {o}", "Nat", False
                if at == "astype" and len(a) == 1 and ast.unparse(a[0]) in ("bool", "np.bool_"):
                    if to == "BVec":
                        return o, "BVec", False
                    if to == "Vec":
                        return f"Np.astypeBool {o}", "BVec", False
                if at == "astype" and len(a) == 1 and ast.unparse(a[0]) == "np.int_" and to == "BVec":
                    return o, "BVec", False
                if at == "copy" and not a:
                    return o, to, False
                if at == "mean" and [ast.unparse(x) for x in a] == ["0"] and to == "Col":
                    return f"Np.colMean t {o}", "Rat", False
        self.bad(node, "call")


class _Fn:
    """statement list -> Lean term of type `Except String ρ` (or pure ρ)."""

    def __init__(self, tr, pure=False):
        self.tr, self.pure, self.lines = tr, pure, []

    def ok(self, t):
        return t if self.pure else f".ok ({t})"

    def let(self, name, term, ty, monadic):
        if monadic:
            if self.pure:
                raise self.tr.T(f"{self.tr.where}: refusing expression in a pure function: {term}")
            self.lines.append(f"({term}) >>= fun {name} =>")
        else:
            self.lines.append(f"let {name} := {term}")
        self.tr.env[name] = ty

    def assign(self, st):
        if not (isinstance(st, ast.Assign) and len(st.targets) == 1 and isinstance(st.targets[0], ast.Name)):
            self.tr.bad(st, "statement")
        t, ty, m = self.tr.ex(st.value)
        self.let(st.targets[0].id, t, ty, m)

    def stmt(self, st):
        tr = self.tr
        if isinstance(st, ast.Assign):
            return self.assign(st)
        if isinstance(st, ast.AugAssign) and isinstance(st.target, ast.Name) and isinstance(st.op, ast.Add):
            n = st.target.id
            ty = tr.env.get(n)
            if ty not in NUM:
                tr.bad(st)
            return self.let(n, f"{n} + {tr.num(st.value, ty)}", ty, False)
        if isinstance(st, ast.If):
            return self.if_(st)
        tr.bad(st, "statement")

    def if_(self, st):
        tr = self
        T = self.tr
        # `if x is None: x = e [elif c: x += e]`
        if isinstance(st.test, ast.Compare) and isinstance(st.test.ops[0], ast.Is) \
                and ast.unparse(st.test.comparators[0]) == "None" and isinstance(st.test.left, ast.Name):
            x = st.test.left.id
            ty = T.env.get(x, "")
            if not ty.startswith("Opt ") or len(st.body) != 1 or not isinstance(st.body[0], ast.Assign) \
                    or ast.unparse(st.body[0].targets[0]) != x:
                T.bad(st, "None-default")
            inner = ty[4:]
            e, te, me = T.ex(st.body[0].value)
            if me:
                T.bad(st)
            e = T.cast(e, te, inner)
            some = "v"
            if st.orelse:
                if not (len(st.orelse) == 1 and isinstance(st.orelse[0], ast.If) and not st.orelse[0].orelse
                        and len(st.orelse[0].body) == 1 and isinstance(st.orelse[0].body[0], ast.AugAssign)
                        and ast.unparse(st.orelse[0].body[0].target) == x
                        and isinstance(st.orelse[0].body[0].op, ast.Add)):
                    T.bad(st, "elif shape")
                saved = dict(T.env)
                T.env[x] = inner
                c = T.boolean(st.orelse[0].test)
                inc = T.num(st.orelse[0].body[0].value, inner)
                T.env = saved
                # inside the match the name denotes the value
                some = f"(fun {x} => if {c} then {x} + {inc} else {x}) v"
            self.lines.append(f"let {x} : {_lean_ty(inner)} := match {x} with | none => {e} | some v => {some}")
            T.env[x] = inner
            return
        c = T.boolean(st.test) if not (isinstance(st.test, ast.Name) and T.env.get(st.test.id) == "Bool") \
            else st.test.id
        if st.orelse:
            T.bad(st, "else branch")
        if len(st.body) == 1 and isinstance(st.body[0], ast.Raise):
            exc = ast.unparse(st.body[0].exc)
            if not exc.startswith("ValueError("):
                T.bad(st, "exception kind")
            if self.pure:
                T.bad(st, "raise in a pure function")
            self.lines.append(f'if {c} then .error "error:valueError" else')
            return
        if len(st.body) == 1 and isinstance(st.body[0], ast.Return):
            t, ty, m = T.ex(st.body[0].value)
            if m:
                T.bad(st)
            self.lines.append(f"if {c} then {self.ok(t)} else")
            return
        if len(st.body) == 1 and isinstance(st.body[0], ast.AugAssign) and isinstance(st.body[0].op, ast.Add) \
                and isinstance(st.body[0].target, ast.Name):
            n = st.body[0].target.id
            ty = T.env.get(n)
            if ty not in NUM:
                T.bad(st)
            self.lines.append(f"let {n} := if {c} then {n} + {T.num(st.body[0].value, ty)} else {n}")
            return
        if len(st.body) == 1 and isinstance(st.body[0], ast.Assign) and isinstance(st.body[0].targets[0], ast.Name):
            n = st.body[0].targets[0].id
            ty0 = T.env.get(n)
            t, ty, m = T.ex(st.body[0].value)
            if ty0 is None or ty != ty0:
                T.bad(st, "conditional assignment changes the type")
            if m:
                self.lines.append(f"(if {c} then {t} else .ok {n}) >>= fun {n} =>")
            else:
                self.lines.append(f"let {n} := if {c} then {t} else {n}")
            return
        T.bad(st, "if shape")

    def render(self, final, indent="  "):
        return "\n".join(indent + l for l in self.lines + [final])


def _lean_ty(t):
    return {"Vec": "List Rat", "BVec": "List Bool", "NVec": "List Nat", "Col": "List Rat"}.get(t, t)


def translate(repo, TieBroken):
    def parse(rel):
        try:
            return ast.parse(open(os.path.join(repo, rel)).read())
        except Exception as e:
            raise TieBroken(f"{rel}: cannot parse ({e})")

    out = ["/- GENERATED by harness/props/c19_expr.py from the current text of nipy/labs/mask.py,",
           "   nipy/algorithms/diagnostics/timediff.py and nipy/algorithms/utils/pca.py: function bodies statement by",
           "   statement as Lean terms over the numpy leaves of Model/C19E.lean.  Do not edit. -/",
           "import NipyVerif.Model.C19E", "",
           "namespace NipyVerif.C19.Ex", "open NipyVerif.C19", ""]

    # ------------------------------------------------------------------ mask.py :: compute_mask
    rel = "nipy/labs/mask.py"
    mt = parse(rel)
    fn = _func(mt, "compute_mask")
    if fn is None or [a.arg for a in fn.args.args] != ["mean_volume", "reference_volume", "m", "M", "cc", "opening",
                                                       "exclude_zeros"]:
        raise TieBroken(f"{rel}: compute_mask not found / unexpected signature")
    body = _body(fn)
    tr = _Tr(f"{rel}::compute_mask", {"mean_volume": "Vec", "reference_volume": "Opt Vec", "m": "Rat", "M": "Rat",
                                       "cc": "Bool", "opening": "Int", "exclude_zeros": "Bool"}, TieBroken)
    F = _Fn(tr)
    if len(body) < 4:
        raise TieBroken(f"{rel}: compute_mask body too short")
    tail = body[-3:]
    for st in body[:-3]:
        F.stmt(st)
    for need, ty in (("threshold", "Rat"), ("mask", "BVec"), ("reference_volume", "Vec"), ("sorted_input", "Vec")):
        if tr.env.get(need) != ty:
            raise TieBroken(f"{rel}: compute_mask does not define {need} as {ty}")
    # if cc: mask = largest_cc(mask)
    st = tail[0]
    if not (isinstance(st, ast.If) and ast.unparse(st.test) == "cc" and not st.orelse
            and [ast.unparse(x) for x in st.body] == ["mask = largest_cc(mask)"]):
        raise TieBroken(f"{rel}: compute_mask: cc dispatch is {ast.unparse(st)!r}")
    F.lines.append("(if cc then largest_cc mask else .ok mask) >>= fun mask =>")
    st = tail[1]
    if not (isinstance(st, ast.If) and not st.orelse and [ast.unparse(x) for x in st.body] ==
            ["mask = ndimage.binary_opening(mask.astype(np.int_), iterations=opening)"]):
        raise TieBroken(f"{rel}: compute_mask: opening dispatch is {ast.unparse(st)!r}")
    F.lines.append(f"let mask := if {tr.boolean(st.test)} then binary_opening mask opening else mask")
    if ast.unparse(tail[2]) != "return mask.astype(bool)":
        raise TieBroken(f"{rel}: compute_mask returns {ast.unparse(tail[2])!r}")
    out += ["/-- `compute_mask(mean_volume, reference_volume, m, M, cc, opening, exclude_zeros)`; the local",
            "    `threshold` is returned with the mask -/",
            "def computeMask (largest_cc : List Bool → Except String (List Bool))",
            "    (binary_opening : List Bool → Int → List Bool)",
            "    (mean_volume : List Rat) (reference_volume : Option (List Rat)) (m M : Rat) (cc : Bool)",
            "    (opening : Int) (exclude_zeros : Bool) : Except String (Rat × List Bool) :=",
            F.render(".ok (threshold, mask)"), ""]

    # ------------------------------------------------------------------ mask.py :: largest_cc
    fn = _func(mt, "largest_cc")
    if fn is None or [a.arg for a in fn.args.args] != ["mask"]:
        raise TieBroken(f"{rel}: largest_cc not found")
    body = _body(fn)
    tr = _Tr(f"{rel}::largest_cc", {"mask": "Vec"}, TieBroken)
    F = _Fn(tr)
    seen_label = False
    for st in body[:-1]:
        txt = ast.unparse(st)
        if txt == "labels, label_nb = ndimage.label(mask)":
            tr.env["labels"], tr.env["label_nb"] = "NVec", "Nat"
            seen_label = True
        elif txt.startswith("label_count[") and isinstance(st, ast.Assign) and isinstance(st.targets[0], ast.Subscript) \
                and ast.unparse(st.targets[0].value) == "label_count" and tr.env.get("label_count") == "NVec":
            F.lines.append(f"let label_count := Np.setAt label_count {tr.num(st.targets[0].slice, 'Nat')} "
                           f"{tr.num(st.value, 'Nat')}")
        elif isinstance(st, ast.If) and isinstance(st.test, ast.Compare) and ast.unparse(st.test) == "label_nb == 1":
            F.stmt(st)
        else:
            F.stmt(st)
    if not seen_label or not isinstance(body[-1], ast.Return):
        raise TieBroken(f"{rel}: largest_cc: no ndimage.label / final return")
    t, ty, m = tr.ex(body[-1].value)
    if ty != "BVec" or m:
        raise TieBroken(f"{rel}: largest_cc returns {ast.unparse(body[-1])!r}")
    out += ["/-- `largest_cc(mask)` given `labels, label_nb = ndimage.label(mask)` -/",
            "def largestCC (mask : List Rat) (labels : List Nat) (label_nb : Nat) : Except String (List Bool) :=",
            F.render(f".ok ({t})"), ""]

    # ------------------------------------------------------------------ mask.py :: threshold_connect_components
    fn = _func(mt, "threshold_connect_components")
    if fn is None or [a.arg for a in fn.args.args] != ["map", "threshold", "copy"]:
        raise TieBroken(f"{rel}: threshold_connect_components not found")
    body = _body(fn)
    tr = _Tr(f"{rel}::threshold_connect_components", {"map": "Vec", "threshold": "Rat", "copy": "Bool"}, TieBroken)
    F = _Fn(tr, pure=True)
    if len(body) != 5 or ast.unparse(body[0]) != "labels, _ = ndimage.label(map)" \
            or ast.unparse(body[-1]) != "return map" or not isinstance(body[3], ast.For):
        raise TieBroken(f"{rel}: threshold_connect_components: unexpected statements")
    tr.env["labels"] = "NVec"
    F.stmt(body[1])
    F.stmt(body[2])
    loop = body[3]
    if ast.unparse(loop.target) != "(label, weight)" or not ast.unparse(loop.iter) == "enumerate(weights)" \
            or loop.orelse or len(loop.body) != 2 or tr.env.get("weights") != "NVec":
        raise TieBroken(f"{rel}: threshold_connect_components: loop header {ast.unparse(loop.target)} in "
                        f"{ast.unparse(loop.iter)}")
    tr.env["label"], tr.env["weight"] = "Nat", "Nat"
    s0, s1 = loop.body
    if not (isinstance(s0, ast.If) and not s0.orelse and [ast.unparse(x) for x in s0.body] == ["continue"]):
        raise TieBroken(f"{rel}: threshold_connect_components: first loop statement {ast.unparse(s0)!r}")
    skip = tr.boolean(s0.test)
    if not (isinstance(s1, ast.If) and not s1.orelse and len(s1.body) == 1 and isinstance(s1.body[0], ast.Assign)
            and isinstance(s1.body[0].targets[0], ast.Subscript) and ast.unparse(s1.body[0].targets[0].value) == "map"):
        raise TieBroken(f"{rel}: threshold_connect_components: second loop statement {ast.unparse(s1)!r}")
    cond = tr.boolean(s1.test)
    sel, tsel, _ = tr.ex(s1.body[0].targets[0].slice)
    if tsel != "BVec":
        raise TieBroken(f"{rel}: threshold_connect_components: selector {sel}")
    val = tr.num(s1.body[0].value, "Rat")
    out += ["/-- `threshold_connect_components(map, threshold, copy)` given `labels, _ = ndimage.label(map)` -/",
            "def thresholdCC (map : List Rat) (labels : List Nat) (threshold : Rat) (copy : Bool) : List Rat :=",
            F.render("Np.forEnum weights map (fun label weight map =>\n"
                     f"    if {skip} then map else if {cond} then Np.setWhere map ({sel}) {val} else map)"), ""]

    # ------------------------------------------------------------------ mask.py :: intersect_masks
    fn = _func(mt, "intersect_masks")
    if fn is None or [a.arg for a in fn.args.args] != ["input_masks", "output_filename", "threshold", "cc"]:
        raise TieBroken(f"{rel}: intersect_masks not found / unexpected signature")
    body = _body(fn)
    txt = [ast.unparse(x) for x in body]
    if len(body) != 9 or txt[0] != "grp_mask = None" or not isinstance(body[4], ast.For) \
            or not txt[7].startswith("if output_filename is not None:") or txt[8] != "return grp_mask > 0":
        raise TieBroken(f"{rel}: intersect_masks: unexpected statement list")
    tr = _Tr(f"{rel}::intersect_masks", {"input_masks": "Masks", "threshold": "Rat", "cc": "Bool"}, TieBroken)
    F = _Fn(tr)
    F.lines.append("let grp_mask : Option (List Nat) := none")
    for st in body[1:4]:
        F.stmt(st)
    loop = body[4]
    lb = list(loop.body)
    if ast.unparse(loop.target) != "this_mask" or ast.unparse(loop.iter) != "input_masks" or loop.orelse:
        raise TieBroken(f"{rel}: intersect_masks: loop header")
    if lb and isinstance(lb[0], ast.If) and ast.unparse(lb[0].test) == "isinstance(this_mask, str)" and not lb[0].orelse:
        lb = lb[1:]                       # file-name plumbing: the model sees the arrays as loaded
    if len(lb) != 2 or not isinstance(lb[0], ast.Assign) or ast.unparse(lb[0].targets[0]) != "this_mask":
        raise TieBroken(f"{rel}: intersect_masks: loop body {[ast.unparse(x) for x in lb]}")
    trl = _Tr(f"{rel}::intersect_masks loop", {"this_mask": "Vec"}, TieBroken)
    tm, tym, _ = trl.ex(lb[0].value)
    if tym != "BVec":
        raise TieBroken(f"{rel}: intersect_masks: this_mask is not made boolean: {ast.unparse(lb[0])}")
    if ast.unparse(lb[1]) != ("if grp_mask is None:\n    grp_mask = this_mask.astype(np.int_)\nelse:\n"
                              "    grp_mask = grp_mask + this_mask"):
        raise TieBroken(f"{rel}: intersect_masks: accumulation is {ast.unparse(lb[1])!r}")
    F.lines.append("let grp_mask := Np.forEach input_masks grp_mask (fun this_mask grp_mask =>")
    F.lines.append(f"    let this_mask := {tm}")
    F.lines.append("    match grp_mask with | none => some (Np.astypeInt this_mask) "
                   "| some grp_mask => some (Np.addB grp_mask this_mask))")
    st = body[5]
    if not (isinstance(st, ast.Assign) and ast.unparse(st.targets[0]) == "grp_mask" and isinstance(st.value, ast.Compare)
            and ast.unparse(st.value.left) == "grp_mask" and isinstance(st.value.ops[0], ast.Gt)):
        raise TieBroken(f"{rel}: intersect_masks: vote is {txt[5]!r}")
    F.lines.append('(match grp_mask with | none => .error "error:typeError" | some g => .ok g) >>= fun grp_mask =>')
    F.lines.append(f"let grp_mask := Np.gtNS grp_mask {tr.num(st.value.comparators[0], 'Rat')}")
    if txt[6] != "if np.any(grp_mask > 0) and cc:\n    grp_mask = largest_cc(grp_mask)":
        raise TieBroken(f"{rel}: intersect_masks: cc dispatch is {txt[6]!r}")
    F.lines.append("(if Np.anyB grp_mask && cc then largest_cc grp_mask else .ok grp_mask) >>= fun grp_mask =>")
    out += ["/-- `intersect_masks(input_masks, None, threshold, cc)` on loaded arrays -/",
            "def intersectMasks (largest_cc : List Bool → Except String (List Bool))",
            "    (input_masks : List (List Rat)) (threshold : Rat) (cc : Bool) : Except String (List Bool) :=",
            F.render(".ok grp_mask"), ""]

    # ------------------------------------------------------------------ timediff.py :: time_slice_diffs
    rel = "nipy/algorithms/diagnostics/timediff.py"
    fn = _func(parse(rel), "time_slice_diffs")
    if fn is None or [a.arg for a in fn.args.args] != ["arr", "time_axis", "slice_axis"]:
        raise TieBroken(f"{rel}: time_slice_diffs not found")
    body = _body(fn)
    txt = [ast.unparse(s) for s in body]
    try:
        i0 = txt.index("ndim = arr.ndim")
        i1 = txt.index("arr = np.rollaxis(arr, slice_axis, 1)")
    except ValueError:
        raise TieBroken(f"{rel}: axis prologue of time_slice_diffs not found")
    tr = _Tr(f"{rel}::time_slice_diffs", {"time_axis": "Int", "slice_axis": "Opt Int"}, TieBroken, dims={"arr": "(n : Int)"})
    F = _Fn(tr)
    F.lines.append("let arr : Option (List Nat) := none")
    for st in body[i0:i1 + 1]:
        s = ast.unparse(st)
        if isinstance(st, ast.Assign) and s.startswith("arr = np.rollaxis(arr, "):
            a = st.value.args
            if len(a) not in (2, 3) or st.value.keywords:
                raise TieBroken(f"{rel}: {s}")
            start = tr.num(a[2], "Int") if len(a) == 3 else "0"
            F.lines.append(f"(Np.rollaxis n arr {tr.num(a[1], 'Int')} {start}) >>= fun arr =>")
        else:
            F.stmt(st)
    out += ["/-- axis prologue of `time_slice_diffs` (`ndim = arr.ndim` … `arr = np.rollaxis(arr, slice_axis, 1)`):",
            "    the axes list applied to the input and the adjusted `slice_axis` -/",
            "def tsdAxes (n : Nat) (time_axis : Int) (slice_axis : Option Int) : Except String (List Nat × Int) :=",
            F.render(".ok (arr.getD (List.range n), slice_axis)"), ""]
    rest = txt[i1 + 1:]
    for v in ("diff_mean_vol", "slice_diff_max_vol"):
        if f"{v} = np.rollaxis({v}, 0, slice_axis)" not in rest:
            raise TieBroken(f"{rel}: {v} is not rolled back with np.rollaxis({v}, 0, slice_axis)")
    out += ["/-- `np.rollaxis(diff_mean_vol, 0, slice_axis)` / `np.rollaxis(slice_diff_max_vol, 0, slice_axis)` on a volume -/",
            "def tsdBackRoll (n : Nat) (slice_axis : Int) : Except String (List Nat) := rollaxisPerm (n - 1) 0 slice_axis", ""]
    loops = [s for s in body if isinstance(s, ast.For)]
    if len(loops) != 1 or ast.unparse(loops[0].iter) != "range(T - 1)" or ast.unparse(loops[0].target) != "dtpi":
        raise TieBroken(f"{rel}: accumulation loop of time_slice_diffs not found")
    lb = {ast.unparse(s.targets[0]): s.value for s in loops[0].body if isinstance(s, ast.Assign)}
    if ast.unparse(loops[0].body[0]) != "tp = arr[dtpi + 1]" or ast.unparse(loops[0].body[-1]) != "last_tp = tp" \
            or "last_tp = arr[0]" not in txt:
        raise TieBroken(f"{rel}: loop does not step tp / last_tp through successive volumes")
    tr = _Tr(f"{rel}::time_slice_diffs loop", {"tp": "Vol", "last_tp": "Vol"}, TieBroken)
    if "dtp_diff2" not in lb:
        raise TieBroken(f"{rel}: dtp_diff2 not assigned")
    t, ty, _ = tr.ex(lb["dtp_diff2"])
    out += ["/-- `dtp_diff2 = np.subtract(tp, last_tp, dtype=np.float64)**2` -/",
            f"def dtpDiff2 (last_tp tp : Vol) : Vol := {t}", ""]
    if ast.unparse(lb.get("sliceds[dtpi]", ast.Constant(0))) != "dtp_diff2.reshape(S, -1).mean(-1)":
        raise TieBroken(f"{rel}: sliceds[dtpi] is not dtp_diff2.reshape(S, -1).mean(-1)")
    out += ["/-- `sliceds[dtpi] = dtp_diff2.reshape(S, -1).mean(-1)` -/",
            "def sliceMeans (dtp_diff2 : Vol) : List Rat := dtp_diff2.map mean", ""]
    hv = lb.get("sdmx_higher")
    if hv is None or not (isinstance(hv, ast.Compare) and ast.unparse(hv.left) == "sliceds[dtpi]"
                          and ast.unparse(hv.comparators[0]) == "slice_diff_maxes"):
        raise TieBroken(f"{rel}: sdmx_higher is not a comparison of sliceds[dtpi] with slice_diff_maxes")
    tr2 = _Tr(f"{rel}::sdmx_higher", {"sliced": "Rat", "slice_diff_max": "Rat"}, TieBroken)
    t, _, _ = tr2.compare(ast.Compare(left=ast.Name(id="sliced"), ops=hv.ops, comparators=[ast.Name(id="slice_diff_max")]))
    upd = [ast.unparse(s) for s in ast.walk(loops[0]) if isinstance(s, ast.Assign) and "sdmx_higher]" in ast.unparse(s)]
    if upd != ["slice_diff_maxes[sdmx_higher] = sliceds[dtpi][sdmx_higher]",
               "slice_diff_max_vol[sdmx_higher] = dtp_diff2[sdmx_higher]"]:
        raise TieBroken(f"{rel}: highest-difference update is {upd}")
    out += ["/-- `sdmx_higher = sliceds[dtpi] > slice_diff_maxes`, for one slice -/",
            f"def sdmxHigher (sliced slice_diff_max : Rat) : Bool := {t}", ""]
    if "volds = sliceds.mean(1)" not in txt or "diff_mean_vol += dtp_diff2" not in [ast.unparse(s) for s in loops[0].body]:
        raise TieBroken(f"{rel}: volds / diff_mean_vol accumulation not as expected")
    dv = [s for s in body if isinstance(s, ast.AugAssign) and ast.unparse(s.target) == "diff_mean_vol"]
    if len(dv) != 1 or not isinstance(dv[0].op, ast.Div):
        raise TieBroken(f"{rel}: diff_mean_vol is not divided once after the loop")
    tr3 = _Tr(f"{rel}::diff_mean_vol", {"T": "Int"}, TieBroken)
    out += ["/-- `diff_mean_vol /= (T-1)` : the divisor -/",
            f"def diffMeanDivisor (T : Int) : Rat := {tr3.num(dv[0].value, 'Rat')}", ""]

    # ------------------------------------------------------------------ pca.py :: pca
    rel = "nipy/algorithms/utils/pca.py"
    fn = _func(parse(rel), "pca")
    if fn is None:
        raise TieBroken(f"{rel}: pca not found")
    body = _body(fn)
    sel = [s for s in body if isinstance(s, ast.If) and ast.unparse(s.test) ==
           "isinstance(design_resid, str) and design_resid == 'mean'"]
    if len(sel) != 1:
        raise TieBroken(f"{rel}: project_resid dispatch not found")
    s = sel[0]

    def inner_def(stmts, where):
        d = stmts[-1]
        if not (isinstance(d, ast.FunctionDef) and d.name == "project_resid" and [a.arg for a in d.args.args] == ["Y"]
                and len(_body(d)) == 1 and isinstance(_body(d)[0], ast.Return)):
            raise TieBroken(f"{rel}: project_resid ({where}) is not a one-line function of Y")
        return stmts[:-1], _body(d)[0].value
    pre, e_mean = inner_def(s.body, "mean")
    if pre or len(s.orelse) != 1 or not isinstance(s.orelse[0], ast.If) \
            or ast.unparse(s.orelse[0].test) != "design_resid is None":
        raise TieBroken(f"{rel}: project_resid dispatch: unexpected branches")
    pre, e_none = inner_def(s.orelse[0].body, "None")
    if pre:
        raise TieBroken(f"{rel}: project_resid (None): extra statements")
    pre, e_mat = inner_def(s.orelse[0].orelse, "matrix")
    tr = _Tr(f"{rel}::project_resid", {"Y": "Col", "design_resid": "Mat"}, TieBroken)
    F = _Fn(tr, pure=True)
    for st in pre:
        F.stmt(st)
    tm, tym, _ = _Tr(f"{rel}::project_resid(mean)", {"Y": "Col"}, TieBroken).ex(e_mean)
    tn, tyn, _ = _Tr(f"{rel}::project_resid(None)", {"Y": "Col"}, TieBroken).ex(e_none)
    tx, tyx, _ = tr.ex(e_mat)
    if (tym, tyn, tyx) != ("Col", "Col", "Col"):
        raise TieBroken(f"{rel}: project_resid bodies do not return columns")
    out += ["/-- the three `project_resid(Y)` of `pca`, for one column of `t` entries; `pinv_design_resid` is the",
            "    certified `npl.pinv(design_resid)` -/",
            "def projectResid (t : Nat) (spec : ResidSpec) (Y : List Rat) : List Rat :=",
            "  match spec with",
            f"  | .mean => {tm}",
            f"  | .none => {tn}",
            "  | .mat design_resid pinv_design_resid =>",
            F.render(tx, indent="    "), ""]
    sel = [s for s in body if isinstance(s, ast.If) and ast.unparse(s.test) == "design_keep is None"]
    if len(sel) != 1 or len(sel[0].body) != 1 or len(sel[0].orelse) != 1 \
            or ast.unparse(sel[0].body[0].targets[0]) != "X" or ast.unparse(sel[0].orelse[0].targets[0]) != "X":
        raise TieBroken(f"{rel}: X is not defined by `if design_keep is None`")
    trk = _Tr(f"{rel}::X", {"design_keep": "Mat"}, TieBroken)
    x0, _, _ = trk.ex(sel[0].body[0].value)
    x1, _, _ = trk.ex(sel[0].orelse[0].value)
    if "XZ = project_resid(X)" not in [ast.unparse(s) for s in body]:
        raise TieBroken(f"{rel}: XZ is not project_resid(X)")
    out += ["/-- `X = np.eye(data.shape[0])` / `np.dot(design_keep, npl.pinv(design_keep))` -/",
            "def designX (t : Nat) (keep : Option (Mat × Mat)) : Mat :=",
            "  match keep with",
            f"  | none => {x0}",
            f"  | some (design_keep, pinv_design_keep) => {x1}", ""]
    txt = [ast.unparse(s) for s in body]
    if "if ncomp is None:\n    ncomp = rank" not in txt or "subVX = basis_vectors[:ncomp]" not in txt:
        raise TieBroken(f"{rel}: ncomp default / subVX = basis_vectors[:ncomp] not found")
    out += ["/-- `if ncomp is None: ncomp = rank` ; `subVX = basis_vectors[:ncomp]` : number of rows kept -/",
            "def ncompRows (rank : Nat) (ncomp : Option Int) : Nat :=",
            "  let ncomp : Int := match ncomp with | none => (rank : Int) | some v => v",
            "  pySliceTo rank ncomp", ""]
    try:
        k = txt.index("if axis < 0:\n    axis += data.ndim")
    except ValueError:
        raise TieBroken(f"{rel}: axis normalisation not found")
    if txt[k + 1] != "out = np.rollaxis(out, 0, axis + 1)":
        raise TieBroken(f"{rel}: back-roll does not follow the axis normalisation: {txt[k + 1]}")
    tr = _Tr(f"{rel}::axis", {"axis": "Int"}, TieBroken, dims={"data": "(nd : Int)"})
    F = _Fn(tr)
    F.stmt(body[k])
    a = body[k + 1].value.args
    F.lines.append(f"(rollaxisPerm nd {tr.num(a[1], 'Int')} {tr.num(a[2], 'Int')}) >>= fun q =>")
    out += ["/-- `if axis < 0: axis += data.ndim` ; `out = np.rollaxis(out, 0, axis+1)` : the returned axis and the",
            "    axes list of the back-roll -/",
            "def pcaOutAxes (nd : Nat) (axis : Int) : Except String (Int × List Nat) :=",
            F.render(".ok (axis, q)"), "",
            "end NipyVerif.C19.Ex", ""]
    return [("NipyVerif/Gen/C19Expr.lean", "\n".join(out))]
