"""C20 — index arithmetic of the `.pyx` kernels and of the fffpy glue, regenerated from the current text.

    nipy/algorithms/statistics/intvol.pyx  EC3d / Lips3d / EC2d / Lips2d: padding of the mask, loop bounds, strides of the
                                           padded mask, the flat index of the visited voxel, the shape of every `fpmask[…]`
                                           subscript (`v? = <that index> + d?[l, ?]`)
    nipy/utils/arrays.py                   strides_from, order 'C' (cumulated products of the reversed shape)
    nipy/algorithms/graph/_graph.pyx       dilation: loop ranges and subscripts over the compact neighbour structure
    nipy/algorithms/graph/graph.py         compact_neighb: how `idx` / `neighb` are built
    lib/fff_python_wrapper/fffpy.c         fffpy_multi_iterator_new: normalisation of a negative axis

→ lean/NipyVerif/Gen/C20Pyx.lean.  Each reader is strict about the shape it accepts (Shape → TieBroken).
"""
from __future__ import annotations

import os
import re

from harness.props.c20_cexpr import CParseError, Emitter, cparse, function_body, squash, strip_comments

IV = "nipy/algorithms/statistics/intvol.pyx"
AR = "nipy/utils/arrays.py"
GP = "nipy/algorithms/graph/_graph.pyx"
GR = "nipy/algorithms/graph/graph.py"
FP = "lib/fff_python_wrapper/fffpy.c"
OUT = "NipyVerif/Gen/C20Pyx.lean"


class Shape(Exception):
    pass


def _need(m, rel, what):
    if not m:
        raise Shape(f"{rel}: {what} not found in the expected form")
    return m


def _pyfn(src, name, rel):
    """text of a top-level `def name(` up to the next top-level def / cpdef / decorator"""
    m = _need(re.search(r"^def " + re.escape(name) + r"\(", src, re.M), rel, f"def {name}")
    n = re.search(r"^(?:def |cpdef |cdef |@|class )", src[m.end():], re.M)
    body = src[m.start(): m.end() + n.start()] if n else src[m.start():]
    return re.sub(r"#[^\n]*", "", body)


def _lean(expr, types, rel):
    try:
        return Emitter(types).val(cparse(expr), "Int")
    except CParseError as e:
        raise Shape(f"{rel}: `{expr}`: {e}")


def _intvol_fn(src, name, nd):
    rel = f"{IV}::{name}"
    b = _pyfn(src, name, rel)
    ax = ["i", "j", "k"][:nd]
    pad = _need(re.search(r"pmask_shape\s*=\s*np\.array\(mask\.shape\)\s*\+\s*(\d+)\s*\n", b), rel, "pmask_shape = np.array(mask.shape) + c")
    _need(re.search(r"pmask\s*=\s*np\.zeros\(pmask_shape,\s*(?:dtype=)?np\.uint8\)", b), rel, "pmask = np.zeros(pmask_shape, uint8)")
    _need(re.search(r"pmask\[" + r",\s*".join([":-1"] * nd) + r"\]\s*=\s*(?:check_cast_bin8\(mask\)|mask)\s*\n", b), rel,
          "the mask copied to the low corner of pmask")
    _need(re.search(r"fpmask\s*=\s*pmask\.reshape\(-1\)", b), rel, "fpmask = pmask.reshape(-1)")
    names = ", ".join(f"s{a}" for a in range(nd))
    _need(re.search(re.escape(names) + r"\s*=\s*(?:pmask_shape\[:%d\]|pmask\.shape\[:%d\])" % (nd, nd), b), rel, f"{names} = pmask shape")
    _need(re.search(r"\bstrides\s*=\s*np\.array\(strides_from\(pmask_shape,\s*np\.bool_\),\s*dtype=np\.intp\)", b), rel,
          "strides = strides_from(pmask_shape, np.bool_)")
    for a in range(nd):
        if not (re.search(r"\bss%d\s*=\s*strides\[%d\]" % (a, a), b) or
                re.search(r"\b" + r",\s*".join(f"ss{x}" for x in range(nd)) + r"\s*=\s*" +
                          r",\s*".join(r"strides\[%d\]" % x for x in range(nd)), b)):
            raise Shape(f"{rel}: ss{a} = strides[{a}] not found")
    his = []
    for a, v in enumerate(ax):
        ms = re.findall(r"for %s in range\(([^)\n]*\bs%d\b[^)\n]*)\):" % (v, a), b)
        if len(ms) != 1:
            raise Shape(f"{rel}: expected exactly one loop of {v} over s{a}, found {ms}")
        m = re.match(r"(.*)", ms[0])
        his.append(squash(m.group(1)).replace(f"s{a}", "s"))
    if len(set(his)) != 1:
        raise Shape(f"{rel}: the loop bounds differ between the axes: {his}")
    vm = _need(re.search(r"^\s*v0\s*=\s*(\w+)\s*\+\s*d[234]\[l,\s*0\]", b, re.M), rel, "v0 = <flat index> + d?[l, 0]")
    pvar = vm.group(1)
    cands = [m for m in re.finditer(r"^\s*" + re.escape(pvar) + r"\s*=\s*([^\n]+)$", b, re.M)]
    if len(cands) != 1:
        raise Shape(f"{rel}: `{pvar}` is not assigned exactly once")
    pexpr = squash(cands[0].group(1))
    subs = set(re.findall(r"fpmask\[([^\]]*)\]", b))
    if not subs or not all(re.fullmatch(r"v[0-3]", s) for s in subs):
        raise Shape(f"{rel}: a subscript of fpmask is not one of v0..v3: {sorted(subs)}")
    vdefs = re.findall(r"^\s*(v[0-3])\s*=\s*([^\n]+)$", b, re.M)
    for v, e in vdefs:
        if not re.fullmatch(re.escape(pvar) + r"\+d[234]\[l,[0-3]\]", squash(e)):
            raise Shape(f"{rel}: `{v} = {e.strip()}` is not `{pvar} + d?[l, ?]`")
    if not vdefs:
        raise Shape(f"{rel}: no vertex index found")
    return {"pad": int(pad.group(1)), "hi": his[0], "pexpr": pexpr, "pvar": pvar}


def _intvol(read):
    src = read(IV)
    f3 = [_intvol_fn(src, n, 3) for n in ("EC3d", "Lips3d")]
    f2 = [_intvol_fn(src, n, 2) for n in ("EC2d", "Lips2d")]
    for k in ("pad", "hi"):
        if len({f[k] for f in f3 + f2}) != 1:
            raise Shape(f"{IV}: `{k}` differs between EC3d / Lips3d / EC2d / Lips2d")
    if f3[0]["pexpr"] != f3[1]["pexpr"] or f2[0]["pexpr"] != f2[1]["pexpr"]:
        raise Shape(f"{IV}: the flat index expression differs between the EC and Lips kernels")
    ar = read(AR)
    fb = _pyfn(ar, "strides_from", AR)
    _need(re.search(r"elif order == 'C':\s*\n\s*strides = np\.cumprod\(\[dt\.itemsize\] \+ list\(shape\)\[::-1\]\[:-1\]\)\s*\n"
                    r"\s*strides = strides\[::-1\]", fb), AR, "C-order strides as reversed cumulated products")
    _need(re.search(r"return tuple\(strides\)", fb), AR, "return tuple(strides)")
    t3 = {"i": "Int", "j": "Int", "k": "Int", "ss0": "Int", "ss1": "Int", "ss2": "Int"}
    t2 = {"i": "Int", "j": "Int", "ss0": "Int", "ss1": "Int"}
    L = ["namespace Intvol", ""]
    L += [f"/-- `pmask_shape = np.array(mask.shape) + {f3[0]['pad']}`: one axis of the padded mask -/",
          f"def pad (m : Int) : Int := m + {f3[0]['pad']}",
          f"/-- `for i in range({f3[0]['hi'].replace('s', 's0')})`: exclusive upper bound of the voxel loops (per axis, `s` the padded length) -/",
          f"def loopHi (s : Int) : Int := {_lean(f3[0]['hi'], {'s': 'Int'}, IV)}",
          "/-- `strides_from(pmask_shape, np.bool_)` (order 'C', itemsize 1): reversed cumulated products of the reversed shape -/",
          "def stride0 (s0 s1 s2 : Int) : Int := 1 * s2 * s1",
          "def stride1 (s0 s1 s2 : Int) : Int := 1 * s2",
          "def stride2 (s0 s1 s2 : Int) : Int := 1",
          "def stride0_2 (s0 s1 : Int) : Int := 1 * s1",
          "def stride1_2 (s0 s1 : Int) : Int := 1",
          f"/-- EC3d / Lips3d: `{f3[1]['pvar']} = {f3[0]['pexpr']}`; every `fpmask[v]` has `v = {f3[1]['pvar']} + d?[l, ?]` -/",
          f"def pindex3 (i j k ss0 ss1 ss2 : Int) : Int := {_lean(f3[0]['pexpr'], t3, IV)}",
          f"/-- EC2d / Lips2d: `{f2[1]['pvar']} = {f2[0]['pexpr']}` -/",
          f"def pindex2 (i j ss0 ss1 : Int) : Int := {_lean(f2[0]['pexpr'], t2, IV)}",
          "", "end Intvol", ""]
    return L


def _graph(read):
    src = read(GP)
    b = _pyfn(src, "dilation", GP)
    _need(re.search(r"cdef int size_max = field\.shape\[0\]", b), GP, "size_max = field.shape[0]")
    _need(re.search(r"cdef int dim = field\.shape\[1\]", b), GP, "dim = field.shape[1]")
    loops = re.findall(r"for (\w+) in range\(([^\n]*)\):", b)
    if [v for v, _ in loops] != ["d", "i", "j", "i"]:
        raise Shape(f"{GP}: loop nest of dilation is not d / i / j / i: {loops}")
    if squash(loops[0][1]) != "dim" or squash(loops[1][1]) != "size_max" or squash(loops[3][1]) != "size_max":
        raise Shape(f"{GP}: outer loop bounds of dilation changed: {loops}")
    m = _need(re.fullmatch(r"idx\[(.*?)\],idx\[(.*?)\]", squash(loops[2][1])), GP, "for j in range(idx[·], idx[·])")
    subs = set(map(squash, re.findall(r"field\[((?:[^\[\]\n]|\[[^\[\]\n]*\])*)\]", b)))
    allowed = {"i,d", "neighb[j],d", ":,0"}
    if not subs <= allowed or "neighb[j],d" not in subs:
        raise Shape(f"{GP}: subscripts of field are not field[i, d] / field[neighb[j], d]: {sorted(subs)}")
    if set(map(squash, re.findall(r"res\[([^\]]*)\]", b))) != {"i"}:
        raise Shape(f"{GP}: subscripts of res are not res[i]")
    if set(map(squash, re.findall(r"neighb\[([^\]]*)\]", b))) != {"j"}:
        raise Shape(f"{GP}: subscripts of neighb are not neighb[j]")
    g = re.sub(r"#[^\n]*", "", read(GR))
    cm = _need(re.search(r"def compact_neighb\(self\):.*?return idx, neighb, weights", g, re.S), GR, "compact_neighb")
    cb = cm.group(0)
    _need(re.search(r"order = np\.argsort\(self\.edges\[:, 0\] \* float\(self\.V\) \+ self\.edges\[:, 1\]\)", cb), GR,
          "edges ordered by (first vertex, second vertex)")
    _need(re.search(r"neighb = self\.edges\[order, 1\]\.astype\(np\.intp\)", cb), GR, "neighb = second column in that order")
    _need(re.search(r"degree, _ = self\.degrees\(\)", cb), GR, "degree, _ = self.degrees()")
    _need(re.search(r"idx = np\.hstack\(\(0, np\.cumsum\(degree\)\)\)\.astype\(np\.intp\)", cb), GR, "idx = (0, cumsum(degree))")
    ty = {"i": "Int"}
    return ["namespace Graph", "",
            f"/-- `_graph.pyx::dilation`: `for j in range(idx[{m.group(1)}], idx[{m.group(2)}])` — the entries of `idx` read for vertex `i`"
            " (`i < size_max = field.shape[0]`); the only indirect subscript is `field[neighb[j], d]` -/",
            f"def jLoIdx (i : Int) : Int := {_lean(m.group(1), ty, GP)}",
            f"def jHiIdx (i : Int) : Int := {_lean(m.group(2), ty, GP)}",
            "/-- `WeightedGraph.compact_neighb`: `idx = hstack((0, cumsum(degree)))`, `neighb = edges[order, 1]` with the edges"
            " ordered by first vertex: `idx` has `V + 1` entries -/",
            "def idxLen (V : Int) : Int := V + 1",
            "", "end Graph", ""]


def _fffpy(read):
    src = strip_comments(read(FP))
    body = function_body(src, "fffpy_multi_iterator_new", FP)
    m = _need(re.search(r"if\s*\(\s*axis\s*<\s*0\s*\)\s*axis\s*\+=\s*PyArray_NDIM\(\(PyArrayObject\*\)arr\);\s*"
                        r"multi->iters\[i\]\s*=\s*\(PyArrayIterObject \*\)PyArray_IterAllButAxis\(arr, &axis\);", body), FP,
              "`if (axis < 0) axis += ndim;` directly before PyArray_IterAllButAxis")
    return ["namespace Fffpy", "",
            "/-- `fffpy_multi_iterator_new`: `if (axis < 0) axis += PyArray_NDIM(arr);` — the axis given to `PyArray_IterAllButAxis` -/",
            "def normAxis (axis ndim : Int) : Int := if axis < 0 then axis + ndim else axis",
            "", "end Fffpy", ""]


def translate(repo, TieBroken):
    def read(rel):
        p = os.path.join(repo, rel)
        if not os.path.exists(p):
            raise TieBroken(f"{rel} is missing")
        return open(p).read()
    try:
        parts = _intvol(read) + _graph(read) + _fffpy(read)
    except Shape as e:
        raise TieBroken(f"C20 pyx translator: {e}")
    text = (f"/- GENERATED by harness/props/c20_pyx.py from the text of /repo:\n   {IV}, {AR}, {GP}, {GR}, {FP}.  Do not edit. -/\n"
            "set_option linter.unusedVariables false\nnamespace NipyVerif.C20.Kern.Pyx\n\n" + "\n".join(parts) +
            "\nend NipyVerif.C20.Kern.Pyx\n")
    return [(OUT, text)]
