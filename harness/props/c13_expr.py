"""C13 expression translator: bodies of the parameter-update / membership / BIC functions of
`nipy/algorithms/clustering/{gmm,bgmm,ggmixture}.py`, regenerated statement by statement from /repo's
text as Lean **terms** over `Rat` (`lean/NipyVerif/Gen/C13Expr.lean`).

How a body is read: the statements of one function (one branch of `if self.prec_type == 'full'` chosen,
`for k in range(self.k)` bodies taken for a generic component `k`) are executed *symbolically*: every
assignment / augmented assignment updates the symbolic value of its target, array expressions are read
for a generic element (component `k`, axis `§`, sample `i`), `np.reshape` / `.T` / subscripts are layout
only, `np.sum(E, 0)` / the listed `np.dot` shapes become `sumTo n (fun i => …)`, numeric library calls
(`np.log`, `np.exp`) are named leaves (function parameters).  Leaves (data, priors, populations) are
declared per function; any name, call or statement shape not declared raises `TieBroken`.

`Props/C13E.lean` proves that each generated term is what the model computes (`*_as_modelled`): an
edit of a source expression changes the generated term and the theorem about it stops building.
"""
from __future__ import annotations

import ast
import os
import re
from fractions import Fraction

from harness.core import REPO, TieBroken

CLUST = "nipy/algorithms/clustering"
AX = "§"          # placeholder of the axis index inside generated terms


def _parse(rel):
    try:
        return ast.parse(open(os.path.join(REPO, rel)).read())
    except Exception as e:                               # noqa: BLE001
        raise TieBroken(f"{rel} does not parse: {e}")


def _func(tree, name, cls=None):
    scope = tree.body
    if cls is not None:
        c = next((n for n in tree.body if isinstance(n, ast.ClassDef) and n.name == cls), None)
        if c is None:
            raise TieBroken(f"class {cls} not found")
        scope = c.body
    fn = next((n for n in scope if isinstance(n, ast.FunctionDef) and n.name == name), None)
    if fn is None:
        raise TieBroken(f"{cls + '.' if cls else ''}{name} not found")
    return fn


def _const(v, ty="Rat"):
    q = Fraction(repr(v)) if isinstance(v, float) else Fraction(v)
    return f"({q.numerator} : {ty})" if q.denominator == 1 else f"(({q.numerator} : {ty}) / {q.denominator})"


def _is_cast(st):
    """`NAME = np.asarray(NAME, dtype=<floating type>)`: the same numbers as floats (no arithmetic)"""
    if not (isinstance(st, ast.Assign) and len(st.targets) == 1 and isinstance(st.targets[0], ast.Name)
            and isinstance(st.value, ast.Call) and ast.unparse(st.value.func) in ("np.asarray", "np.asanyarray")):
        return False
    v = st.value
    if len(v.args) != 1 or ast.unparse(v.args[0]) != st.targets[0].id or len(v.keywords) != 1:
        return False
    return v.keywords[0].arg == "dtype" and ast.unparse(v.keywords[0].value) in ("np.float64", "float", "np.double")


class Sym:
    """symbolic execution of straight-line numpy code for a generic element"""

    def __init__(self, where, leaves, dots=None, skip=(), funcs=None, ty="Rat"):
        self.where = where
        self.ty = ty
        self.leaves = dict(leaves)        # source text -> Lean term
        self.dots = dict(dots or {})      # source text of an np.dot call -> 'sum' | 'sum-outer' | 'outer'
        self.skip = set(skip)             # exact statement texts that carry no arithmetic (declared, not guessed)
        self.funcs = {"np.log": "flog", "np.exp": "fexp"}
        self.funcs.update(funcs or {})
        self.sym = {}
        self.consts = {}
        self.total = None                 # (size, index) of the 1-D arrays summed by one-argument `np.sum`

    def bad(self, node, why="shape not translated"):
        raise TieBroken(f"{self.where}: {why}: {ast.unparse(node)}")

    # ---- expressions ----
    def tr(self, node):
        txt = ast.unparse(node)
        if txt in self.sym:
            return self.sym[txt]
        if txt in self.leaves:
            return self.leaves[txt]
        if isinstance(node, ast.Constant) and isinstance(node.value, (int, float)) and not isinstance(node.value, bool):
            return _const(node.value, self.ty)
        if isinstance(node, ast.UnaryOp) and isinstance(node.op, ast.USub):
            return f"(-{self.tr(node.operand)})"
        if isinstance(node, ast.BinOp):
            if isinstance(node.op, ast.Pow):
                if not (isinstance(node.right, ast.Constant) and isinstance(node.right.value, int) and node.right.value >= 0):
                    self.bad(node, "exponent is not a literal natural number")
                return f"({self.tr(node.left)} ^ {node.right.value})"
            op = {ast.Add: "+", ast.Sub: "-", ast.Mult: "*", ast.Div: "/"}.get(type(node.op))
            if op is None:
                self.bad(node, "operator not translated")
            return f"({self.tr(node.left)} {op} {self.tr(node.right)})"
        if isinstance(node, ast.Compare) and len(node.ops) == 1 and isinstance(node.ops[0], ast.Eq) \
                and isinstance(node.comparators[0], ast.Constant) and node.comparators[0].value == 0:
            return f"(if {self.tr(node.left)} = 0 then (1 : Rat) else 0)"          # `pop == 0` used as a number
        if isinstance(node, ast.Attribute) and node.attr == "T":
            return self.tr(node.value)                                             # layout only
        if isinstance(node, ast.Subscript):
            return self.tr(node.value)                                             # generic element
        if isinstance(node, ast.ListComp) and len(node.generators) == 1 \
                and ast.unparse(node.generators[0].iter) == "range(self.k)" and not node.generators[0].ifs:
            return self.tr(node.elt)                                               # generic component
        if isinstance(node, ast.Call):
            f = ast.unparse(node.func)
            a = node.args
            if f in ("np.reshape", "np.array") and a and not (f == "np.array" and node.keywords):
                return self.tr(a[0])
            if f == "np.zeros":
                return "(0 : Rat)"
            if f == "np.maximum" and len(a) == 2 and not node.keywords:
                return f"(max {self.tr(a[0])} {self.tr(a[1])})"
            if f == "np.sum" and len(a) == 2 and ast.unparse(a[1]) == "0" and not node.keywords:
                return f"(sumTo n (fun i => {self.tr(a[0])}))"
            if f == "np.sum" and len(a) == 1 and not node.keywords and self.total is not None:
                return f"(sumTo {self.total[0]} (fun {self.total[1]} => {self.tr(a[0])}))"      # sum of a 1-D array
            if f == "np.dot" and len(a) == 2 and not node.keywords:
                rule = self.dots.get(txt)
                A, B = self.tr(a[0]), self.tr(a[1])
                if rule == "sum":
                    return f"(sumTo n (fun i => {A} * {B}))"
                if rule == "outer":
                    return f"({A} * {B.replace(AX, 'l')})"
                if rule == "sum-outer":
                    return f"(sumTo n (fun i => {A} * {B.replace(AX, 'l')}))"
                if rule == "class-sum-outer":     # rows `x[z == k]`: Σ over the samples of class k = Σ_i r_i · …, r = (z == k)
                    return f"(sumTo n (fun i => (r i) * ({A} * {B.replace(AX, 'l')})))"
                self.bad(node, "np.dot of a shape that is not declared")
            if f in self.funcs and len(a) == 1 and not node.keywords:
                return f"({self.funcs[f]} {self.tr(a[0])})"
        self.bad(node)

    # ---- statements ----
    def run(self, stmts, full=None):
        for st in stmts:
            txt = ast.unparse(st)
            if txt in self.skip:
                continue
            if isinstance(st, ast.Expr) and isinstance(st.value, ast.Constant) and isinstance(st.value.value, str):
                continue
            if _is_cast(st):
                continue                                                           # value-preserving dtype cast
            if isinstance(st, ast.If) and ast.unparse(st.test) == "self.prec_type == 'full'" and full is not None:
                self.run(st.body if full else st.orelse, full)
            elif isinstance(st, ast.For) and ast.unparse(st.iter) == "range(self.k)" and not st.orelse:
                self.run(st.body, full)
            elif isinstance(st, ast.Assign) and len(st.targets) == 1:
                t = ast.unparse(st.targets[0])
                if isinstance(st.targets[0], ast.Subscript):
                    t = ast.unparse(st.targets[0].value)                            # `empcov[k] = …`
                if isinstance(st.value, ast.Constant) and isinstance(st.value.value, float) and t in self.leaves:
                    self.consts[t] = _const(st.value.value)                        # `tiny = 1.e-15`: stays a parameter
                    continue
                self.sym[t] = self.tr(st.value)
            elif isinstance(st, ast.AugAssign):
                t = ast.unparse(st.target)
                op = {ast.Add: "+", ast.Sub: "-", ast.Mult: "*", ast.Div: "/"}.get(type(st.op))
                if op is None:
                    self.bad(st, "augmented operator not translated")
                self.sym[t] = f"({self.tr(st.target)} {op} {self.tr(st.value)})"
            elif isinstance(st, ast.Return) and isinstance(st.value, ast.Tuple):
                for q, e in enumerate(st.value.elts):
                    self.sym[f"return{q}"] = self.tr(e)
            elif isinstance(st, ast.Return) and st.value is not None:
                self.sym["return"] = self.tr(st.value)
            else:
                self.bad(st, "statement not translated")
        return self

    def get(self, name, axis="j"):
        if name not in self.sym:
            raise TieBroken(f"{self.where}: no assignment to {name}")
        return self.sym[name].replace(AX, axis)


class Out:
    def __init__(self):
        self.lines = []

    def emit(self, name, params, term, doc):
        toks = set(re.findall(r"[A-Za-z_][A-Za-z_0-9]*", term))
        for p in re.findall(r"\(([^:()]+):", params):
            for nm in p.split():
                if nm not in toks:
                    raise TieBroken(f"{doc}: the expression does not depend on `{nm}` as the model's definition does")
        self.lines.append(f"/-- {doc} -/")
        self.lines.append(f"def {name} {params} : Rat :=\n  {term}")


DATA = "(n : Nat) (r : Nat → Rat) (x : Nat → Nat → Rat)"


def lean_text():
    gmm = _parse(f"{CLUST}/gmm.py")
    bg = _parse(f"{CLUST}/bgmm.py")
    gg = _parse(f"{CLUST}/ggmixture.py")
    o = Out()

    # ---------------- GMM.pop ----------------
    fn = _func(gmm, "pop", "GMM")
    if [a.arg for a in fn.args.args] != ["self", "like", "tiny"] or ast.unparse(fn.args.defaults[0]) != "1e-15":
        raise TieBroken("GMM.pop: signature is not (self, like, tiny=1e-15)")
    s = Sym("GMM.pop", {"like": "l", "tiny": "tiny", "like.shape[1]": "(K : Rat)", "np.sum(like, 1)": "rowsum"})
    s.run(fn.body[:-1])
    ret = fn.body[-1]
    if ast.unparse(ret) != "return np.sum(nl, 0)":
        raise TieBroken("GMM.pop: does not end in `return np.sum(nl, 0)`")
    o.emit("popSl", "(rowsum tiny : Rat)", s.get("sl"), "`GMM.pop`: `sl`, the regularised row sum")
    o.emit("popNl", "(l tiny : Rat) (K : Nat) (rowsum : Rat)", s.get("nl"),
           "`GMM.pop`: one entry of `nl`; the result is `np.sum(nl, 0)`")
    o.lines.append("/-- default of `tiny` in the signature of `GMM.pop` -/\ndef popTiny : Rat := " + _const(1e-15))

    # ---------------- GMM._Mstep ----------------
    fn = _func(gmm, "_Mstep", "GMM")
    leaves = {"like": "l", "tiny": "tiny", "like.shape[1]": "(K : Rat)", "np.sum(like, 1)": "rowsum",
              "self.pop(like)": "(pop n r)", "self.prior_weights": "pw", "self.weights.sum()": "wsum",
              "self.prior_shrinkage": "ps", "self.prior_means": f"(pm {AX})", "self.prior_dof": "pdof",
              "self.dim": "(d : Rat)", "x": f"(x i {AX})", "np.dot(like.T, x)": f"(sx n r x {AX})",
              "like[:, k:k + 1]": "(r i)", "self.prior_scale": f"(pscale {AX})",
              "pinv(self.prior_scale[k])": f"(if {AX} = l then ips {AX} else 0)"}
    skip = {"from numpy.linalg import pinv",
            "self.precisions = np.array([pinv(covariance[k]) for k in range(self.k)])"}   # checked below
    for full in (True, False):
        s = Sym("GMM._Mstep", leaves, dots={"np.dot(dx.T, like[:, k:k + 1] * dx)": "sum-outer",
                                            "np.dot(dx[k], dx[k].T)": "outer"}, skip=skip)
        # the normalised memberships are the leaf `r` from the second statement on: run the head separately
        head = [st for st in fn.body if ast.unparse(st).startswith(("tiny =", "sl =", "like ="))]
        if len(head) != 3:
            raise TieBroken("GMM._Mstep: expected `tiny = …; sl = …; like = …` before the updates")
        s.run(head)
        if full:
            o.emit("mstepSl", "(rowsum tiny : Rat)", s.get("sl"), "`GMM._Mstep`: `sl`")
            o.emit("mstepNl", "(l tiny : Rat) (K : Nat) (rowsum : Rat)", s.get("like"),
                   "`GMM._Mstep`: one entry of the normalised `like`")
            o.lines.append("/-- `tiny` of `GMM._Mstep` -/\ndef mstepTiny : Rat := " + s.consts.get("tiny", "(0 : Rat)"))
        del s.sym["like"], s.sym["sl"]
        s.leaves["like"] = "(r i)"
        s.sym["pop"] = "(pop n r)"
        s.run([st for st in fn.body if st not in head and not ast.unparse(st).startswith("pop = self.pop")], full)
        if full:
            w0 = Sym("GMM._Mstep", {"self.prior_weights": "pw", "pop": "p"}).tr(
                next(st.value for st in fn.body if ast.unparse(st).startswith("self.weights = self.prior_weights")))
            o.emit("mstepW0", "(pw p : Rat)", w0, "`GMM._Mstep`: un-normalised weight `prior_weights + pop`")
            w1 = Sym("GMM._Mstep", {"self.weights": "w", "self.weights.sum()": "wsum"}).tr(
                next(st.value for st in fn.body if ast.unparse(st).startswith("self.weights = self.weights")))
            o.emit("mstepW1", "(w wsum : Rat)", w1, "`GMM._Mstep`: `self.weights / self.weights.sum()`")
            o.emit("mstepShrinkS", f"{DATA} (ps : Rat)".replace(" (x : Nat → Nat → Rat)", ""), s.get("shrinkage"),
                   "`GMM._Mstep`: `shrinkage`")
            o.emit("mstepMeanS", f"{DATA} (pm : Nat → Rat) (ps : Rat) (j : Nat)", s.get("self.means"),
                   "`GMM._Mstep`: `self.means[k, j]`")
            o.emit("empMeanS", f"(tiny : Rat) {DATA} (j : Nat)", s.get("empmeans"), "`GMM._Mstep`: `empmeans[k, j]`")
            o.emit("mstepCovFullS", f"(tiny : Rat) (n d : Nat) (r : Nat → Rat) (x : Nat → Nat → Rat) "
                   "(pm ips : Nat → Rat) (ps pdof : Rat) (j l : Nat)", s.get("covariance"),
                   "`GMM._Mstep`, full precisions: `covariance[k, j, l]` handed to the final `pinv` "
                   "(`pinv(prior_scale[k])` is the diagonal matrix of `ips`)")
            if ast.unparse(next(st for st in ast.walk(fn) if isinstance(st, ast.Assign) and
                                ast.unparse(st.targets[0]) == "self.precisions")).replace(" ", "").replace("\\\n", "") \
                    != "self.precisions=np.array([pinv(covariance[k])forkinrange(self.k)])":
                raise TieBroken("GMM._Mstep: full precisions are not `pinv(covariance[k])`")
        else:
            o.emit("mstepCovDiagS", f"(tiny : Rat) (n d : Nat) (r : Nat → Rat) (x : Nat → Nat → Rat) "
                   "(pm pscale : Nat → Rat) (ps pdof : Rat) (j : Nat)", s.get("covariance"),
                   "`GMM._Mstep`, diagonal precisions: `covariance[k, j]`")
            o.emit("mstepPrecDiagS", "(covariance : Rat)",
                   Sym("GMM._Mstep", {"covariance": "covariance"}).tr(
                       [st for st in ast.walk(fn) if isinstance(st, ast.Assign)
                        and ast.unparse(st.targets[0]) == "self.precisions"][-1].value),
                   "`GMM._Mstep`, diagonal precisions: `self.precisions[k, j]` from the covariance")

    # ---------------- GMM.guess_regularizing ----------------
    fn = _func(gmm, "guess_regularizing", "GMM")
    leaves = {"x": f"(x i {AX})", "x.mean(0)": f"(dataMean n x {AX})", "x.shape[0]": "(n : Rat)",
              "self.dim": "(d : Rat)", "self.k": "(K : Rat)"}
    for full in (True, False):
        s = Sym("GMM.guess_regularizing", leaves, skip={"if bcheck:\n    self.check()"},
                funcs={"np.diag": "", "np.repeat": None, "np.ones": None})
        s.dots = {"np.dot(dx.T, dx)": "sum"}          # only the diagonal of vx is read (np.diag)
        body = [st for st in fn.body if not ast.unparse(st).startswith(("self.prior_means", "self.prior_weights",
                                                                       "self.prior_scale", "self.weights"))]
        s.run(body, full)
        for tgt, want in (("self.prior_means", "np.repeat(mx, self.k, 0)"), ("self.prior_scale", "np.repeat(px, self.k, 0)"),
                          ("self.prior_weights", "np.ones(self.k) / self.k"), ("self.weights", "np.ones(self.k) * 1.0 / self.k")):
            got = [ast.unparse(st.value) for st in fn.body if isinstance(st, ast.Assign) and ast.unparse(st.targets[0]) == tgt]
            if got != [want]:
                raise TieBroken(f"GMM.guess_regularizing: {tgt} is {got}, expected {want}")
        if full:
            o.emit("gregVarS", "(n : Nat) (x : Nat → Nat → Rat) (j : Nat)", s.get("vx"),
                   "`guess_regularizing`: diagonal of `vx`")
            o.emit("gregScaleFullS", "(fexp flog : Rat → Rat) (n d K : Nat) (x : Nat → Nat → Rat) (j : Nat)", s.get("px"),
                   "`guess_regularizing`, full: diagonal of `prior_scale` (off-diagonal: `np.diag` of a vector)")
            o.emit("gregDofS", "(d : Nat)", s.get("self.prior_dof"), "`guess_regularizing`: `prior_dof`")
            o.lines.append("/-- `guess_regularizing`: `prior_shrinkage` -/\ndef gregShrinkS : Rat := " + s.get("self.prior_shrinkage"))
        else:
            o.emit("gregScaleDiagS", "(fexp flog : Rat → Rat) (n d K : Nat) (x : Nat → Nat → Rat) (j : Nat)", s.get("px"),
                   "`guess_regularizing`, diagonal: `prior_scale`")

    # ---------------- GMM.bic ----------------
    fn = _func(gmm, "bic", "GMM")
    for full in (True, False):
        s = Sym("GMM.bic", {"np.sum(np.log(sl))": "L", "self.k": "(k : Rat)", "self.dim": "(d : Rat)",
                            "like.shape[0]": "nn", "tiny": "tiny", "np.sum(like, 1)": "rowsum"}, funcs={"np.log": "flog"})
        s.leaves["np.log(n)"] = "logn"
        s.run(fn.body, full)
        o.emit("bicEtaFullS" if full else "bicEtaDiagS", "(k d : Nat)", s.get("eta"),
               f"`GMM.bic`: number of parameters, {'full' if full else 'diagonal'} precisions")
        o.emit("bicFullS" if full else "bicDiagS", "(k d : Nat) (L logn : Rat)", s.get("return"),
               "`GMM.bic`: returned value (`L = Σ log max(sl, tiny)`, `logn = log n`)")
        if full:
            o.emit("bicSlS", "(rowsum tiny : Rat)", s.get("sl"), "`GMM.bic`: clamped row sum")

    # ---------------- BGMM.update_weights / update_means / update_precisions ----------------
    hard = {"self.pop(z)": "(pop n r)", "self.prior_weights": "pw", "self.prior_shrinkage": "ps",
            "self.prior_means": f"(pm {AX})", "self.prior_dof": "pdof", "self.dim": "(d : Rat)",
            "np.sum(x[z == k], 0)": f"(sx n r x {AX})", "x[z == k]": f"(x i {AX})",
            "self._inv_prior_scale": f"(ips {AX} l)"}
    fn = _func(bg, "update_weights", "BGMM")
    s = Sym("BGMM.update_weights", hard, skip={"self.weights = np.random.dirichlet(weights)"}).run(fn.body)
    if "self.weights = np.random.dirichlet(weights)" not in [ast.unparse(st) for st in fn.body]:
        raise TieBroken("BGMM.update_weights: weights are not drawn from dirichlet(weights)")
    o.emit("bgWeightS", "(n : Nat) (r : Nat → Rat) (pw : Rat)", s.get("weights"), "`BGMM.update_weights`: Dirichlet parameter")
    fn = _func(bg, "update_means", "BGMM")
    body = [st for st in fn.body if not (isinstance(st, ast.For) and "generate_normals" in ast.unparse(st))]
    if len(body) != len(fn.body) - 1:
        raise TieBroken("BGMM.update_means: expected exactly one drawing loop (generate_normals)")
    s = Sym("BGMM.update_means", hard).run(body)
    o.emit("bgShrinkS", "(n : Nat) (r : Nat → Rat) (ps : Rat)", s.get("self.shrinkage"), "`BGMM.update_means`: posterior shrinkage")
    o.emit("bgMeanS", f"{DATA} (pm : Nat → Rat) (ps : Rat) (j : Nat)", s.get("means"),
           "`BGMM.update_means`: mean of the conditional posterior of `means[k, j]`")
    fn = _func(bg, "update_precisions", "BGMM")
    s = Sym("BGMM.update_precisions", hard, dots={"np.dot(dx.T, dx)": "class-sum-outer", "np.dot(dm.T, dm)": "outer"},
            skip={"self._detp = np.zeros(self.k)", "scale = inv(covariance)",
                  "self.precisions[k] = generate_Wishart(self.dof[k], scale)",
                  "self._detp[k] = detsh(self.precisions[k])"})
    for need in ("scale = inv(covariance)", "self.precisions[k] = generate_Wishart(self.dof[k], scale)"):
        if need not in [ast.unparse(st) for st in ast.walk(fn) if isinstance(st, ast.stmt)]:
            raise TieBroken(f"BGMM.update_precisions: `{need}` not found")
    s.run(fn.body)
    o.emit("bgDofS", "(n : Nat) (r : Nat → Rat) (pdof : Rat)", s.get("self.dof"), "`BGMM.update_precisions`: posterior dof")
    o.emit("bgRpopS", "(n : Nat) (r : Nat → Rat)", s.get("rpop"), "`BGMM.update_precisions`: `rpop`")
    o.emit("bgEmpMeanS", f"{DATA} (j : Nat)", s.get("empmeans"), "`BGMM.update_precisions`: `empmeans[j]`")
    o.emit("bgAddcovS", f"{DATA} (pm : Nat → Rat) (ps : Rat) (j l : Nat)", s.get("addcov"),
           "`BGMM.update_precisions`: bias term `addcov[j, l]`")
    o.emit("bgCovS", f"{DATA} (pm : Nat → Rat) (ips : Nat → Nat → Rat) (ps : Rat) (j l : Nat)", s.get("covariance"),
           "`BGMM.update_precisions`: `covariance[j, l]` handed to `inv`; the scatter over the rows `x[z == k]` "
           "is written `Σ_i r_i · …` with `r = (z == k)`")

    # ---------------- normal_eval / dirichlet_eval / dkl_gaussian (bgmm.py), IMM.update_weights ----------------
    fn = _func(bg, "normal_eval")
    head = [ast.unparse(st) for st in fn.body if not (isinstance(st, ast.Expr) and isinstance(st.value, ast.Constant))][:2]
    if head != ["dim = P.shape[0]", "if dP is None:\n    dP = detsh(P)"]:
        raise TieBroken(f"normal_eval: unexpected head {head}")
    s = Sym("normal_eval", {"math.log(dP)": "logdet", "math.log(2 * math.pi)": "log2pi", "dim": "(d : Rat)",
                            "mu": f"(m {AX})", "x": f"(x {AX})"}, skip=set(head), funcs={"math.exp": "fexp"})
    body = [st for st in fn.body if ast.unparse(st) not in head]
    cut = next((q for q, st in enumerate(body) if ast.unparse(st).startswith("q = ")), None)
    if cut is None or ast.unparse(body[cut]) != "q = np.dot(np.dot(P, dx), dx)":
        raise TieBroken("normal_eval: quadratic form is not `q = np.dot(np.dot(P, dx), dx)`")
    s.run(body[:cut])
    s.leaves["np.dot(np.dot(P, dx), dx)"] = f"(quadN d b (fun j => {s.get('dx')}))"
    s.run(body[cut:])
    if ast.unparse(body[-2:][0]) != "like = math.exp(w)" or ast.unparse(body[-1]) != "return like":
        raise TieBroken("normal_eval: does not end in `like = math.exp(w); return like`")
    o.emit("normalEvalLogS", "(d : Nat) (log2pi logdet : Rat) (b : Nat → Nat → Rat) (m x : Nat → Rat)", s.get("w"),
           "`normal_eval`: the exponent `w` (`np.dot(np.dot(P, dx), dx)` is the model's `quadN`)")
    fn = _func(bg, "dirichlet_eval")
    s = Sym("dirichlet_eval", {"alpha": "(alpha k)", "np.log(w)": "(lw k)", "logb": "logb"},
            skip={"if np.shape(w) != np.shape(alpha):\n    raise ValueError('incompatible dimensions')",
                  "logb = np.sum(gammaln(alpha)) - gammaln(alpha.sum())"}, funcs={"np.exp": "fexp"})
    s.total = ("K", "k")
    if "logb = np.sum(gammaln(alpha)) - gammaln(alpha.sum())" not in [ast.unparse(st) for st in fn.body]:
        raise TieBroken("dirichlet_eval: normaliser is not `np.sum(gammaln(alpha)) - gammaln(alpha.sum())`")
    s.run(fn.body)
    if ast.unparse(fn.body[-1]) != "return np.exp(loge)":
        raise TieBroken("dirichlet_eval: does not return np.exp(loge)")
    o.emit("dirichletLogS", "(K : Nat) (alpha lw : Nat → Rat) (logb : Rat)", s.get("loge"),
           "`dirichlet_eval`: the exponent `loge` (`logb` = log of the multivariate beta function, a parameter)")
    fn = _func(bg, "dkl_gaussian")
    body = [st for st in fn.body if not isinstance(st, (ast.If, ast.Expr))]
    s = Sym("dkl_gaussian", {"ld1": "ld1", "ld2": "ld2", "dim": "(d : Rat)",
                             "np.trace(np.dot(P2, inv(P1)))": "(traceMul d P2 Q1)",
                             "np.dot(np.dot((m1 - m2).T, P2), m1 - m2)": "(quadA d P2 (fun j => m1 j - m2 j))"},
            skip={"tiny = 1e-15", "dim = np.size(m1)", "ld1 = np.sum(np.log(eigvalsh(P1)))", "ld2 = np.sum(np.log(eigvalsh(P2)))"})
    for need in ("ld1 = np.sum(np.log(eigvalsh(P1)))", "ld2 = np.sum(np.log(eigvalsh(P2)))", "dim = np.size(m1)"):
        if need not in [ast.unparse(st) for st in body]:
            raise TieBroken(f"dkl_gaussian: `{need}` not found")
    s.run(body)
    o.emit("dklGaussianS", "(d : Nat) (ld1 ld2 : Rat) (P2 Q1 : Nat → Nat → Rat) (m1 m2 : Nat → Rat)", s.get("return"),
           "`dkl_gaussian`: returned value (`Q1 = inv(P1)`, log-determinants are parameters)")
    imm = _parse(f"{CLUST}/imm.py")
    fn = _func(imm, "update_weights", "IMM")
    s = Sym("IMM.update_weights", {"np.hstack((self.pop(z), 0))": "(if k < K then pops k else 0)",
                                   "self.prior_weights": "alpha"})
    s.run([st for st in fn.body if not isinstance(st, ast.AugAssign)])
    o.emit("immW0S", "(K : Nat) (alpha : Rat) (pops : Nat → Rat) (k : Nat)", s.get("self.weights"),
           "`IMM.update_weights`: un-normalised weight (`hstack((pop, 0))`: one more, empty, class)")
    aug = [st for st in fn.body if isinstance(st, ast.AugAssign)]
    if [ast.unparse(st) for st in aug] != ["self.weights /= self.weights.sum()"]:
        raise TieBroken("IMM.update_weights: weights are not normalised by `self.weights /= self.weights.sum()`")

    # ---------------- GGM.Mstep / GGGM.Mstep / _compute_c ----------------
    fn = _func(gg, "Mstep", "GGM")
    s = Sym("GGM.Mstep", {"tiny": "tiny", "np.sum(z, 0)": "(sumTo n z)", "x": "(x i)", "z[:, 1]": "(z i)", "np.size(x)": "(n : Rat)"},
            dots={"np.dot(x, z[:, 1])": "sum", "np.dot((x - self.mean) ** 2, z[:, 1])": "sum"},
            skip={"self.shape, self.scale = _gam_param(x, z[:, 0])"})
    s.leaves["tiny"] = "tiny"
    s.run(fn.body)
    o.emit("ggmSzS", "(tiny : Rat) (n : Nat) (z : Nat → Rat)", s.get("sz"), "`GGM.Mstep`: `sz` (one column)")
    o.emit("ggmMeanS", "(tiny : Rat) (n : Nat) (x z : Nat → Rat)", s.get("self.mean"), "`GGM.Mstep`: Gaussian mean")
    o.emit("ggmVarS", "(tiny : Rat) (n : Nat) (x z : Nat → Rat)", s.get("self.var"), "`GGM.Mstep`: Gaussian variance")
    o.emit("ggmMixtS", "(tiny : Rat) (n : Nat) (z : Nat → Rat)", s.get("self.mixt"), "`GGM.Mstep`: `mixt`")
    fn = _func(gg, "Mstep", "GGGM")
    s = Sym("GGGM.Mstep", {"tiny": "tiny", "np.sum(z, 0)": "(sumTo n z)", "x": "(x i)", "z[:, 1]": "(z i)",
                           "np.sum(sz)": "szsum"},
            dots={"np.dot(x, z[:, 1])": "sum", "np.dot((x - self.mean) ** 2, z[:, 1])": "sum"},
            skip={"self.shape_n, self.scale_n = _gam_param(-x, z[:, 0])", "self.shape_p, self.scale_p = _gam_param(x, z[:, 2])"})
    s.run(fn.body)
    o.emit("gggmSzS", "(tiny : Rat) (n : Nat) (z : Nat → Rat)", s.get("sz"), "`GGGM.Mstep`: `sz` (one column)")
    o.emit("gggmMeanS", "(tiny : Rat) (n : Nat) (x z : Nat → Rat)", s.get("self.mean"), "`GGGM.Mstep`: Gaussian mean")
    o.emit("gggmVarS", "(tiny : Rat) (n : Nat) (x z : Nat → Rat)", s.get("self.var"), "`GGGM.Mstep`: Gaussian variance")
    mix = Sym("GGGM.Mstep", {"sz": "sz", "np.sum(sz)": "szsum"}).tr(
        next(st.value for st in fn.body if isinstance(st, ast.Assign) and ast.unparse(st.targets[0]) == "self.mixt"))
    o.emit("gggmMixtS", "(sz szsum : Rat)", mix, "`GGGM.Mstep`: `mixt` from `sz` and `np.sum(sz)`")
    fn = _func(gg, "_compute_c")
    s = Sym("_compute_c", {"np.sum(z)": "sz", "np.dot(z, np.log(x))": "szlogx", "np.dot(z, x)": "szx"}, funcs={"np.log": "flog"})
    yst = next((st for st in fn.body if isinstance(st, ast.Assign) and ast.unparse(st.targets[0]) == "y"), None)
    if yst is None:
        raise TieBroken("_compute_c: no assignment to y")
    o.emit("gamYS", "(flog : Rat → Rat) (sz szlogx szx : Rat)", s.tr(yst.value),
           "`_compute_c`: `y = E_z[log x] − log E_z[x]`, the right-hand side of `psi(c) − log(c) = y`")

    return ("/- GENERATED by harness/props/c13_expr.py from nipy/algorithms/clustering/{gmm,bgmm,ggmixture}.py\n"
            "   (function bodies executed symbolically for a generic element).  Do not edit. -/\n"
            "import NipyVerif.Model.C13K\n"
            "namespace NipyVerif.Gen.C13\nopen NipyVerif.C13\n" + "\n".join(o.lines) + "\nend NipyVerif.Gen.C13\n")


def dens_text():
    """`_gaus_dens` and `_gam_dens` of ggmixture.py as Lean terms over the reals (`Gen/C13Dens.lean`);
    `np.log`, `np.exp`, `np.sqrt`, `np.pi`, `sp.gammaln` are Mathlib's functions (`gammaln = log ∘ Γ`, valid
    for the positive shapes the property quantifies over)"""
    gg = _parse(f"{CLUST}/ggmixture.py")
    funcs = {"np.log": "Real.log", "np.exp": "Real.exp", "np.sqrt": "Real.sqrt", "sp.gammaln": "lgamma"}
    o = Out()
    fn = _func(gg, "_gaus_dens")
    if [a.arg for a in fn.args.args] != ["mean", "var", "x"]:
        raise TieBroken("_gaus_dens: signature is not (mean, var, x)")
    s = Sym("_gaus_dens", {"mean": "m", "var": "v", "x": "x", "np.pi": "Real.pi"}, funcs=funcs, ty="ℝ").run(fn.body)
    o.emit("gausDensS", "(m v x : ℝ)", s.get("return"), "`_gaus_dens(mean, var, x)`")
    fn = _func(gg, "_gam_dens")
    if [a.arg for a in fn.args.args] != ["shape", "scale", "x"]:
        raise TieBroken("_gam_dens: signature is not (shape, scale, x)")
    body = [st for st in fn.body if not (isinstance(st, ast.Expr) and isinstance(st.value, ast.Constant))
            and not _is_cast(st)]
    shape = [ast.unparse(st).split("\n")[0] for st in body]
    want = ["ng = np.zeros(np.size(x))", None, "i = np.ravel(np.nonzero(x > 0))", "if np.size(i) > 0:", "return ng"]
    if len(shape) != 5 or any(w is not None and w != g for w, g in zip(want, shape)):
        raise TieBroken(f"_gam_dens: body is not `ng = zeros; cst = …; i = nonzero(x > 0); if size(i) > 0: …; return ng`: {shape}")
    inner = body[3].body
    if len(inner) != 2 or ast.unparse(inner[1]) != "ng[i] = np.exp(lz)" or body[3].orelse:
        raise TieBroken("_gam_dens: the positive part is not `lz = …; ng[i] = np.exp(lz)`")
    s = Sym("_gam_dens", {"shape": "a", "scale": "s", "x[i]": "x"}, funcs=funcs, ty="ℝ").run([body[1], inner[0]])
    o.emit("gamLogDensS", "(a s x : ℝ)", s.get("lz"), "`_gam_dens`: `lz`, the log-density at a sample `x > 0`")
    o.lines.append("/-- `_gam_dens(shape, scale, x)`: `exp(lz)` where `x > 0`, zero elsewhere -/\n"
                   "def gamDensS (a s x : ℝ) : ℝ := if x > 0 then Real.exp (gamLogDensS a s x) else 0")
    fn = _func(gg, "posterior", "GGM")
    s = Sym("GGM.posterior", {"self.mixt": "p", "tiny": "tiny", "_gam_dens(self.shape, self.scale, x)": "(gamDensS a s x)",
                              "_gaus_dens(self.mean, self.var, x)": "(gausDensS m v x)"}, funcs=funcs, ty="ℝ").run(fn.body)
    o.emit("ggmPgS", "(p a s x : ℝ)", s.get("pg"), "`GGM.posterior`: weighted gamma likelihood `pg`")
    o.emit("ggmYS", "(p m v x : ℝ)", s.get("y"), "`GGM.posterior`: weighted Gaussian likelihood `y`")
    o.emit("ggmTotalS", "(p a s m v tiny x : ℝ)", s.get("total"), "`GGM.posterior`: regularised mixture likelihood `total`")
    o.emit("ggmPostGausS", "(p a s m v tiny x : ℝ)", s.get("return0"), "`GGM.posterior`: first returned array (Gaussian class)")
    o.emit("ggmPostGamS", "(p a s m v tiny x : ℝ)", s.get("return1"), "`GGM.posterior`: second returned array (gamma class)")
    txt = "\n".join(o.lines).replace(": Rat :=", ": ℝ :=")
    return ("/- GENERATED by harness/props/c13_expr.py from nipy/algorithms/clustering/ggmixture.py\n"
            "   (`_gaus_dens`, `_gam_dens`).  Do not edit. -/\n"
            "import Mathlib.Analysis.SpecialFunctions.Gamma.Basic\nimport Mathlib.Analysis.SpecialFunctions.Sqrt\n"
            "noncomputable section\nnamespace NipyVerif.Gen.C13\n"
            "/-- `scipy.special.gammaln` on positive arguments -/\ndef lgamma (t : ℝ) : ℝ := Real.log (Real.Gamma t)\n"
            + txt + "\nend NipyVerif.Gen.C13\nend\n")


if __name__ == "__main__":
    import sys
    print(dens_text() if sys.argv[1:] == ["dens"] else lean_text())
