"""C06 — contrast statistics, p-values, z-scores and FDR are mutually consistent.

Correspondence: `Tcontrast / Fcontrast / t` (incl. `dispersion`, `store`, `invcov`), `Contrast` / labs
`contrast` objects with their whole constructor state (type, tiny, dofmax) under operation histories
(`stat / p_value / z_score / + / scalar * / * scalar / __div__`, the cache protocol between them), the
contrast factories (labs `glm.contrast`, fmri `GeneralLinearModel.contrast`, multi-session
`FMRILinearModel.contrast`), both z-score clips, `fdr`, `fdr_threshold`, `gaussian_fdr`,
`NormalEmpiricalNull.fdrcurve` against the Lean model (exact rationals; tolerance only where the
implementation rounds).  Oracle: the property's clauses evaluated directly on the real code.
The case kinds `hist`, `labsfit`, `glm`, `msess`, `enull` live in `c06_ext.py`; wave 3 (`pchk`, `gthr`, `enl`,
`shist`, `gmm3`, `cdiv`, `conpres`, `fopt`: the rest of `empirical_pvalue.py`, `__div__`, rarely used
`Fcontrast` arguments, other dtypes / layouts, and the translator of the source expressions) in `c06_w3.py`.
"""
from __future__ import annotations

import math
import warnings
from fractions import Fraction
from unittest import mock

import numpy as np

from harness.core import REPO, PropertyCheck, TieBroken
from harness.props import c06_ext as X
from harness.props import c06_w3 as W3
from harness.util import Snapshot, errname, fr, frs, parse_rats, plist

TINY = 1e-50
DOFMAX = 1e10
DOFS = [1.0, 2.0, 3.0, 5.0, 10.0, 30.0, 100.0, 1e3, 1e6, 1e10, 5e10]
LABS_TY = {"t": "t", "F": "F", "tmin-conjunction": "tmin", "foo": "foo"}


# ----------------------------------------------------------------------
# generators
# ----------------------------------------------------------------------
def _imat(rng, r, c, lo=-3, hi=3):
    return [[rng.randint(lo, hi) for _ in range(c)] for _ in range(r)]


def _invertible(rng, q):
    """small integer matrix with determinant in {±1, ±2, ±3, ±4}"""
    while True:
        g = np.array(_imat(rng, q, q, -2, 2), float)
        d = round(np.linalg.det(g))
        if d != 0 and abs(d) <= 4:
            return g.tolist()


def _fullrank(rng, q, p):
    while True:
        m = np.array(_imat(rng, q, p, -2, 2), float)
        if np.linalg.matrix_rank(m) == q:
            return m.tolist()


def _design(rng, n, p):
    while True:
        x = np.array(_imat(rng, n, p, -2, 3), float)
        if rng.random() < 0.6:
            x[:, -1] = 1
        if np.linalg.matrix_rank(x) == p and np.linalg.cond(x) < 50:
            return x.tolist()


def _pd(rng, q, scale):
    """dyadic symmetric positive definite matrix (A Aᵀ + D), off-diagonals of both signs"""
    a = np.array(_imat(rng, q, q, -2, 2), float)
    m = a @ a.T + np.diag([rng.choice([0.5, 1.0, 2.0]) for _ in range(q)])
    return (m * scale).tolist()


def _gen_model(rng):
    n = rng.choice([4, 5, 6, 8, 12])
    p = rng.choice([1, 2, 2, 3, 3, 4])
    n = max(n, p + 2)
    nv = rng.choice([0, 1, 2, 3])          # 0 = one-dimensional Y
    X = _design(rng, n, p)
    kind = rng.choice(["noise", "noise", "noise", "exactfit", "scaled"])
    Xa = np.array(X)
    cols = max(1, nv)
    if kind == "exactfit":               # zero residual ⇒ zero dispersion ⇒ zero variance branch
        B = np.array(_imat(rng, p, cols, -2, 2), float)
        Y = (Xa @ B).tolist()
    else:
        sc = 1.0 if kind == "noise" else rng.choice([2.0 ** -40, 2.0 ** 40])
        Y = (np.array(_imat(rng, n, cols, -8, 8), float) * sc).tolist()
        if rng.random() < 0.3 and cols > 1:   # one exactly fitted voxel among noisy ones
            Ya = np.array(Y); Ya[:, 0] = Xa @ np.array([rng.randint(-2, 2) for _ in range(p)], float)
            Y = Ya.tolist()
    q = rng.randint(1, p)
    bad = rng.choice([None] * 6 + ["len", "rows"])
    opt = None
    if rng.random() < 0.4:          # rarely used arguments: explicit dispersion, partial `store`, known `invcov`
        opt = {"disp": rng.choice([2.0, 0.5, 1.0, 2.0 ** -20, 16.0]),
               "store": rng.choice([["t"], ["effect"], ["sd"], ["t", "sd"], ["effect", "sd"], ["t", "effect", "sd"]])}
    return {"kind": "model", "X": X, "Y": Y, "oned": nv == 0,
            "c": _fullrank(rng, 1, p)[0], "M": _fullrank(rng, q, p), "G": _invertible(rng, q),
            "col": rng.randrange(p), "bad": bad, "opt": opt}


def _gen_con(rng, cls=None, tail=False):
    cls = cls or rng.choice(["fmri", "fmri", "labs"])
    q = rng.choice([1, 1, 2, 2, 3, 4])
    nv = rng.choice([1, 2, 3, 4])
    ty = rng.choice(["t", "t", "F", "F", "tmin-conjunction", "tmin-conjunction"] + (["foo"] if rng.random() < 0.3 else []))
    esc = rng.choice([1.0] * 5 + [2.0 ** -30, 2.0 ** 30, 2.0 ** -100, 2.0 ** 100])
    vsc = rng.choice([1.0] * 5 + [2.0 ** -20, 2.0 ** 20])
    eff = [[rng.randint(-12, 12) * 0.25 * esc for _ in range(nv)] for _ in range(q)]
    var = np.zeros((q, q, nv))
    for v in range(nv):
        var[:, :, v] = _pd(rng, q, vsc)
    zero_var = rng.random() < 0.15
    if zero_var and q == 1:
        var[:, :, rng.randrange(nv)] = 0.0
    elif zero_var and ty == "tmin-conjunction":
        # a component without variance at one voxel (constant voxel): the conjunction statistic is defined there
        # through the floor `tiny`; the matrix stays positive semi-definite
        v, i = rng.randrange(nv), rng.randrange(q)
        var[i, :, v] = 0.0
        var[:, i, v] = 0.0
    other_ty = ty if rng.random() < 0.8 else rng.choice(["t", "F", "tmin-conjunction"])
    oq = q if rng.random() < 0.9 else q + 1
    ovar = np.zeros((oq, oq, nv))
    for v in range(nv):
        ovar[:, :, v] = _pd(rng, oq, 1.0)
    bl = [0.0, 0.0, 1.0, -0.5, 2.5]
    cands = rng.sample([0.0, 1.0, -0.5, 2.5], 3)
    ops = [[rng.choice("spz"), rng.choice(cands)] for _ in range(rng.choice([2, 3, 3, 4, 5]))]
    return {"kind": "con", "cls": cls, "ty": ty, "q": q, "nv": nv, "effect": eff, "var": var.tolist(),
            "zero_var": bool(zero_var and (q == 1 or ty == "tmin-conjunction")),
            "dof": rng.choice(DOFS), "baseline": rng.choice(bl), "tiny": rng.choice(X.TINYS[:5]),
            "dofmax": rng.choice(X.DOFMAXS),
            "order": rng.choice(["C", "C", "F"]), "k": rng.choice([2.0, 0.5, 3.0, 0.125, 1024.0, -1.0, 0.0, 1.0]),
            "G": _invertible(rng, q),
            "other": {"ty": other_ty, "q": oq, "effect": [[rng.randint(-8, 8) * 0.5 for _ in range(nv)] for _ in range(oq)],
                      "var": ovar.tolist(), "dof": rng.choice(DOFS)},
            "ops": ops}


def _gen_fdr(rng):
    r = rng.random()
    alpha = rng.choice([1 / 16, 1 / 16, 0.05, 0.25, 0.5, 0.01])
    if r < 0.25:                        # exactly representable boundary structure
        n = rng.choice([1, 2, 4, 8, 16])
        alpha = 1 / 16
        p = []
        for _ in range(n):
            j = rng.randint(0, n)
            p.append(min(1.0, rng.choice([j * alpha / n, j * alpha / n, j * alpha / n / 2, rng.randint(0, 64) / 64])))
    else:
        n = rng.choice([1, 2, 3, 3, 4, 5, 6, 8, 12, 20, 40])
        grid = rng.choice([8, 64, 1024, 2 ** 20])
        p = [rng.randint(0, grid) / grid for _ in range(n)]
        if rng.random() < 0.4:            # small p-values, as in real maps
            p = [x * rng.choice([1, 2.0 ** -6, 2.0 ** -12, 2.0 ** -30]) for x in p]
        if rng.random() < 0.5 and n > 1:  # ties
            for _ in range(rng.randint(1, n)):
                p[rng.randrange(n)] = p[rng.randrange(n)]
    bad = None
    if r > 0.88:
        bad = rng.choice(["neg", "big", "nan", "empty"])
    return {"kind": "fdr", "p": p, "alpha": alpha, "bad": bad,
            "perm": rng.sample(range(len(p)), len(p))}


SWEEP = [0.0, 1e-300, 1e-100, 1e-30, 1e-10, 1e-3, 0.1, 0.5, 1.0, 1.5, 2.0, 3.0, 5.0, 7.0, 8.0, 8.2, 8.3, 8.5,
         10.0, 15.0, 20.0, 30.0, 37.0, 37.5, 38.0, 40.0, 100.0, 1e3, 1e4, 1e5, 1e6, 1e8, 1e10, 1e25, 1e100, 1e300]


# ----------------------------------------------------------------------
def _con_line(ty, q, e, v, dof):
    vv = " ".join(fr(v[i][j]) for i in range(q) for j in range(q))
    return f"{ty} {q} {frs(e)} {vv} {fr(dof)}".replace("  ", " ")


def _pos_recipr(x):
    return 1.0 / x if x > 0 else 0.0


class _Rec:
    """stand-in for `scipy.stats` / `scipy.stats.norm` that records the call"""

    def __init__(self):
        self.calls = []
        rec = self

        class _T:
            @staticmethod
            def sf(x, df):
                rec.calls.append(("t.sf", np.array(x, float), [float(df)]))
                return np.full(np.shape(x), 0.25)

        class _F:
            @staticmethod
            def sf(x, dfn, dfd):
                rec.calls.append(("f.sf", np.array(x, float), [float(dfn), float(dfd)]))
                return np.full(np.shape(x), 0.25)

        self.t, self.f = _T, _F

    def isf(self, p):
        self.calls.append(("norm.isf", np.array(p, float), []))
        return np.array(p, float) * 0.0


class C06(PropertyCheck):
    id = "C06"
    title = "Contrast statistics, p-values, z-scores and FDR are mutually consistent"
    lean_modules = ["NipyVerif.Props.C06", "NipyVerif.Props.C06B", "NipyVerif.Props.C06C", "NipyVerif.Props.C06Source",
                    "NipyVerif.Props.C06Tails"]
    driver = "Drivers/C06.lean"
    rule = ("cases from a seeded PRNG: fitted OLS models with t/F contrasts (incl. exact fits = zero variance; explicit "
            "dispersion, partial store, known invcov), Contrast objects (fmri and labs classes; t, F, tmin, unknown type; "
            "C- and Fortran-ordered variance; dof 1..5e10; non-default tiny and dofmax; baselines; call sequences "
            "stat/p_value/z_score), operation histories on one object (create with non-default tiny/dofmax, then "
            "stat / p_value / z_score / + / scalar * / * scalar / __div__ in any order, operands with equal or different "
            "settings, types and dimensions, scales 2^-30..2^30 kept exact), labs glm fits (ols / kalman / ar1, axis 0/1, "
            "contrast(c, type, tiny, dofmax), summary, save/load), fmri GeneralLinearModel.contrast (12 request shapes x "
            "types, AR(1) bins) and FMRILinearModel.contrast (1-3 sessions, null session contrasts, all output flags), "
            "p-value vectors (ties, 0, 1, boundary values, malformed), gaussian_fdr / NormalEmpiricalNull samples and tail "
            "sweeps |stat| up to 1e300 incl. dof above dofmax; wave 3: p-value vectors in every presentation (float32, "
            "integer, bool, 2-d, column, scalar, 0-d, list, Fortran / strided / negative-stride / read-only; NaN, None, "
            "out-of-range, empty; alpha <= 0 and > 1), gaussian_fdr_threshold, NormalEmpiricalNull step by step (learn with "
            "left / right incl. negative and > 1, constant samples, hand-set parameters; threshold with none / some / all "
            "samples below alpha; fdr(theta) at and between samples), smoothed_histogram_from_samples (automatic and given "
            "bins, normalized), three_classes_GMM_fit / gamma_gaussian_fit around stand-in estimators (bias, theta, test "
            "arrays, return_estimator), __div__ with every scalar type incl. 0, contrasts whose effect / variance arrays "
            "are integer / float32 / Fortran / strided / negative-stride / read-only, Fcontrast with a supplied invcov "
            "(true, scaled, wrong size) and dispersion as float / numpy scalar / 0-d / int / per-response array, "
            "t(column=list), vcov in its four call forms; non-trivial = more than one voxel/parameter/p-value or a "
            "multi-row contrast or a call sequence; distinct by full JSON")
    assumptions = [
        "np.sqrt is a parameter: in the legacy lines the model receives the value s and the driver refuses it unless "
        "|s*s - x| <= 2^-48 x; in histories the square root stays symbolic (the model answers num/sqrt(den2) as a term, "
        "minimum of such terms decided exactly in the rationals, proved sound for every positive square root) and the "
        "harness evaluates the term in binary64; theorems that need it assume s >= 0 and s*s = x",
        "matrix inversion (numpy.linalg.inv, LAPACK getrf/getri, labs mahalanobis) is a parameter: theorems hold for "
        "any left inverse W (W*V = 1); the driver uses an exact rational Gauss-Jordan inverse re-checked by W*V = 1 "
        "(invMat_sound) and the implementation is compared to it within 1e-10*cond(V)",
        "scipy.stats.t.sf / f.sf / norm.isf are parameters: the model answers a p-value / z-score as the term "
        "'tail(call, dfs) at statistic'; the harness checks the implementation's p against SciPy's tail at the "
        "implementation's own statistic with the model's degrees of freedom (1e-11) and z against norm.isf of the clipped "
        "p; that the tails are antitone maps into [0,1] (and the Student tail antitone in dof for x >= 0) and norm.isf is "
        "antitone and finite on the clip interval are hypotheses of the monotonicity theorems, checked numerically by the "
        "oracle (sweeps, closed forms for df in {1,2}, Fisher (2,d), normal limit)",
        "numpy argsort / sort tie order is immaterial: fdr_is_BH is proved for the model's stable merge sort through the "
        "sort permutation and characterises the result without reference to positions, so any other sort gives the same "
        "values (fdr_perm_equivariant)",
        "inside NormalEmpiricalNull.learn the float products n*left, n*right, np.std, np.exp, np.log, the edges "
        "np.histogram chose, pinv (the three fitted coefficients) and exp(lp0) are inputs; the model carries the slice, "
        "the number of bins, the counts for those edges, the masking step as written, the floor / mean / clamp after "
        "the fit, and everything in fdrcurve / threshold / fdr(theta); norm.sf / norm.isf values, the VB-GMM / "
        "gamma-Gaussian estimators (replaced by recording stand-ins for the bookkeeping cases, run for real in the "
        "others), scipy's Gaussian filter and the Kalman fits of labs glm are inputs; fits handing over a "
        "non-positive-definite covariance are skipped",
        "exact tails (Props/C06Tails, over the reals): for every probability law the survival function 1 - cdf is "
        "antitone into [0,1] and its upper quantile function is antitone and finite on (0,1), hence z is monotone in "
        "the statistic through the clip for the exact Student / Fisher / normal tails; that SciPy's binary64 t.sf, f.sf, "
        "norm.isf round these monotonically, and that the Student tail is antitone in the degrees of freedom, stay "
        "numeric (oracle sweeps)",
        "float32 presentations make nipy compute in single precision: compared with 1e-6 relative tolerance and not "
        "sent to the exact model where an intermediate is rounded to float32; unsigned effect arrays with integer "
        "baselines and int8 sums that overflow are NumPy wrap-around, not generated",
        "floating-point rounding of dot products: the model is exact, comparisons use |c||theta|-scaled tolerances; "
        "along a history the rounding-error bounds of effect and variance are propagated (zero while the arithmetic is "
        "exact, which the generator arranges)",
    ]
    level_note = ("'p equals the Student/Fisher tail' is definitional in the model (which tail, which df = min(dof, dofmax)) "
                  "and numeric on SciPy; sqrt and inverse enter theorems as exact-value hypotheses; monotonicity of z in "
                  "the statistic is proved for the exact tails of any probability law over the reals (C06Tails) and "
                  "numeric for SciPy's binary64 functions; the numerical constants (DEF_TINY, DEF_DOFMAX, clip bounds, "
                  "1e-6 variance floor, 1.2 widening, default alpha / left / right) and 27 assignment expressions (BH "
                  "q-value and critical test, fdrcurve, learn, smoothed histogram, prior weights, + / * / __div__ / "
                  "one-dimensional stat of both contrast classes) are regenerated from the source text and proved equal "
                  "to the model's for all arguments (C06Source); empirical_pvalue.py is modelled in full except the "
                  "least-squares fit inside learn, the mixture estimators and the Gaussian filter (inputs); "
                  "enThreshold_extremes records that threshold() returns the mid-range when every sample is below alpha")

    # ------------------------------------------------------------------
    def translators(self):
        return X.translate_consts(REPO, TieBroken) + W3.translate_formulas(REPO, TieBroken)

    def generate(self, rng, tier):
        nm, nc, nl, nf, ng, nh, ns, ne = (60, 200, 60, 200, 40, 260, 30, 40) if tier == "quick" else \
            (2500, 10000, 3000, 10000, 1500, 20000, 1000, 400)
        models = [_gen_model(rng) for _ in range(nm)]
        cases = [_gen_con(rng) for _ in range(nc)]
        cases += [X.gen_labsfit(rng, _design, _imat, _fullrank, _invertible) for _ in range(nl)]
        cases += [_gen_fdr(rng) for _ in range(nf)]
        cases += [X.gen_glm(rng, _design, _imat, _fullrank, _invertible) for _ in range(ng)]
        cases += [X.gen_hist(rng, _pd, _imat) for _ in range(nh)]
        cases += [X.gen_msess(rng, _design, _imat, _fullrank) for _ in range(ns)]
        cases += [X.gen_enull(rng) for _ in range(ne)]
        cases += [X.gen_ctor(rng) for _ in range(24 if tier == "quick" else 300)]
        dofs = [1.0, 2.0, 10.0, 1e10] if tier == "quick" else DOFS + [4.0, 7.0, 50.0, 1e4, 1e8, 1e9]
        for cls in ("fmri", "labs"):
            for d in dofs:
                for ty, q in (("t", 1), ("F", 1), ("F", 2), ("tmin-conjunction", 2)):
                    cases.append({"kind": "tail", "cls": cls, "ty": ty, "q": q, "dof": d, "zero_var": False,
                                  "dofmax": DOFMAX})
            cases.append({"kind": "tail", "cls": cls, "ty": "t", "q": 1, "dof": 5.0, "zero_var": True, "dofmax": DOFMAX})
            # the degrees-of-freedom cap: dof above a small dofmax
            for dm, d in ((1.0, 5.0), (2.0, 1e10), (2.0, 2.0)):
                for ty, q in (("t", 1), ("F", 2)):
                    cases.append({"kind": "tail", "cls": cls, "ty": ty, "q": q, "dof": d, "zero_var": False, "dofmax": dm})
        cases.append({"kind": "zs"})
        cases += W3.generate(rng, tier, _design, _imat, _fullrank)
        return cases + models

    # ------------------------------------------------------------------
    def run_case(self, case):
        warnings.filterwarnings("ignore")
        np.seterr(all="ignore")
        k = case["kind"]
        if k in ("hist", "labsfit", "glm", "msess", "enull", "ctor"):
            return getattr(X, "run_" + k)(case)
        if k in W3.KINDS:
            return getattr(W3, "run_" + k)(case)
        return getattr(self, "_" + k)(case)

    # ---- LikelihoodModelResults ---------------------------------------
    def _model(self, c):
        from nipy.algorithms.statistics.models.regression import OLSModel
        X = np.array(c["X"], float); Y = np.array(c["Y"], float)
        if c["oned"]:
            Y = Y[:, 0]
        n, p = X.shape
        res = OLSModel(X).fit(Y)
        theta = np.asarray(res.theta, float).reshape(p, -1)
        cov = np.asarray(res.cov, float)
        disp = np.atleast_1d(np.asarray(res.dispersion, float))
        nv = theta.shape[1]
        head = lambda v: f"{p} {frs(theta[:, v])} {frs(cov.ravel())} {fr(disp[v])}"
        lines, impl, fail, tags = [], [], None, ["model"]
        cvec = np.array(c["c"], float)
        M = np.array(c["M"], float)
        q = M.shape[0]
        snap = Snapshot(c=cvec, M=M, theta=res.theta, cov=res.cov)

        if c["bad"]:
            tags.append("refusal")
            bm = np.ones((1, p + 1)) if c["bad"] == "len" else np.ones((2, p))
            for nm, f, op in (("Tcontrast", res.Tcontrast, "tcon"), ("Fcontrast", res.Fcontrast, "fcon")):
                if op == "fcon" and c["bad"] == "rows":
                    continue
                try:
                    f(bm); obs = "returned"
                except Exception as e:
                    obs = errname(e)
                tail = " 0" if op == "tcon" else ""
                lines.append(f"{op} {head(0)} {bm.shape[0]} {bm.shape[1]} {frs(bm.ravel())}{tail}")
                impl.append(("text", obs))
            return {"lines": lines, "impl": impl, "oracle": None, "nontrivial": True, "tags": tags, "mutated": snap.changed()}

        try:
            tc = res.Tcontrast(cvec)
            fc = res.Fcontrast(M)
            f1 = res.Fcontrast(cvec)
            fg = res.Fcontrast(np.array(c["G"], float) @ M)
            tcol = np.atleast_1d(res.t(c["col"]))
        except Exception as e:
            return {"lines": [], "impl": [], "nontrivial": True, "tags": tags + ["raised"],
                    "oracle": f"{type(e).__name__}: {e} raised for a full-row-rank contrast of a fitted OLS model"}
        mut = snap.changed()
        eff = np.atleast_1d(tc.effect); sd = np.atleast_1d(tc.sd); t = np.atleast_1d(tc.t)
        # the result objects as arrays are their statistic; confidence intervals agree with the two-sided t test
        if not (np.array_equal(np.asarray(tc), np.asarray(tc.t)) and np.array_equal(np.asarray(fc), np.asarray(fc.F))):
            fail = "np.asarray(TContrastResults / FContrastResults) is not the t / F statistic"
        if c["oned"] and fail is None and float(np.atleast_1d(res.dispersion)[0]) > 0:
            import scipy.stats as st
            for alpha in (0.05, 0.5):
                ci = res.conf_int(alpha=alpha)
                ci2 = res.conf_int(alpha=alpha, cols=tuple(range(p)))
                tj = np.atleast_1d(res.t())
                p2 = 2 * st.t.sf(np.abs(tj), n - p)
                inside = (ci[:, 0] <= 0) & (0 <= ci[:, 1])
                clear = np.abs(p2 - alpha) > 1e-9
                if ci.shape != (p, 2) or not np.allclose(ci, ci2, rtol=1e-12, atol=1e-300):
                    fail = f"conf_int(cols=None) {ci.tolist()} differs from conf_int(cols=all) {ci2.tolist()}"
                elif not np.allclose(ci.mean(1), theta[:, 0], rtol=1e-9, atol=1e-12 * np.abs(ci).max()):
                    fail = "confidence intervals are not centred on the estimates"
                elif np.any((p2 < alpha)[clear] == inside[clear]):
                    fail = (f"conf_int(alpha={alpha}) {ci.tolist()} disagrees with the two-sided t test: t={tj!r}, "
                            f"p={p2!r}")
        F = np.atleast_1d(fc.F); F1 = np.atleast_1d(f1.F); FG = np.atleast_1d(fg.F)
        fe = np.asarray(fc.effect, float).reshape(q, -1)
        fcv = np.asarray(fc.covariance, float).reshape(q, q, -1)
        V = M @ cov @ M.T
        condV = np.linalg.cond(V)
        W = np.linalg.inv(V)
        for v in range(nv):
            th = theta[:, v]
            ae = 1e-13 * float(np.abs(cvec) @ np.abs(th)) + 1e-300
            av = 1e-12 * float(np.abs(cvec) @ np.abs(cov) @ np.abs(cvec)) * abs(disp[v]) + 1e-300
            at = ae * _pos_recipr(sd[v]) + 1e-300
            lines.append(f"tcon {head(v)} 1 {p} {frs(cvec)} {fr(sd[v])}")
            impl.append(("vals", [eff[v], sd[v] ** 2, t[v]], [ae, av, at]))
            u = np.abs(M) @ np.abs(th)
            bound = float(u @ np.abs(W) @ u) * _pos_recipr(q * disp[v])
            tolF = 1e-10 * condV * bound + 1e-300
            tole = 1e-13 * float(u.max()) + 1e-300
            tolc = 1e-12 * float((np.abs(M) @ np.abs(cov) @ np.abs(M.T)).max()) * abs(disp[v]) + 1e-300
            lines.append(f"fcon {head(v)} {q} {p} {frs(M.ravel())}")
            impl.append(("vals", [F[v], fc.df_num] + fe[:, v].tolist() + fcv[:, :, v].ravel().tolist(),
                         [tolF, 0] + [tole] * q + [tolc] * (q * q)))
            j = c["col"]
            sdj = float(np.sqrt(cov[j, j] * disp[v]))
            lines.append(f"tcol {fr(th[j])} {fr(cov[j, j])} {fr(disp[v])} {fr(sdj)}")
            impl.append(("vals", [sdj ** 2, tcol[v]], [1e-15 * sdj ** 2 + 1e-300, 1e-14 * abs(tcol[v]) + 1e-300]))
            # ---- oracle on the real results ----
            if fail is None:
                if sd[v] > 0 and not _close(t[v], eff[v] / sd[v], 1e-12):
                    fail = f"Tcontrast: t={t[v]!r} but effect/sd={eff[v] / sd[v]!r} (voxel {v})"
                elif sd[v] == 0 and t[v] != 0:
                    fail = f"Tcontrast: zero standard error but t={t[v]!r} (voxel {v})"
                elif not _close(F1[v], t[v] ** 2, 1e-8 * max(1.0, condV)) and disp[v] > 0 and \
                        abs(F1[v] - t[v] ** 2) > 1e-10 * float(np.abs(cvec) @ np.abs(th)) ** 2 * _pos_recipr(sd[v] ** 2):
                    fail = f"one-row Fcontrast F={F1[v]!r} but t^2={t[v] ** 2!r} (voxel {v})"
                elif not _close(FG[v], F[v], 1e-9 * condV * max(1.0, np.linalg.cond(np.array(c['G']))) ** 2) and \
                        abs(FG[v] - F[v]) > 1e-9 * condV * max(1.0, np.linalg.cond(np.array(c['G']))) ** 2 * bound:
                    # (an effect that vanishes exactly leaves only rounding noise over a rounding-noise dispersion)
                    fail = f"Fcontrast not invariant under row recombination G: F(M)={F[v]!r} F(GM)={FG[v]!r} (voxel {v})"
                elif fc.df_num != q or fc.df_den != n - p or tc.df_den != n - p:
                    fail = f"degrees of freedom: df_num={fc.df_num} (rows {q}) df_den={fc.df_den} (n-p={n - p})"
        opt = c.get("opt")
        if opt and fail is None:
            d = float(opt["disp"])
            tags.append("options")
            try:
                tcs = res.Tcontrast(cvec, dispersion=d, store=tuple(opt["store"]))
                tcd = res.Tcontrast(cvec, dispersion=d)
                fcd = res.Fcontrast(M, dispersion=d)
                f1d = res.Fcontrast(cvec, dispersion=d)
                fiv = res.Fcontrast(M, invcov=W)
            except Exception as e:
                fail = (f"{type(e).__name__}: {e} raised by Tcontrast/Fcontrast(contrast, dispersion={d!r}) on a fitted OLS model "
                        f"(documented argument: None or float)")
            else:
                for nm in ("t", "effect", "sd"):
                    if (getattr(tcs, nm) is not None) != (nm in opt["store"]) and fail is None:
                        fail = f"Tcontrast(store={opt['store']}): field {nm} {'missing' if nm in opt['store'] else 'stored'}"
                td = np.atleast_1d(tcd.t); ed = np.atleast_1d(tcd.effect); sdd = float(np.ravel(tcd.sd)[0])
                Fd = np.atleast_1d(fcd.F); F1d = np.atleast_1d(f1d.F); Fiv = np.atleast_1d(fiv.F)
                fcvd = np.asarray(fcd.covariance, float).reshape(q, q, -1)
                for v in range(nv):
                    th = theta[:, v]
                    hd = f"{p} {frs(th)} {frs(cov.ravel())} {fr(d)}"
                    ae = 1e-13 * float(np.abs(cvec) @ np.abs(th)) + 1e-300
                    av = 1e-12 * float(np.abs(cvec) @ np.abs(cov) @ np.abs(cvec)) * d + 1e-300
                    lines.append(f"tcon {hd} 1 {p} {frs(cvec)} {fr(sdd)}")
                    impl.append(("vals", [ed[v], sdd ** 2, td[v]], [ae, av, ae * _pos_recipr(sdd) + 1e-300]))
                    u = np.abs(M) @ np.abs(th)
                    tolF = 1e-10 * condV * float(u @ np.abs(W) @ u) / (q * d) + 1e-300
                    tolc = 1e-12 * float((np.abs(M) @ np.abs(cov) @ np.abs(M.T)).max()) * d + 1e-300
                    lines.append(f"fcon {hd} {q} {p} {frs(M.ravel())}")
                    impl.append(("vals", [Fd[v], fcd.df_num] + fe[:, v].tolist() + fcvd[:, :, 0].ravel().tolist(),
                                 [tolF, 0] + [1e-13 * float(u.max()) + 1e-300] * q + [tolc] * (q * q)))
                    if fail is None:
                        # the result is coherent with the dispersion that was asked for: its covariance is
                        # d * M (X'X)^-1 M', and F is the quadratic form of the effect in that covariance
                        Cd = fcvd[:, :, 0]
                        want = d * (M @ cov @ M.T)
                        if np.abs(Cd - want).max() > 1e-9 * max(1e-300, float(np.abs(want).max())) * max(1.0, condV):
                            fail = (f"Fcontrast(dispersion={d}): reported covariance {Cd.tolist()} is not "
                                    f"dispersion * M (X'X)^-1 M' = {want.tolist()}")
                        elif d > 0 and np.linalg.cond(want) < 1e8:
                            Qf = float(fe[:, v] @ np.linalg.solve(Cd, fe[:, v])) / q
                            if not _close(Fd[v], Qf, 1e-7 * max(1.0, condV)):
                                fail = (f"Fcontrast(dispersion={d}) reports F={Fd[v]!r} but effect' inv(covariance) "
                                        f"effect / df_num = {Qf!r} (voxel {v})")
                    if fail is None:
                        if not _close(F1d[v], td[v] ** 2, 1e-8 * max(1.0, condV)):
                            fail = f"dispersion={d}: one-row Fcontrast F={F1d[v]!r} but t^2={td[v] ** 2!r} (voxel {v})"
                        elif not _close(Fiv[v], F[v], 1e-9 * condV):
                            fail = f"Fcontrast with the known inverse covariance gives F={Fiv[v]!r}, without it {F[v]!r}"
        if np.any(disp == 0):
            tags.append("zero-dispersion")
        tags.append(f"q={q}")
        return {"lines": lines, "impl": impl, "oracle": fail, "nontrivial": p > 1 or nv > 1, "tags": tags, "mutated": mut}

    # ---- Contrast objects ---------------------------------------------
    def _mk(self, c, eff=None, var=None, dof=None, ty=None, order=None, q=None):
        eff = np.array(c["effect"] if eff is None else eff, float)
        var = np.array(c["var"] if var is None else var, float)
        dof = c["dof"] if dof is None else dof
        ty = c["ty"] if ty is None else ty
        order = c.get("order", "C") if order is None else order
        q = eff.shape[0]
        var = np.asfortranarray(var) if order == "F" else np.ascontiguousarray(var)
        tiny = c.get("tiny", TINY)
        dofmax = c.get("dofmax", DOFMAX)
        if c["cls"] == "fmri":
            from nipy.modalities.fmri.glm import Contrast
            import contextlib, io
            with contextlib.redirect_stdout(io.StringIO()):
                return Contrast(eff, var, dof=dof, contrast_type=ty, tiny=tiny, dofmax=dofmax)
        import nipy.labs.glm.glm as lg
        k = lg.contrast(q, LABS_TY.get(ty, ty), tiny, dofmax)
        if q == 1:
            k.effect, k.variance = eff[0], var[0, 0]
        else:
            k.effect, k.variance = eff, var
        k.dof = dof
        return k

    @staticmethod
    def _call(obj, cls, op, b):
        name = {"fmri": {"s": "stat", "p": "p_value", "z": "z_score"},
                "labs": {"s": "stat", "p": "pvalue", "z": "zscore"}}[cls][op]
        return np.ravel(np.array(getattr(obj, name)(b), float))

    def _con(self, c):
        cls, ty, q, nv, b = c["cls"], c["ty"], c["q"], c["nv"], c["baseline"]
        eff = np.array(c["effect"], float); var = np.array(c["var"], float)
        tiny, dof = c["tiny"], c["dof"]
        dofmax = c.get("dofmax", DOFMAX)
        lines, impl, fail, tags = [], [], None, ["con", "cls=" + cls, "ty=" + ty, f"dim={min(q, 3)}", "order=" + c["order"]]
        mut = None
        mty = LABS_TY[ty] if cls == "labs" else ty     # string the class sees
        eff_ty = "F" if (q > 1 and ty == "t") else ty   # constructor conversion
        glm_mod = _mod(cls)

        def note(msg):
            nonlocal fail
            if fail is None:
                fail = msg

        # -- stat / p / z on fresh objects (C-ordered copy: layout is exercised by the call sequences) --
        def fresh(op, bb, **kw):
            return self._call(self._mk(c, order="C", **kw), cls, op, bb)

        stat = pval = z = None
        try:
            stat = fresh("s", b)
        except Exception as e:
            stat_err = errname(e)
        vd = np.array([[var[i, i, v] for v in range(nv)] for i in range(q)])
        s = np.sqrt(np.maximum(vd, tiny))
        for v in range(nv):
            lines.append(f"stat {_con_line(mty, q, eff[:, v], var[:, :, v], dof)} {fr(b)} {fr(tiny)} {frs(s[:, v])}")
            if stat is None:
                impl.append(("text", stat_err))
            elif q > 1 and eff_ty == "F":
                W = np.linalg.inv(var[:, :, v]); d = np.abs(eff[:, v] - b)
                impl.append(("vals", [stat[v]], [1e-10 * np.linalg.cond(var[:, :, v]) * float(d @ np.abs(W) @ d) / q + 1e-300]))
            else:
                impl.append(("vals", [stat[v]], [1e-13 * abs(stat[v]) + 1e-300]))
        # which tail, which degrees of freedom
        rec = _Rec()
        with mock.patch.object(glm_mod, "sps", rec):
            try:
                fresh("p", b); obs = None
            except Exception as e:
                obs = errname(e)
        lines.append(f"pcall {mty} {q} {fr(dof)} {fr(dofmax)}")
        if obs is None and rec.calls:
            fn, x, dfs = rec.calls[-1]
            impl.append(("text", f"{fn} {frs(dfs)}"))
            if stat is not None and not np.array_equal(np.ravel(x), stat):
                note(f"p_value does not evaluate the tail at the statistic: argument {np.ravel(x)!r}, stat {stat!r}")
        else:
            impl.append(("text", obs or "no tail evaluated"))
        known_ty = eff_ty in ("t", "F", "tmin-conjunction")
        if stat is not None and known_ty:
            try:
                pval = fresh("p", b); z = fresh("z", b)
            except Exception as e:
                note(f"{type(e).__name__}: {e} raised by p_value/z_score on a valid {ty} contrast")
        elif stat is None and known_ty:
            note(f"stat() raised {stat_err} on a valid {ty} contrast of dimension {q}")
        if pval is not None and z is not None and (np.any(np.isnan(pval)) or np.any(np.isnan(stat))):
            note(f"NaN statistic / p-value on finite inputs: stat {stat!r} p {pval!r}")
            pval = z = None
        if pval is not None and z is not None:
            # clipping constants, exactly
            import nipy.algorithms.statistics.utils as U
            rn = _Rec()
            with mock.patch.object(U, "norm", rn):
                try:
                    fresh("z", b)
                except Exception:
                    pass
            lines.append(f"zclip {plist(pval)}")
            impl.append(("exact", rn.calls[-1][1].ravel().tolist()) if rn.calls else ("text", "no isf call"))
            import scipy.stats as st
            dfd = min(dof, dofmax)
            want_p = st.f.sf(stat, q, dfd) if eff_ty == "F" else st.t.sf(stat, dfd)
            want_z = st.norm.isf(np.minimum(np.maximum(pval, 1e-300), 1 - 1e-16))
            inr = (pval >= 1e-300) & (pval <= 1 - 1e-16)    # outside: only finite and monotone are required
            if np.any(pval < 0) or np.any(pval > 1) or np.any(np.isnan(pval)):
                note(f"p-value outside [0,1]: {pval!r}")
            elif not np.allclose(pval, want_p, rtol=1e-12, atol=0):
                note(f"p-value {pval!r} is not the {'Fisher' if eff_ty == 'F' else 'Student'} tail {want_p!r} "
                     f"of stat {stat!r} at dof {dfd}")
            elif not np.all(np.isfinite(z)):
                note(f"z-score not finite: {z!r}")
            elif not np.allclose(z[inr], want_z[inr], rtol=1e-12, atol=1e-12):
                note(f"z-score {z!r} is not the normal quantile {want_z!r} of p {pval!r}")
            else:
                o = np.argsort(stat, kind="stable")
                zs, ps = z[o], pval[o]
                if np.any(np.diff(zs) < -1e-9 * np.maximum(1, np.abs(zs[1:]))) or np.any(np.diff(ps) > 1e-9 * ps[:-1]):
                    note(f"z / p not monotone in the statistic: stat {stat[o]!r} p {ps!r} z {zs!r}")
        # -- structure of the statistic --
        if stat is not None and fail is None and known_ty:
            tcomp = (eff - b) / s
            if q == 1 and eff_ty == "F":
                tt = fresh("s", b, ty="t")
                if not np.allclose(stat, tt ** 2, rtol=1e-12, atol=0):
                    note(f"one-dimensional F statistic {stat!r} is not t^2 = {tt ** 2!r}")
            elif q == 1 or eff_ty == "tmin-conjunction":
                want = tcomp.min(0)
                if not np.allclose(stat, want, rtol=1e-12, atol=0):
                    note(f"{ty} statistic {stat!r} differs from (effect-baseline)/sqrt(max(var,tiny)) = {want!r}")
            else:
                G = np.array(c["G"], float)
                want = np.array([(eff[:, v] - b) @ np.linalg.solve(var[:, :, v], eff[:, v] - b) / q for v in range(nv)])
                tol = 1e-9 * max(np.linalg.cond(var[:, :, v]) for v in range(nv))
                if not np.allclose(stat, want, rtol=tol, atol=0):
                    note(f"F statistic {stat!r} is not the Mahalanobis distance / dim = {want!r}")
                else:
                    ge = G @ (eff - b) + b
                    gv = np.einsum("ij,jkv,lk->ilv", G, var, G)
                    sg = fresh("s", b, eff=ge, var=gv)
                    if not np.allclose(sg, stat, rtol=tol * np.linalg.cond(G) ** 2, atol=0):
                        note(f"F statistic changes under the invertible row recombination G={G.tolist()}: {stat!r} -> {sg!r}")
        # -- addition --
        o = c["other"]
        a1 = self._mk(c, order="C")
        a2 = self._mk(c, eff=o["effect"], var=o["var"], dof=o["dof"], ty=o["ty"], order="C")
        if cls == "fmri":
            oe = np.array(o["effect"], float); ov = np.array(o["var"], float)
            o_eff_ty = "F" if (o["q"] > 1 and o["ty"] == "t") else o["ty"]
            try:
                sm = a1 + a2
                got = None
            except Exception as e:
                sm, got = None, errname(e)
            for v in range(nv):
                lines.append(f"add {_con_line(ty, q, eff[:, v], var[:, :, v], dof)} "
                             f"{_con_line(o['ty'], o['q'], oe[:, v], ov[:, :, v], o['dof'])}")
                if sm is None:
                    impl.append(("text", got))
                else:
                    impl.append(("tvals", _tyname(sm.contrast_type), [sm.dof] + sm.effect[:, v].tolist() + sm.variance[:, :, v].ravel().tolist()))
            if sm is None and eff_ty == o_eff_ty and q == o["q"]:
                note(f"adding two compatible {ty} contrasts raised {got}")
            if sm is not None and (eff_ty != o_eff_ty or q != o["q"]):
                note("adding contrasts of different type or dimension did not raise")
            if sm is not None and fail is None and not (np.array_equal(sm.effect, eff + oe) and np.array_equal(sm.variance, var + ov)
                                                       and sm.dof == dof + o["dof"]):
                note("sum of two contrasts does not add effects, variances and degrees of freedom")
            tags.append("add-ok" if sm is not None else "add-refused")
        elif q == o["q"]:
            sm = a1 + a2
            e1 = np.array(o["effect"], float); v1 = np.array(o["var"], float)
            we, wv = (eff[0] + e1[0], var[0, 0] + v1[0, 0]) if q == 1 else (eff + e1, var + v1)
            if not (np.array_equal(sm.effect, we) and np.array_equal(sm.variance, wv) and sm.dof == dof + o["dof"]):
                note("labs: sum of two contrasts does not add effects, variances and degrees of freedom")
        # -- scaling --
        k = c["k"]
        sc = k * self._mk(c, order="C")
        if cls == "fmri":
            for v in range(nv):
                lines.append(f"smul {fr(k)} {_con_line(ty, q, eff[:, v], var[:, :, v], dof)}")
                impl.append(("tvals", _tyname(sc.contrast_type), [sc.dof] + sc.effect[:, v].tolist() + sc.variance[:, :, v].ravel().tolist()))
        if k > 0 and known_ty and stat is not None and pval is not None and fail is None:
            ok = (vd >= tiny).all(0) & (vd * k * k >= tiny).all(0) & np.isfinite(eff * k).all(0) & np.isfinite(vd * k * k).all(0)
            try:
                s2, p2, z2 = (self._call(k * self._mk(c, order="C"), cls, op, 0.0) for op in "spz")
                s0, p0, z0 = (fresh(op, 0.0) for op in "spz")
                if not (np.allclose(s2[ok], s0[ok], rtol=1e-9, atol=0) and np.allclose(p2[ok], p0[ok], rtol=1e-7, atol=1e-300)
                        and np.allclose(z2[ok], z0[ok], rtol=1e-7, atol=1e-9)):
                    note(f"scaling the {cls} contrast (type {ty}, dim {q}, dof {dof}, tiny {tiny}, dofmax {dofmax}) by {k} "
                         f"changes t/p/z: {s0!r}->{s2!r}, {p0!r}->{p2!r}, {z0!r}->{z2!r}")
                tags.append("scale-tested")
            except Exception as e:
                note(f"{type(e).__name__}: {e} raised on the scaled contrast")
        # -- call sequences on one object (cache protocol), in the requested memory layout --
        if known_ty and stat is not None:
            cands = sorted({bb for _, bb in c["ops"]} | {0.0})
            fr_vals = {}
            for op in "spz":
                for bb in cands:
                    try:
                        fr_vals[(op, bb)] = fresh(op, bb)
                    except Exception:
                        fr_vals[(op, bb)] = None
            obj = self._mk(c)
            snap = Snapshot(effect=obj.effect, variance=obj.variance)
            labels, hist = [], []
            for op, bb in c["ops"]:
                hist.append(f"{ {'s': 'stat', 'p': 'p_value', 'z': 'z_score'}[op]}({bb})")
                try:
                    r = self._call(obj, cls, op, bb)
                except Exception as e:
                    labels.append(f"{op}:{type(e).__name__}")
                    note(f"call sequence {' ; '.join(hist)}: last call raised {type(e).__name__}: {e}")
                    continue
                lab = "?"
                for b2 in [bb] + [x for x in cands if x != bb]:
                    w = fr_vals[(op, b2)]
                    if w is not None and w.shape == r.shape and np.allclose(r, w, rtol=1e-9, atol=1e-300, equal_nan=True):
                        lab = fr(b2); break
                labels.append(f"{op}:{lab}")
                if lab != fr(bb):
                    note(f"call sequence {' ; '.join(hist)} on one {cls} contrast object ({ty}, dim {q}, "
                         f"{c['order']}-ordered variance): last call returned "
                         f"{'the value for baseline ' + lab if lab != '?' else 'a value matching no baseline'}: "
                         f"{r!r} instead of {fr_vals[(op, bb)]!r}")
            mut = snap.changed()
            lines.append(f"cache {len(c['ops'])} " + " ".join(f"{op} {fr(bb)}" for op, bb in c["ops"]))
            impl.append(("text", " ".join(labels)))
            tags.append("cache-seq")
        if (vd == 0).any():
            tags.append("zero-variance")
        return {"lines": lines, "impl": impl, "oracle": fail, "nontrivial": nv > 1 or q > 1 or len(c["ops"]) > 1,
                "tags": tags, "mutated": mut}

    # ---- tails: sweeps on the real code --------------------------------
    def _tail(self, c):
        import scipy.stats as st
        cls, ty, q, dof = c["cls"], c["ty"], c["q"], c["dof"]
        if ty == "F":
            grid = np.array(SWEEP)
        else:
            grid = np.array(sorted({-x for x in SWEEP} | set(SWEEP)))
        nv = grid.size
        if c["zero_var"]:
            eff = np.array([sorted([-1.0, -2.0 ** -60, 0.0, 2.0 ** -80, 2.0 ** -60, 1.0, 2.0 ** 30])])
            nv = eff.shape[1]
            var = np.zeros((1, 1, nv))
            want_stat = eff[0] / np.sqrt(TINY)
        elif q == 1:
            eff = (np.sqrt(grid) if ty == "F" else grid)[None, :]
            var = np.ones((1, 1, nv))
            want_stat = grid if ty != "F" else eff[0] ** 2
        else:
            # dim 2, identity variance: F = (e1² + e2²)/2 ; tmin = min(e1, e2)
            if ty == "F":
                e1 = np.sqrt(grid); eff = np.vstack([e1, e1])
                want_stat = e1 ** 2
            else:
                eff = np.vstack([grid, np.abs(grid) + 1.0])
                want_stat = grid
            var = np.zeros((2, 2, nv)); var[0, 0] = 1; var[1, 1] = 1
        dofmax = c.get("dofmax", DOFMAX)
        cc = {"cls": cls, "effect": eff.tolist(), "var": var.tolist(), "dof": dof, "ty": ty, "tiny": TINY, "dofmax": dofmax}
        fail = None
        try:
            stat, p, z = (self._call(self._mk(cc), cls, op, 0.0) for op in "spz")
        except Exception as e:
            return {"lines": [], "impl": [], "nontrivial": True, "tags": ["tail", "raised"],
                    "oracle": f"{type(e).__name__}: {e} in the {ty} tail sweep at dof {dof}"}
        dfd = min(dof, dofmax)
        if not np.allclose(stat, want_stat, rtol=1e-12, atol=0):
            fail = f"{ty} statistic {stat!r} differs from {want_stat!r}"
        elif np.any(np.isnan(p)) or np.any(p < 0) or np.any(p > 1):
            fail = f"p-value outside [0,1] at dof {dof}: {p!r}"
        elif not np.all(np.isfinite(z)):
            bad = int(np.nonzero(~np.isfinite(z))[0][0])
            fail = f"z-score not finite at stat={stat[bad]!r}, dof {dof}: z={z[bad]!r}"
        else:
            o = np.argsort(stat, kind="stable")
            zs, ps, ss = z[o], p[o], stat[o]
            dz = np.diff(zs)
            bad = np.nonzero(dz < -1e-7 * np.maximum(1, np.abs(zs[1:])))[0]
            badp = np.nonzero(np.diff(ps) > 1e-7 * ps[:-1] + 1e-300)[0]
            if bad.size:
                i = int(bad[0])
                fail = (f"z-score decreases while the {ty} statistic increases (dof {dof}): "
                        f"stat {ss[i]!r}->{ss[i + 1]!r}, z {zs[i]!r}->{zs[i + 1]!r}")
            elif badp.size:
                i = int(badp[0])
                fail = (f"p-value increases with the {ty} statistic (dof {dof}): stat {ss[i]!r}->{ss[i + 1]!r}, "
                        f"p {ps[i]!r}->{ps[i + 1]!r}")
        if fail is None:
            ref = _closed_form(ty, q, dfd, stat)
            if ref is not None:
                m = (ref > 1e-290) & np.isfinite(ref)
                if not np.allclose(p[m], ref[m], rtol=1e-7, atol=0):
                    i = int(np.nonzero(m)[0][np.argmax(np.abs(p[m] / ref[m] - 1))])
                    fail = (f"p-value is not the {'Fisher' if ty == 'F' else 'Student'} tail at dof {dfd}: "
                            f"stat {stat[i]!r} gives p={p[i]!r}, closed form {ref[i]!r}")
            wz = st.norm.isf(np.minimum(np.maximum(p, 1e-300), 1 - 1e-16))
            inr = (p >= 1e-300) & (p <= 1 - 1e-16)
            if fail is None and not np.allclose(z[inr], wz[inr], rtol=1e-12, atol=1e-12):
                fail = f"z-score is not the normal quantile of the clipped p-value: {z!r} vs {wz!r}"
        return {"lines": [], "impl": [], "oracle": fail, "nontrivial": True,
                "tags": ["tail", "ty=" + ty, "zero-variance" if c["zero_var"] else "sweep"], "mutated": None}

    def _zs(self, c):
        """`z_score` on its own: finite on [0,1] ∪ out-of-range inputs, antitone, symmetric use of isf"""
        from nipy.algorithms.statistics.utils import z_score
        import scipy.stats as st
        p = np.array([0.0, 1e-320, 1e-310, 1e-300, 1e-299, 1e-200, 1e-100, 1e-17, 1e-16, 1e-10, 0.01, 0.3, 0.5, 0.7,
                      0.99, 1 - 1e-10, 1 - 1e-15, 1 - 2e-16, 1 - 1e-16, 1.0])
        snap = Snapshot(p=p)
        z = z_score(p)
        fail = None
        if not np.all(np.isfinite(z)):
            fail = f"z_score not finite on {p[~np.isfinite(z)]!r}"
        elif np.any(np.diff(z) > 0):
            i = int(np.nonzero(np.diff(z) > 0)[0][0])
            fail = f"z_score increases with p: z({p[i]!r})={z[i]!r} < z({p[i + 1]!r})={z[i + 1]!r}"
        elif not np.allclose(z[3:-3], st.norm.isf(p[3:-3]), rtol=1e-13):
            fail = "z_score is not norm.isf on the unclipped range"
        elif abs(z[11] + z[13]) > 1e-12 or z[12] != 0:
            fail = "z_score(0.5) != 0 or not antisymmetric about 0.5"
        rn = _Rec()
        import nipy.algorithms.statistics.utils as U
        with mock.patch.object(U, "norm", rn):
            z_score(p)
        lines = [f"zclip {plist(p)}"]
        impl = [("exact", rn.calls[-1][1].tolist())]
        # the labs helper (clips at 1e-15 on both sides)
        import sys
        import nipy.labs.utils  # noqa
        import scipy.stats as sst
        zmod = sys.modules["nipy.labs.utils.zscore"]
        p2 = np.array([0.0, 1e-300, 1e-16, 9e-16, 1e-15, 1.1e-15, 1e-10, 0.01, 0.5, 0.99, 1 - 1e-10, 1 - 2e-15, 1 - 1e-15,
                       1 - 5e-16, 1.0])
        snap2 = Snapshot(p=p2)
        z2 = zmod.zscore(p2)
        if fail is None:
            if not np.all(np.isfinite(z2)):
                fail = f"labs zscore not finite on {p2[~np.isfinite(z2)]!r}"
            elif np.any(np.diff(z2) > 0):
                fail = "labs zscore increases with p"
            elif not np.allclose(z2[4:-3], sst.norm.isf(p2[4:-3]), rtol=1e-13):
                fail = "labs zscore is not norm.isf on the unclipped range"
        rn2 = _Rec()
        with mock.patch.object(sst, "norm", rn2):
            zmod.zscore(p2)
        lines.append(f"zclip2 {plist(p2)}")
        impl.append(("exact", rn2.calls[-1][1].tolist()))
        return {"lines": lines, "impl": impl, "oracle": fail,
                "nontrivial": True, "tags": ["zs"], "mutated": snap.changed() or snap2.changed()}

    # ---- FDR ------------------------------------------------------------
    def _fdr(self, c):
        from nipy.algorithms.statistics import empirical_pvalue as ep
        p = np.array(c["p"], float)
        bad = c["bad"]
        if bad == "neg":
            p[0] = -2.0 ** -20
        elif bad == "big":
            p[-1] = 1 + 2.0 ** -20
        elif bad == "nan":
            p[0] = np.nan
        elif bad == "empty":
            p = np.array([])
        n = p.size
        snap = Snapshot(p=p)
        lines, impl, fail, tags = [], [], None, ["fdr"]
        if bad:
            tags.append("refusal")
            for f, nm in ((ep.fdr, "fdr"), (lambda x: ep.fdr_threshold(x, c["alpha"]), "fdr_threshold")):
                try:
                    f(p); obs = "returned"
                except Exception as e:
                    obs = errname(e)
                if bad == "nan":
                    if obs != "error:valueError":
                        fail = f"{nm} accepted a NaN p-value ({obs})"
                else:
                    lines.append(f"fdr {plist(p)}" if nm == "fdr" else f"fdrthr {fr(c['alpha'])} {plist(p)}")
                    impl.append(("text", obs))
                    if obs != "error:valueError" and bad != "empty":
                        fail = f"{nm} accepted p-values outside [0,1] ({obs})"
            return {"lines": lines, "impl": impl, "oracle": fail, "nontrivial": True, "tags": tags, "mutated": snap.changed()}
        q = ep.fdr(p)
        thr = ep.fdr_threshold(p, c["alpha"])
        mut = snap.changed()
        lines.append(f"fdr {plist(p)}")
        impl.append(("vals", q.tolist(), [1e-13] * n))
        # Benjamini–Hochberg step-up values, sort-free, in exact arithmetic
        P = [Fraction(x) for x in p.tolist()]
        bh = []
        for x in P:
            best = Fraction(1)
            for y in P:
                if y >= x:
                    best = min(best, n * y / sum(1 for w in P if w <= y))
            bh.append(best)
        if q.shape != p.shape:
            fail = f"fdr returned shape {q.shape} for {p.shape}"
        elif not all(abs(float(a) - b) <= 1e-12 for a, b in zip(bh, q)):
            k = max(range(n), key=lambda i: abs(float(bh[i]) - q[i]))
            fail = f"fdr value {q[k]!r} for p[{k}]={p[k]!r} is not the Benjamini-Hochberg step-up value {float(bh[k])!r}"
        elif np.any(q < p - 1e-15) or np.any(q > 1):
            fail = "fdr value outside [p, 1]"
        else:
            perm = c["perm"]
            q2 = ep.fdr(p[perm])
            if not np.allclose(q2, q[perm], rtol=0, atol=1e-14):
                fail = "fdr not equivariant under permutation of the p-values"
        # threshold: agree with the model away from rounding-sensitive boundaries
        alpha = Fraction(c["alpha"])
        sp = sorted(P)
        exact = c["alpha"] == 1 / 16 and n in (1, 2, 4, 8, 16)
        near = any(abs(x * n - alpha * (i + 1)) <= Fraction(1, 10 ** 9) * alpha * (i + 1) for i, x in enumerate(sp))
        if exact or not near:
            lines.append(f"fdrthr {fr(c['alpha'])} {plist(p)}")
            impl.append(("vals", [thr], [1e-15 * abs(thr)]))
            crit = [x for i, x in enumerate(sp) if x * n < alpha * (i + 1)]
            want = max(crit) if crit else alpha / n
            if fail is None and abs(float(want) - thr) > 1e-15 * abs(thr):
                fail = f"fdr_threshold {thr!r} is not the BH critical p-value {float(want)!r}"
            if fail is None and crit and c["alpha"] <= 1:
                sel_thr = p <= thr
                sel_q = np.array([b < alpha for b in bh])
                if not np.array_equal(sel_thr, sel_q):
                    fail = f"p <= fdr_threshold selects {sel_thr.tolist()} but fdr < alpha selects {sel_q.tolist()}"
            tags.append("thr-boundary" if (exact and near) else "thr")
        if len(set(p.tolist())) < n:
            tags.append("ties")
        # gaussian_fdr = fdr ∘ norm.sf
        if fail is None and n >= 2:
            import scipy.stats as st
            x = st.norm.isf(np.minimum(np.maximum(p, 1e-300), 1 - 1e-16))
            gq = ep.gaussian_fdr(x)
            if not np.allclose(gq, ep.fdr(st.norm.sf(x)), rtol=0, atol=1e-15):
                fail = "gaussian_fdr(x) != fdr(norm.sf(x))"
            elif np.any(np.diff(gq[np.argsort(x, kind="stable")]) > 1e-12):
                fail = "gaussian_fdr not non-increasing in x"
        return {"lines": lines, "impl": impl, "oracle": fail, "nontrivial": n > 1, "tags": tags, "mutated": mut}

    # ------------------------------------------------------------------
    def compare(self, case, impl_obs, model_out):
        kind = impl_obs[0]
        if kind == "w3":
            return W3.compare_w3(impl_obs, model_out)
        if kind in ("hist", "objx", "msess"):
            return X.compare_ext(impl_obs, model_out)
        if kind == "text":
            return None if impl_obs[1] == model_out else f"impl={impl_obs[1]!r} model={model_out!r}"
        if kind == "tvals":      # type name, then numbers each rounded once by the implementation
            head, _, rest = model_out.partition(" ")
            if head != impl_obs[1]:
                return f"impl type {impl_obs[1]!r} model={model_out[:60]!r}"
            vals = impl_obs[2]
            return self.compare(case, ("vals", vals, [0.0] * len(vals), 4e-16), rest)
        if model_out.startswith(("error", "bad-op")):
            return f"impl returned values {str(impl_obs[1])[:120]}, model says {model_out}"
        try:
            mv = parse_rats(model_out)
        except Exception:
            return f"unparsable model output {model_out[:80]!r}"
        vals = impl_obs[1]
        if len(mv) != len(vals):
            return f"length impl={len(vals)} model={len(mv)}"
        if kind == "exact":
            for k, (a, b) in enumerate(zip(vals, mv)):
                if Fraction(a) != b:
                    return f"index {k}: impl={a!r} model={float(b)!r} (exact comparison)"
            return None
        tols = impl_obs[2]
        rel = impl_obs[3] if len(impl_obs) > 3 else 1e-13
        for k, (a, b, t) in enumerate(zip(vals, mv, tols)):
            fb = X.ffloat(b)
            if float(a) == fb:          # also ±inf where the exact value leaves the binary64 range
                continue
            if not (abs(float(a) - fb) <= t + rel * abs(fb)):
                return f"index {k}: impl={float(a)!r} model={fb!r} tol={t!r}"
        return None

    def shrink(self, case):
        k = case["kind"]
        if k == "hist":
            yield from X.shrink_hist(case)
        if k == "msess" and len(case["sessions"]) > 1:
            for i in range(len(case["sessions"])):
                c = dict(case); c["sessions"] = case["sessions"][:i] + case["sessions"][i + 1:]
                yield c
        if k == "con":
            if len(case["ops"]) > 1:
                for i in range(len(case["ops"])):
                    c = dict(case); c["ops"] = case["ops"][:i] + case["ops"][i + 1:]
                    yield c
            if case["nv"] > 1:
                for v in range(case["nv"]):
                    c = dict(case); c["nv"] = case["nv"] - 1
                    c["effect"] = [r[:v] + r[v + 1:] for r in case["effect"]]
                    c["var"] = [[r[:v] + r[v + 1:] for r in row] for row in case["var"]]
                    o = dict(case["other"])
                    o["effect"] = [r[:v] + r[v + 1:] for r in o["effect"]]
                    o["var"] = [[r[:v] + r[v + 1:] for r in row] for row in o["var"]]
                    c["other"] = o
                    yield c
        if k == "fdr" and len(case["p"]) > 1 and not case["bad"]:
            for i in range(len(case["p"])):
                c = dict(case); c["p"] = case["p"][:i] + case["p"][i + 1:]
                c["perm"] = list(range(len(c["p"])))[::-1]
                yield c
        if k in ("model", "labsfit", "glm"):
            Y = case["Y"]
            if len(Y[0]) > 1:
                for v in range(len(Y[0])):
                    c = dict(case); c["Y"] = [r[:v] + r[v + 1:] for r in Y]
                    yield c

    finding_keys = {"fcontrast-float-dispersion":
                    "Fcontrast(matrix, dispersion=<python float>) raises TypeError ('float' object is not subscriptable)"}

    def classify(self, case, failure):
        if case.get("kind") == "model" and "not subscriptable" in failure and "dispersion=" in failure:
            return "fcontrast-float-dispersion"
        return None


def _mod(cls):
    if cls == "fmri":
        import nipy.modalities.fmri.glm as m
    else:
        import nipy.labs.glm.glm as m
    return m


def _tyname(t):
    return {"t": "t", "F": "F", "tmin-conjunction": "tmin"}.get(t, "other")


def _close(a, b, rtol):
    a = float(a); b = float(b)
    return a == b or abs(a - b) <= rtol * max(abs(a), abs(b)) + 1e-300


def _t_sf_closed(df, t):
    """Student tail for df 1 and 2, without cancellation"""
    t = np.asarray(t, float)
    a = np.abs(t)
    with np.errstate(all="ignore"):
        if df == 1:
            up = np.arctan2(1.0, a) / np.pi
        else:
            r = np.sqrt(2 + a * a)
            up = 1.0 / ((r + a) * r)
    return np.where(t >= 0, up, 1 - up)


def _closed_form(ty, q, df, stat):
    import scipy.stats as st
    stat = np.asarray(stat, float)
    if ty in ("t", "tmin-conjunction"):
        if df in (1.0, 2.0):
            return _t_sf_closed(df, stat)
        if df >= 1e10:
            ref = st.norm.sf(stat)
            ref[np.abs(stat) > 6] = np.nan
            return ref
        return None
    if q == 1:
        if df in (1.0, 2.0):
            return 2 * _t_sf_closed(df, np.sqrt(stat))
        return None
    if q == 2:
        with np.errstate(all="ignore"):
            return np.exp(-(df / 2) * np.log1p(2 * stat / df))
    return None


CHECK = C06()
