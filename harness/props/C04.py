"""C04 — resampling samples the source at the mapped world location.

Entry points exercised on the real code (from /repo through the overlay importer):
  nipy.algorithms.resample.resample / resample_img2img
  nipy.algorithms.interpolation.ImageInterpolator.evaluate
  nipy.algorithms.registration.resample.resample   (cubic_spline.c rebuilt from /repo by cshim)
  nipy.labs.datasets.volumes.volume_img.VolumeImg.as_volume_img / resampled_to_img /
      values_in_world / xyz_ordered
  nipy.algorithms.registration.groupwise_registration.resample4d / Realign4dAlgorithm.resample

Correspondence: the matrix/offset (or coordinate array) each entry point hands to its numerical
routine is captured and compared with the Lean model's composition; the output array is compared
with the model's lattice lookup / linear-field value.  Oracle: the property's clauses computed
independently with exact fractions (looked-up source value, fill value, analytic linear field,
target coordmap) plus, for arbitrary maps, an independent scipy interpolation at the exactly
mapped coordinates.
"""
from __future__ import annotations

import itertools
import warnings
from fractions import Fraction

import numpy as np

from harness.core import PropertyCheck
from harness.util import Snapshot, errname, fr, frs, parse_rats

MODES = ["constant", "nearest", "reflect", "wrap"]


# ----------------------------------------------------------------------
# exact affine algebra on n x (n+1) nested lists  [A | b]
# ----------------------------------------------------------------------
def F(M):
    return [[Fraction(x) for x in row] for row in M]


def f_comp(a, c):
    """a o c for [A|b] blocks (a: m x (n+1), c: n x (k+1))"""
    m, n, k = len(a), len(c), len(c[0]) - 1
    out = []
    for i in range(m):
        row = [sum(a[i][l] * c[l][j] for l in range(n)) for j in range(k)]
        row.append(sum(a[i][l] * c[l][k] for l in range(n)) + a[i][n])
        out.append(row)
    return out


def f_apply(a, x):
    n = len(a[0]) - 1
    return [sum(a[i][j] * x[j] for j in range(n)) + a[i][n] for i in range(len(a))]


def f_inv(a):
    """exact inverse of a square [A|b] affine; None if singular"""
    n = len(a)
    M = [list(a[i][:n]) + [Fraction(int(i == j)) for j in range(n)] for i in range(n)]
    for c in range(n):
        p = next((r for r in range(c, n) if M[r][c] != 0), None)
        if p is None:
            return None
        M[c], M[p] = M[p], M[c]
        pv = M[c][c]
        M[c] = [x / pv for x in M[c]]
        for r in range(n):
            if r != c and M[r][c] != 0:
                f = M[r][c]
                M[r] = [x - f * y for x, y in zip(M[r], M[c])]
    Ai = [row[n:] for row in M]
    b = [a[i][n] for i in range(n)]
    return [Ai[i] + [-sum(Ai[i][j] * b[j] for j in range(n))] for i in range(n)]


def f_ident(n):
    return [[Fraction(int(i == j)) for j in range(n)] + [Fraction(0)] for i in range(n)]


def H(a):
    """homogeneous float matrix of an [A|b] block"""
    a = np.array([[float(x) for x in row] for row in a], dtype=float)
    m = a.shape[0]
    h = np.zeros((m + 1, a.shape[1]))
    h[:m] = a
    h[m, -1] = 1
    return h


def is_exact(M):
    """all entries are floats that survive Fraction -> float -> Fraction"""
    return all(Fraction(float(x)) == x and abs(x) < 2 ** 20 and (x == 0 or abs(x) > 2 ** -12)
               for row in M for x in row)


def tofloat(M):
    return [[float(x) for x in row] for row in M]


def aff_txt(M):
    return " ".join(frs(row) for row in M)


# ----------------------------------------------------------------------
# generators of affines
# ----------------------------------------------------------------------
def rand_perm(rng, n):
    p = list(range(n))
    rng.shuffle(p)
    return p


def rand_dyadic_affine(rng, n, oblique=None, steps=(1, 1, 2, 0.5, 4, 1, 2)):
    """perm . shear . diag with dyadic entries and dyadic offset; float inverse exact"""
    for _ in range(200):
        p = rand_perm(rng, n)
        d = [Fraction(rng.choice(steps)) * rng.choice([1, 1, -1]) for _ in range(n)]
        sh = [[Fraction(int(i == j)) for j in range(n)] for i in range(n)]
        ob = (rng.random() < 0.4) if oblique is None else oblique
        if ob and n > 1:
            for _ in range(rng.choice([1, 1, 2])):
                i, j = rng.sample(range(n), 2)
                sh[i][j] = Fraction(rng.choice([1, -1, 2])) * Fraction(rng.choice([1, 1, 0.5]))
        A = [[sh[p[i]][j] * d[j] for j in range(n)] for i in range(n)]
        b = [Fraction(rng.randrange(-12, 13)) / 2 for _ in range(n)]
        a = [A[i] + [b[i]] for i in range(n)]
        inv = f_inv(a)
        if inv is None or not is_exact(a) or not is_exact(inv):
            continue
        h = H(a)
        import scipy.linalg as spl
        ex = H(inv)
        if np.array_equal(np.linalg.inv(h), ex) and np.array_equal(spl.inv(h), ex) \
                and np.array_equal(np.linalg.inv(h[:n, :n]), ex[:n, :n]):
            return a
    return f_ident(n)


def rand_lattice_map(rng, n, src_shape, kind=None):
    """integer voxel->voxel map Z (signed permutation x integer step + integer shift) and a
    target shape mostly (not always entirely) inside the source"""
    kind = kind or rng.choice(["identity", "flip", "perm", "shift", "subsample", "mixed", "mixed"])
    p = list(range(n))
    sg = [1] * n
    st = [1] * n
    shift = [0] * n
    if kind in ("perm", "mixed"):
        p = rand_perm(rng, n)
    if kind in ("flip", "mixed"):
        sg = [rng.choice([1, -1]) for _ in range(n)]
        if kind == "flip" and all(s == 1 for s in sg):
            sg[rng.randrange(n)] = -1
    if kind in ("subsample", "mixed"):
        st = [rng.choice([1, 2, 2, 3]) for _ in range(n)]
    if kind in ("shift", "mixed"):
        shift = [rng.choice([-2, -1, 0, 1, 2, 3]) for _ in range(n)]
    # source axis i reads target axis p[i]
    Z = [[Fraction(sg[i] * st[i] * int(j == p[i])) for j in range(n)] for i in range(n)]
    tshape = [0] * n
    for i in range(n):
        full = (src_shape[i] + st[i] - 1) // st[i]
        tshape[p[i]] = max(1, full + rng.choice([0, 0, 0, 1, -1]))
    for i in range(n):
        off = shift[i] + ((src_shape[i] - 1) if sg[i] < 0 else 0)
        Z[i].append(Fraction(off))
    return Z, tshape, kind


def rand_float_affine(rng, n):
    """generic (non-dyadic) affine: rotation-ish, anisotropic steps"""
    rs = np.random.RandomState(rng.randrange(2 ** 31))
    q, _ = np.linalg.qr(rs.randn(n, n))
    d = np.diag(rs.choice([0.8, 1.0, 1.25, 2.0, 3.0, 0.9], size=n) * rs.choice([1, 1, -1], size=n))
    A = q @ d
    b = rs.uniform(-3, 3, size=n)
    return [[float(A[i, j]) for j in range(n)] + [float(b[i])] for i in range(n)]


def make_data(seed, shape, kind="int"):
    rs = np.random.RandomState(seed)
    if kind == "int":
        return rs.randint(-20, 60, size=shape).astype(float)
    return rs.randint(-64, 64, size=shape) / 8.0


def all_idx(shape):
    return list(itertools.product(*[range(s) for s in shape]))


def inside(p, shape):
    return all(0 <= x < s for x, s in zip(p, shape))


def scale_of(arr):
    return max(1.0, float(np.max(np.abs(arr))) if np.size(arr) else 1.0)


# ----------------------------------------------------------------------
class _GenericTransform:
    """a transform with only `apply`/`compose` (no `as_affine`): generic branch"""

    def __init__(self, func):
        self.func = func

    def apply(self, pts):
        return self.func(np.asarray(pts, dtype=float))

    def compose(self, other):
        return _GenericTransform(lambda pts: self.apply(other.apply(pts)))


class C04(PropertyCheck):
    id = "C04"
    title = "Resampling samples the source at the mapped world location"
    lean_modules = ["NipyVerif.Props.C04"]
    driver = "Drivers/C04.lean"
    rule = ("cases are (entry point, source grid, target grid, world transform and its form, order, mode, "
            "cval, dtype) tuples from a seeded PRNG; lattice cases are built as tgt = T^-1 . src . Z for an "
            "integer voxel map Z (identity/flip/permutation/shift/sub-sampling), field cases carry a linear "
            "intensity, generic cases arbitrary float affines; non-trivial = the voxel map is not the identity "
            "or the transform is not the identity or the order is > 0; distinct by full JSON of the case")
    assumptions = [
        "the interpolators (scipy.ndimage spline interpolation with its pre-filter, cubic_spline.c) enter the "
        "theorems only through the hypotheses Interp.at_lattice / FillsOutside / LinearExact; the oracle checks "
        "those clauses numerically on the real code for every case (tolerance 1e-7 of the data scale)",
        "matrix inverses (np.linalg.inv, scipy.linalg.inv, coordmap.inverse) are parameters of the model: the "
        "exact inverse is supplied and verified by the driver; float inverses agree to 1e-9",
        "the homogeneous (n+1)x(n+1) packing (from_matvec / to_matvec) is represented as an (A, b) pair",
        "pyx glue (_cspline_resample3d/_cspline_sample3d/_cspline_transform) cannot be rebuilt: in "
        "registration.resample it is replaced by ctypes calls into cubic_spline.c rebuilt from the tree under "
        "test; groupwise_registration uses the installed glue",
        "VolumeImg.as_volume_img with a 3x3 affine (bounding-box search) and VolumeGrid with non-affine "
        "transforms are oracle-only",
    ]
    level_note = ("pipeline composition, lattice lookup, fill value, linear-field and coordmap clauses proved for "
                  "all inputs of the model; interpolator laws are hypotheses (instances: order 0 in any dimension, "
                  "order 1 in 1-D)")
    finding_keys = {}

    # ------------------------------------------------------------------
    def generate(self, rng, tier):
        q = tier == "quick"
        cases = []
        n_res, n_reg, n_vol, n_xyz, n_int, n_rl = (600, 520, 360, 140, 200, 30) if q else (4200, 3600, 2400, 900, 1400, 200)
        for _ in range(n_res):
            cases.append(self._gen_resample(rng))
        for _ in range(n_reg):
            cases.append(self._gen_reg(rng))
        for _ in range(n_vol):
            cases.append(self._gen_vol(rng))
        for _ in range(n_xyz):
            cases.append(self._gen_xyz(rng))
        for _ in range(n_int):
            cases.append(self._gen_interp(rng))
        for _ in range(n_rl):
            cases.append(self._gen_realign(rng))
        return cases

    @staticmethod
    def _shape(rng, n, big=False):
        if n == 2:
            return [rng.choice([1, 3, 4, 5, 7, 9]), rng.choice([2, 3, 5, 6, 8])]
        if n == 3:
            return [rng.choice([2, 3, 4, 5, 6]), rng.choice([3, 4, 5, 7]), rng.choice([1, 2, 4, 5, 6])]
        return [rng.choice([2, 3, 4]), rng.choice([2, 3, 4]), rng.choice([2, 3]), rng.choice([1, 2, 3])]

    def _gen_resample(self, rng):
        n = rng.choice([2, 3, 3, 3, 4])
        sshape = self._shape(rng, n)
        task = rng.choice(["lookup", "lookup", "lookup", "field", "generic"])
        entry = rng.choice(["resample", "resample", "resample", "img2img"])
        mkind = rng.choice(["matrix", "pair", "affobj", "callable", "cmapobj"])
        src = rand_dyadic_affine(rng, n)
        T = f_ident(n) if (entry == "img2img" or rng.random() < 0.2) else rand_dyadic_affine(rng, n)
        if task == "generic":
            srcf = rand_float_affine(rng, n)
            Tf = tofloat(f_ident(n)) if entry == "img2img" else rand_float_affine(rng, n)
            tgtf = rand_float_affine(rng, n)
            tshape = self._shape(rng, n)
            zk = "generic"
        else:
            if task == "lookup":
                Z, tshape, zk = rand_lattice_map(rng, n, sshape)
            else:
                Z = rand_dyadic_affine(rng, n, steps=(1, 1, 0.5, 2, 0.5))
                # centre roughly: keep the offset small so that part of the target is in the field of view
                for i in range(n):
                    Z[i][n] = Fraction(rng.randrange(-2, 2 * sshape[i])) / 2
                tshape = self._shape(rng, n)
                zk = "dyadic"
            tgt = f_comp(f_inv(T), f_comp(src, Z))
            if not is_exact(tgt):
                T = f_ident(n)
                tgt = f_comp(src, Z)
            srcf, Tf, tgtf = tofloat(src), tofloat(T), tofloat(tgt)
        order = 1 if task == "field" else rng.choice([0, 1, 2, 3, 3, 4, 5])
        mode = rng.choice(["constant", "constant", "constant", "nearest", "reflect", "wrap"])
        c = {"kind": "resample", "entry": entry, "n": n, "sshape": sshape, "tshape": tshape, "src": srcf,
             "T": Tf, "tgt": tgtf, "mkind": mkind, "task": task, "zkind": zk, "order": order, "mode": mode,
             "cval": rng.choice([0.0, 0.0, -7.5, 100.0, 3.0]), "dseed": rng.randrange(10 ** 6),
             "names": rng.choice(["ijk", "kji", "xyz"])}
        if task == "field":
            c["coef"] = [rng.choice([0.0, 1.0, -2.0, 0.5, 3.0]) for _ in range(n)] + [rng.choice([0.0, 4.0, -1.5])]
        if entry == "img2img" and rng.random() < 0.08:
            c["mismatch"] = True     # refusal branch: different world dimension
        return c

    def _gen_reg(self, rng):
        n = 3
        sshape = self._shape(rng, 3)
        task = rng.choice(["lookup", "lookup", "lookup", "field", "generic"])
        mov = rand_dyadic_affine(rng, 3)
        movvox, refvox = rng.random() < 0.35, rng.random() < 0.35
        tkind = rng.choice(["none", "matrix", "matrix", "affobj", "generic", "generic"])
        if tkind == "none" and task != "generic":
            refvox = False      # identity transform: the lattice map is realised by the reference affine
        if task == "generic":
            movf, Tf, reff = rand_float_affine(rng, 3), rand_float_affine(rng, 3), rand_float_affine(rng, 3)
            if tkind == "none":
                Tf = tofloat(f_ident(3))
            tshape = self._shape(rng, 3)
            zk = "generic"
        else:
            T = f_ident(3) if tkind == "none" or rng.random() < 0.15 else rand_dyadic_affine(rng, 3)
            if task == "lookup":
                Z, tshape, zk = rand_lattice_map(rng, 3, sshape)
            else:
                Z = rand_dyadic_affine(rng, 3, steps=(1, 1, 0.5, 2, 0.5))
                for i in range(3):
                    Z[i][3] = Fraction(rng.randrange(-2, 2 * sshape[i])) / 2
                tshape = self._shape(rng, 3)
                zk = "dyadic"
            # Tv = [inv(mov)] . T . [ref] = Z   =>   ref-side factor R = T^-1 . [mov] . Z
            left = f_ident(3) if movvox else mov
            R = f_comp(f_inv(T), f_comp(left, Z))
            if refvox:
                # transform maps from reference voxels: fold R into T, reference affine is free
                T = f_comp(T, R)
                ref = rand_dyadic_affine(rng, 3)
            else:
                ref = R
            if not (is_exact(T) and is_exact(ref)):
                return self._gen_reg(rng)
            movf, Tf, reff = tofloat(mov), tofloat(T), tofloat(ref)
        order = 1 if task == "field" else rng.choice([0, 1, 2, 3, 3, 3, 4, 5])
        mode = rng.choice(["constant", "constant", "constant", "nearest", "reflect"])
        cval = rng.choice([0.0, 0.0, 0.0, 2.5, -4.0])
        if task != "field" and rng.random() < 0.3:
            order, mode, cval = 3, "constant", 0.0      # the cubic-spline short cut
        return {"kind": "reg", "sshape": sshape, "tshape": tshape, "mov": movf, "T": Tf, "ref": reff,
                "movvox": movvox, "refvox": refvox, "tkind": tkind, "task": task, "zkind": zk, "order": order,
                "mode": mode, "cval": cval, "dseed": rng.randrange(10 ** 6),
                "dtype": rng.choice([None, None, "float64", "float32", "int16", "uint8"]),
                "ref_as_tuple": rng.random() < 0.5, "ref_none": False}

    def _gen_vol(self, rng):
        sshape = self._shape(rng, 3)
        task = rng.choice(["lookup", "lookup", "lookup", "generic"])
        src = rand_dyadic_affine(rng, 3)
        if task == "lookup":
            Z, tshape, zk = rand_lattice_map(rng, 3, sshape)
            if rng.random() < 0.12:
                Z, tshape, zk = f_ident(3), list(sshape), "same-affine"
            tgt = f_comp(src, Z)
            srcf, tgtf = tofloat(src), tofloat(tgt)
        else:
            srcf, tgtf, tshape, zk = rand_float_affine(rng, 3), rand_float_affine(rng, 3), self._shape(rng, 3), "generic"
        return {"kind": "vol", "sshape": sshape, "tshape": tshape, "src": srcf, "tgt": tgtf, "task": task,
                "zkind": zk, "interp": rng.choice(["nearest", "continuous"]),
                "via": rng.choice(["as_volume_img", "as_volume_img", "resampled_to_img", "values_in_world"]),
                "extra": rng.choice([[], [], [2], [2, 2]]), "dseed": rng.randrange(10 ** 6)}

    def _gen_xyz(self, rng):
        sshape = self._shape(rng, 3)
        p = rand_perm(rng, 3)
        d = [Fraction(rng.choice([1, 2, 0.5, 3, 1.5])) * rng.choice([1, -1]) for _ in range(3)]
        A = [[d[j] * int(i == p[j]) for j in range(3)] for i in range(3)]
        b = [Fraction(rng.randrange(-10, 11)) / 2 for _ in range(3)]
        aff = [A[i] + [b[i]] for i in range(3)]
        return {"kind": "xyz", "sshape": sshape, "aff": tofloat(aff), "dseed": rng.randrange(10 ** 6),
                "rot": rng.random() < 0.08}

    def _gen_interp(self, rng):
        n = rng.choice([2, 3, 3])
        sshape = self._shape(rng, n)
        src = rand_dyadic_affine(rng, n)
        npts = rng.choice([1, 4, 9, 16])
        pts = []
        for _ in range(npts):
            r = rng.random()
            if r < 0.6:      # world position of a (possibly outside) voxel centre
                v = [Fraction(rng.randrange(-2, s + 2)) for s in sshape]
            else:            # half-voxel positions
                v = [Fraction(rng.randrange(-2, 2 * s + 2)) / 2 for s in sshape]
            pts.append([float(x) for x in f_apply(src, v)])
        return {"kind": "interp", "n": n, "sshape": sshape, "src": tofloat(src), "pts": pts,
                "order": rng.choice([0, 1, 2, 3, 3, 4, 5]),
                "mode": rng.choice(["constant", "constant", "nearest", "nearest", "reflect", "wrap"]),
                "cval": rng.choice([0.0, -3.0, 50.0]), "dseed": rng.randrange(10 ** 6)}

    def _gen_realign(self, rng):
        sshape = [rng.choice([4, 5, 6]), rng.choice([4, 5, 7]), rng.choice([4, 6])]
        d = [Fraction(rng.choice([1, 2, 0.5, 3])) for _ in range(3)]
        aff = [[d[j] * int(i == j) for j in range(3)] + [Fraction(rng.randrange(-6, 7))] for i in range(3)]
        nt = rng.choice([1, 2, 3])
        shifts = [[rng.choice([0, 0, 1, -1, 2]) for _ in range(3)] if rng.random() < 0.5 else [0, 0, 0]
                  for _ in range(nt)]
        return {"kind": "realign", "sshape": sshape, "aff": tofloat(aff), "nt": nt, "shifts": shifts,
                "dseed": rng.randrange(10 ** 6)}

    # ------------------------------------------------------------------
    def run_case(self, case):
        warnings.filterwarnings("ignore")
        return getattr(self, "_run_" + case["kind"])(case)

    # ---- shared oracle pieces ------------------------------------------
    @staticmethod
    def _expect_lookup(M, tshape, data, cval, const):
        """exact lattice lookup: list of (value | None) per target voxel, C order"""
        out = []
        sshape = data.shape
        for v in all_idx(tshape):
            x = f_apply(M, [Fraction(t) for t in v])
            if all(c.denominator == 1 for c in x):
                p = tuple(int(c) for c in x)
                if inside(p, sshape):
                    out.append(float(data[p]))
                else:
                    out.append(float(cval) if const else None)
            else:
                out.append(None)
        return out

    @staticmethod
    def _border_mask(M, tshape, sshape):
        """target voxels mapped onto the border of the field of view (some coordinate exactly 0 or
        shape-1): when the implementation's own arithmetic is inexact (Affine objects re-built from a
        matrix) the computed coordinate may fall either side, so no claim is made there"""
        out = []
        for v in all_idx(tshape):
            x = f_apply(M, [Fraction(t) for t in v])
            out.append(any(abs(x[i]) < Fraction(1, 10 ** 6) or abs(x[i] - (sshape[i] - 1)) < Fraction(1, 10 ** 6)
                           for i in range(len(sshape))))
        return out

    @staticmethod
    def _check_expected(name, got, exp, tol, what):
        got = np.asarray(got, dtype=float).ravel()
        if got.size != len(exp):
            return f"{name}: output has {got.size} samples, target grid has {len(exp)}"
        for k, e in enumerate(exp):
            if e is None:
                continue
            if not (abs(got[k] - e) <= tol):
                return f"{name}: target voxel #{k} holds {got[k]!r} but {what} is {e!r}"
        return None

    @staticmethod
    def _lookup_line_tail(tshape, data, cval, const=True):
        return (f"lookup {' '.join(map(str, tshape))} {' '.join(map(str, data.shape))} "
                f"{frs(data.ravel().tolist())} {fr(cval)} {1 if const else 0}")

    @staticmethod
    def _field_parts(coef, src, M, tshape, sshape, cval, const):
        """linear intensity c(world): L = c o src on source voxels; expected c(src(M v))"""
        n = len(src)
        cf = [[Fraction(x) for x in coef]]
        L = f_comp(cf, src)            # 1 x (n+1)
        exp = []
        for v in all_idx(tshape):
            x = f_apply(M, [Fraction(t) for t in v])
            if all(0 <= x[i] <= sshape[i] - 1 for i in range(n)):
                exp.append(float(f_apply(L, x)[0]))
            else:
                near = any(-1 < x[i] < 0 or sshape[i] - 1 < x[i] < sshape[i] for i in range(n))
                exp.append(None if (near and not const) or not const else float(cval))
        data = np.array([float(f_apply(L, [Fraction(t) for t in p])[0]) for p in all_idx(sshape)]).reshape(sshape)
        return L, exp, data

    @staticmethod
    def _generic_ref(data, M, tshape, order, mode, cval):
        """independent interpolation at the exactly mapped coordinates"""
        from scipy.ndimage import map_coordinates
        idx = all_idx(tshape)
        coords = np.array([[float(c) for c in f_apply(M, [Fraction(t) for t in v])] for v in idx]).T
        ref = map_coordinates(data, coords, order=order, mode=mode, cval=cval)
        n = data.ndim
        # voxels whose coordinate is within 1e-6 of the field-of-view border are ambiguous in floats
        amb = np.zeros(len(idx), bool)
        for i in range(n):
            amb |= (np.abs(coords[i]) < 1e-6) | (np.abs(coords[i] - (data.shape[i] - 1)) < 1e-6)
        return [None if amb[k] else float(ref[k]) for k in range(len(idx))]

    # ---- nipy.algorithms.resample --------------------------------------
    def _run_resample(self, c):
        from nipy.core.api import AffineTransform, CoordinateMap, CoordinateSystem, Image
        import nipy.algorithms.resample as R
        import nipy.algorithms.interpolation as I
        n, sshape, tshape = c["n"], c["sshape"], c["tshape"]
        src, T, tgt = F(c["src"]), F(c["T"]), F(c["tgt"])
        srcInv = f_inv(src)
        M = f_comp(srcInv, f_comp(T, tgt))
        const = c["mode"] == "constant"
        names = {"ijk": "ijkl", "kji": "lkji", "xyz": "xyzt"}[c["names"]][:n]
        wnames = ["w%d" % i for i in range(n)]
        vcs = CoordinateSystem(list(names), "vox")
        tvcs = CoordinateSystem(["t" + a for a in names], "tvox")
        swcs = CoordinateSystem(wnames, "srcworld")
        twcs = swcs if c["entry"] == "img2img" else CoordinateSystem(["u%d" % i for i in range(n)], "tgtworld")
        if c["task"] == "field":
            L, fexp, data = self._field_parts(c["coef"], src, M, tshape, sshape, c["cval"], const)
        else:
            data = make_data(c["dseed"], sshape)
        img = Image(data.copy(), AffineTransform(vcs, swcs, H(src)))
        tcm = AffineTransform(tvcs, twcs, H(tgt))
        Th = H(T)
        mk = c["mkind"]
        if mk == "matrix":
            mapping = Th.copy()
        elif mk == "pair":
            mapping = (Th[:n, :n].copy(), Th[:n, n].copy())
        elif mk == "affobj":
            mapping = AffineTransform(twcs, swcs, Th.copy())
        elif mk == "cmapobj":
            mapping = CoordinateMap(twcs, swcs, lambda x: np.dot(x, Th[:n, :n].T) + Th[:n, n])
        else:
            mapping = lambda x: np.dot(x, Th[:n, :n].T) + Th[:n, n]
        cap = {}
        o_at, o_mc = R.affine_transform, I.map_coordinates

        def at(inp, matrix, offset=0.0, **kw):
            cap["at"] = (np.array(matrix, float), np.array(offset, float), kw)
            return o_at(inp, matrix, offset=offset, **kw)

        def mc(inp, coords, **kw):
            cap["mc"] = (np.array(coords, float), tuple(inp.shape), kw)
            return o_mc(inp, coords, **kw)

        snap = Snapshot(data=img.get_fdata(), taff=tcm.affine, saff=img.coordmap.affine)
        R.affine_transform, I.map_coordinates = at, mc
        err = None
        try:
            if c["entry"] == "img2img":
                if c.get("mismatch"):
                    tcm2 = AffineTransform(tvcs, CoordinateSystem(wnames + ["extra"], "w2"),
                                           np.vstack([H(tgt)[:n], np.zeros((1, n + 1)), H(tgt)[n:]]))
                    timg = Image(np.zeros(tshape), tcm2)
                else:
                    timg = Image(np.zeros(tshape), tcm)
                out = R.resample_img2img(img, timg, order=c["order"], mode=c["mode"], cval=c["cval"])
            else:
                out = R.resample(img, tcm, mapping, tuple(tshape), order=c["order"], mode=c["mode"], cval=c["cval"])
        except Exception as e:   # noqa
            err = e
        finally:
            R.affine_transform, I.map_coordinates = o_at, o_mc
        mut = snap.changed()
        tags = ["resample", "entry=" + c["entry"], "mapping=" + mk, "task=" + c["task"], "z=" + c["zkind"],
                f"order={c['order']}", "mode=" + c["mode"], f"dim={n}"]
        base_args = f"{aff_txt(srcInv)} {aff_txt(src)}"
        if c["entry"] == "img2img":
            sop, top = n, n + (1 if c.get("mismatch") else 0)
            head = f"img2img {n} {n} {sop} {top} {base_args} {aff_txt(tgt)}"
        else:
            lk = "callable" if mk in ("callable", "cmapobj") else mk
            head = f"resample {n} {n} {lk} {base_args} {aff_txt(T)} {aff_txt(tgt)}"
        if err is not None:
            if c.get("mismatch") and isinstance(err, ValueError):
                return {"lines": [head + " mat"], "impl": [("err", errname(err))], "oracle": None,
                        "nontrivial": True, "tags": tags + ["refused"], "mutated": mut}
            return {"lines": [], "impl": [], "nontrivial": True, "tags": tags + ["raised"],
                    "oracle": f"{c['entry']} raised {type(err).__name__}: {err} on a valid request "
                              f"(mapping given as {mk}, order {c['order']}, mode {c['mode']})"}
        if c.get("mismatch"):
            return {"lines": [], "impl": [], "nontrivial": True, "tags": tags,
                    "oracle": "resample_img2img accepted images whose world dimensions differ"}
        arr = np.asarray(out.get_fdata(), dtype=float)
        lines, impl = [], []
        interp_path = c["entry"] != "img2img" and mk in ("callable", "cmapobj")
        # 1. what was handed to the numerical routine
        if interp_path:
            if "mc" in cap:
                coords, kshape, kw = cap["mc"]
                lines.append(f"resamplecoords {n} {n} {base_args} {aff_txt(T)} {aff_txt(tgt)} {c['order']} "
                             f"{c['mode']} {' '.join(map(str, tshape))}")
                impl.append(("coords", coords.T.ravel().tolist()))
            lines.append(head + " mat"); impl.append(("path", "interpolator"))
        else:
            if "at" in cap:
                A, b, kw = cap["at"]
                if A.ndim == 1:
                    A = np.diag(A)
                lines.append(head + " mat")
                impl.append(("pathmat" if c["entry"] != "img2img" else "mat", "affine_transform",
                             np.hstack([A, b.reshape(-1, 1)]).ravel().tolist()))
            else:
                lines.append(head + " mat"); impl.append(("path", "none"))
        # 2. the values
        fail = None
        if out.coordmap != tcm:
            fail = f"{c['entry']}: result coordmap differs from the target coordmap"
        elif list(arr.shape) != list(tshape):
            fail = f"{c['entry']}: result shape {arr.shape} is not the requested shape {tuple(tshape)}"
        tol = 1e-7 * scale_of(data)
        pre = "" if c["entry"] == "img2img" else ("affine_transform " if not interp_path else "interpolator ")
        if c["task"] == "lookup":
            exp = self._expect_lookup(M, tshape, data, c["cval"], const)
            if c["mode"] == "wrap":
                exp_or = [None] * len(exp)   # scipy's 'wrap' is not consistent between pre-filter and lookup
            else:
                exp_or = exp
            fail = fail or self._check_expected(
                f"{c['entry']}(mapping as {mk}, order {c['order']}, mode {c['mode']}, {c['zkind']} map)", arr, exp_or,
                tol, "the source sample at the mapped grid point (fill value outside)")
            lines.append(head + " " + self._lookup_line_tail(tshape, data, c["cval"], const))
            impl.append(("vals", pre, arr.ravel().tolist(), tol, const and c["mode"] != "wrap",
                         c["mode"] != "wrap"))
        elif c["task"] == "field":
            fail = fail or self._check_expected(
                f"{c['entry']}(mapping as {mk}, order 1, mode {c['mode']}) of a linear intensity field", arr, fexp,
                tol, "the field at the mapped world position")
            lines.append(head + f" field {' '.join(map(str, tshape))} {' '.join(map(str, sshape))} "
                         f"{aff_txt(L)} {fr(c['cval'])} {1 if const else 0}")
            impl.append(("vals", pre, arr.ravel().tolist(), tol, True, True))
        else:
            if not (c["order"] > 1 and not const):
                ref = self._generic_ref(data, M, tshape, c["order"], c["mode"], c["cval"])
                fail = fail or self._check_expected(
                    f"{c['entry']}(mapping as {mk}, order {c['order']}, mode {c['mode']})", arr, ref,
                    1e-6 * scale_of(data), "the source interpolated at the mapped location")
        return {"lines": lines, "impl": impl, "oracle": fail,
                "nontrivial": c["zkind"] != "identity" or c["order"] > 0, "tags": tags, "mutated": mut}

    # ---- ImageInterpolator ---------------------------------------------
    def _run_interp(self, c):
        from nipy.core.api import AffineTransform, CoordinateSystem, Image
        import nipy.algorithms.interpolation as I
        n, sshape = c["n"], c["sshape"]
        src = F(c["src"])
        srcInv = f_inv(src)
        data = make_data(c["dseed"], sshape)
        img = Image(data.copy(), AffineTransform(CoordinateSystem(list("ijk"[:n]), "v"),
                                                 CoordinateSystem(list("xyz"[:n]), "w"), H(src)))
        cap = {}
        o_mc = I.map_coordinates

        def mc(inp, coords, **kw):
            cap["mc"] = (np.array(coords, float), tuple(inp.shape))
            return o_mc(inp, coords, **kw)

        pts = np.array(c["pts"], float).T        # (n, N)
        I.map_coordinates = mc
        try:
            interp = I.ImageInterpolator(img, order=c["order"], mode=c["mode"], cval=c["cval"])
            vals = np.asarray(interp.evaluate(pts.copy()), float)
        except Exception as e:   # noqa
            return {"lines": [], "impl": [], "nontrivial": True, "tags": ["interp", "raised"],
                    "oracle": f"ImageInterpolator(order={c['order']}, mode={c['mode']}).evaluate raised "
                              f"{type(e).__name__}: {e}"}
        finally:
            I.map_coordinates = o_mc
        coords, kshape = cap["mc"]
        line = (f"interp {n} {aff_txt(srcInv)} {aff_txt(src)} {c['order']} {c['mode']} "
                f"{' '.join(map(str, sshape))} {frs(data.ravel().tolist())} {fr(c['cval'])} "
                f"{len(c['pts'])} {' '.join(frs(p) for p in c['pts'])}")
        tol = 1e-7 * scale_of(data)
        # oracle: world points that are voxel centres return the sample (fill value outside, constant mode)
        fail = None
        exp = []
        for p in c["pts"]:
            x = f_apply(srcInv, [Fraction(t) for t in p])
            if all(t.denominator == 1 for t in x):
                q = tuple(int(t) for t in x)
                if inside(q, sshape):
                    exp.append(float(data[q]))
                else:
                    exp.append(float(c["cval"]) if c["mode"] == "constant" else None)
            else:
                exp.append(None)
        if c["mode"] != "wrap":
            fail = self._check_expected(f"ImageInterpolator(order={c['order']}, mode={c['mode']}).evaluate",
                                        vals, exp, tol, "the source sample at that world position")
        tags = ["interp", f"order={c['order']}", "mode=" + c["mode"], f"prepad={kshape[0] - sshape[0]}"]
        return {"lines": [line], "impl": [("interp", list(kshape), coords.T.ravel().tolist(), vals.ravel().tolist(),
                                           tol, c["mode"] != "wrap")],
                "oracle": fail, "nontrivial": True, "tags": tags, "mutated": None}

    # ---- nipy.algorithms.registration.resample -------------------------
    def _run_reg(self, c):
        import ctypes
        from harness import cshim
        from nipy.core.image.image_spaces import make_xyz_image, xyz_affine
        import importlib
        RR = importlib.import_module("nipy.algorithms.registration.resample")
        from nipy.algorithms.registration.affine import Affine
        sshape, tshape = c["sshape"], c["tshape"]
        mov, T, ref = F(c["mov"]), F(c["T"]), F(c["ref"])
        movInv = f_inv(mov)
        const = c["mode"] == "constant"
        tk = c["tkind"]
        Th = H(T)
        if tk == "none":
            transform = None
        elif tk == "matrix":
            transform = Th.copy()
        elif tk == "affobj":
            transform = Affine(Th.copy())
            Th = np.array(transform.as_affine(), float)     # what the object really holds
            T = F(Th[:3].tolist())
        else:
            transform = _GenericTransform(lambda pts: np.dot(pts, Th[:3, :3].T) + Th[:3, 3])
        t1 = T if c["refvox"] else f_comp(T, ref)
        M = t1 if c["movvox"] else f_comp(movInv, t1)
        if c["task"] == "field":
            # the field is linear in moving-image world coordinates
            L, fexp, data = self._field_parts(c.get("coef", [1.0, -2.0, 0.5, 3.0]), mov, M, tshape, sshape,
                                              c["cval"], const)
        else:
            data = make_data(c["dseed"], sshape)
        moving = make_xyz_image(data.copy(), H(mov), "scanner")
        reference = (tuple(tshape), H(ref)) if c["ref_as_tuple"] else make_xyz_image(np.zeros(tshape), H(ref), "scanner")
        lib = cshim.load("registration")
        lib.cubic_spline_resample3d.restype = None
        lib.cubic_spline_resample3d.argtypes = [ctypes.py_object, ctypes.py_object, ctypes.c_void_p,
                                                ctypes.c_int, ctypes.c_int, ctypes.c_int]
        lib.cubic_spline_transform.restype = None
        lib.cubic_spline_transform.argtypes = [ctypes.py_object, ctypes.py_object]
        lib.cubic_spline_sample3d.restype = ctypes.c_double
        lib.cubic_spline_sample3d.argtypes = [ctypes.c_double] * 3 + [ctypes.py_object] + [ctypes.c_int] * 3
        cap = {}
        saved = (RR.affine_transform, RR.map_coordinates, RR._cspline_resample3d, RR._cspline_sample3d,
                 RR._cspline_transform)

        def at(inp, matrix, offset=0.0, **kw):
            cap["routine"] = "affine_transform"
            cap["mat"] = np.hstack([np.array(matrix, float), np.array(offset, float).reshape(3, 1)])
            return saved[0](inp, matrix, offset=offset, **kw)

        def mc(inp, coords, **kw):
            cap["routine"] = "map_coordinates"
            cap["coords"] = np.array(coords, float)
            return saved[1](inp, coords, **kw)

        def cs_res(out, im, dims, Tvox, mx="zero", my="zero", mz="zero"):
            cap["routine"] = "cspline_resample3d"
            Tv = np.ascontiguousarray(np.asarray(Tvox, dtype="double"))
            cap["mat"] = Tv[:3].copy()
            im = np.ascontiguousarray(im, dtype="double")
            lib.cubic_spline_resample3d(out, im, Tv.ctypes.data, 0, 0, 0)
            return out

        def cs_tr(x):
            x = np.ascontiguousarray(x, dtype="double")
            cc = np.zeros(x.shape, dtype=np.double)
            lib.cubic_spline_transform(cc, x)
            return cc

        def cs_s3(Rr, Cc, X=0, Y=0, Z=0, mx="zero", my="zero", mz="zero"):
            cap["routine"] = "cspline_sample3d"
            X = np.reshape(X, Rr.shape).astype(float); Y = np.reshape(Y, Rr.shape).astype(float)
            Z = np.reshape(Z, Rr.shape).astype(float)
            cap["coords"] = np.array([X.ravel(), Y.ravel(), Z.ravel()])
            flat = Rr.reshape(-1)
            for k, (x, y, z) in enumerate(zip(X.ravel(), Y.ravel(), Z.ravel())):
                flat[k] = lib.cubic_spline_sample3d(float(x), float(y), float(z), Cc, 0, 0, 0)
            return Rr

        snap = Snapshot(data=moving.get_fdata())
        RR.affine_transform, RR.map_coordinates, RR._cspline_resample3d, RR._cspline_sample3d, \
            RR._cspline_transform = at, mc, cs_res, cs_s3, cs_tr
        kw = {}
        if c["dtype"] is not None:
            kw["dtype"] = np.dtype(c["dtype"])
        tags = ["reg", "transform=" + tk, "task=" + c["task"], "z=" + c["zkind"], f"order={c['order']}",
                "mode=" + c["mode"], f"movvox={int(c['movvox'])}", f"refvox={int(c['refvox'])}",
                "dtype=" + str(c["dtype"])]
        try:
            out = RR.resample(moving, transform, reference, mov_voxel_coords=c["movvox"],
                              ref_voxel_coords=c["refvox"], interp_order=c["order"], mode=c["mode"],
                              cval=c["cval"], **kw)
        except Exception as e:   # noqa
            return {"lines": [], "impl": [], "nontrivial": True, "tags": tags + ["raised"],
                    "oracle": f"registration.resample raised {type(e).__name__}: {e} (transform given as {tk}, "
                              f"order {c['order']}, mode {c['mode']}, dtype {c['dtype']})"}
        finally:
            RR.affine_transform, RR.map_coordinates, RR._cspline_resample3d, RR._cspline_sample3d, \
                RR._cspline_transform = saved
        mut = snap.changed()
        arr = np.asarray(out.get_fdata(), dtype=float)
        is_aff = tk != "generic"
        head = (f"reg {aff_txt(movInv)} {aff_txt(mov)} {aff_txt(T)} {aff_txt(ref)} {int(c['movvox'])} "
                f"{int(c['refvox'])} {int(is_aff)} {c['order']} {c['mode']} {fr(c['cval'])}")
        lines, impl = [head + " mat"], []
        if "mat" in cap:
            impl.append(("pathmat", cap.get("routine"), cap["mat"].ravel().tolist()))
        else:
            # generic branch: recover the voxel map from the coordinates of the first voxels is not
            # needed: compare the routine, and the coordinates through the lookup below
            impl.append(("path", cap.get("routine")))
        fail = None
        if not np.array_equal(xyz_affine(out), H(ref)):
            fail = "registration.resample: result affine is not the reference affine"
        elif list(arr.shape) != list(tshape):
            fail = f"registration.resample: result shape {arr.shape} is not the reference shape {tuple(tshape)}"
        if fail is None and "coords" in cap:
            idx = all_idx(tshape)
            want = np.array([[float(t) for t in f_apply(M, [Fraction(x) for x in v])] for v in idx]).T
            if cap["coords"].shape != want.shape or not np.allclose(cap["coords"], want, rtol=1e-9, atol=1e-9):
                fail = ("registration.resample (generic transform): coordinates handed to the interpolator are "
                        "not inv(mov_aff) . T . ref_aff applied to the reference voxels")
        intd = c["dtype"] in ("int16", "uint8")
        tol = (0.5 + 1e-6) if intd else (2e-6 if c["dtype"] == "float32" else 1e-7) * scale_of(data)

        def cast_exp(exp):
            if not intd:
                return exp
            info = np.iinfo(c["dtype"])
            return [None if e is None else float(min(max(e, info.min), info.max)) for e in exp]

        where = (f"registration.resample(transform as {tk}, order {c['order']}, mode {c['mode']}, cval {c['cval']}, "
                 f"mov_voxel_coords={c['movvox']}, ref_voxel_coords={c['refvox']}, dtype {c['dtype']}, "
                 f"{c['zkind']} map, routine {cap.get('routine')})")
        routine = regroutine(is_aff, c["order"], c["mode"], c["cval"])
        inexact = tk in ("generic", "affobj")
        border = self._border_mask(M, tshape, sshape) if inexact else [False] * int(np.prod(tshape))
        skip = [k for k, b_ in enumerate(border) if b_]

        def drop(exp):
            return [None if border[k] else e for k, e in enumerate(exp)]

        if c["task"] == "lookup":
            exp = drop(self._expect_lookup(M, tshape, data, c["cval"], const))
            fail = fail or self._check_expected(where, arr, cast_exp(exp), tol,
                                                "the source sample at the mapped grid point (fill value outside)")
            lines.append(head + " " + self._lookup_line_tail(tshape, data, c["cval"], const))
            impl.append(("vals", routine + " ", arr.ravel().tolist(), tol, const, True, c["dtype"], skip))
        elif c["task"] == "field":
            fail = fail or self._check_expected(where + " of a linear intensity field", arr, cast_exp(drop(fexp)), tol,
                                                "the field at the mapped world position")
            lines.append(head + f" field {' '.join(map(str, tshape))} {' '.join(map(str, sshape))} "
                         f"{aff_txt(L)} {fr(c['cval'])} {1 if const else 0}")
            impl.append(("vals", routine + " ", arr.ravel().tolist(), tol, True, True, c["dtype"], skip))
        else:
            if not (c["order"] > 1 and not const) and not cap.get("routine", "").startswith("cspline"):
                ref_ = self._generic_ref(data, M, tshape, c["order"], c["mode"], c["cval"])
                fail = fail or self._check_expected(where, arr, cast_exp(ref_), max(tol, 1e-6 * scale_of(data)),
                                                    "the source interpolated at the mapped location")
        return {"lines": lines, "impl": impl, "oracle": fail,
                "nontrivial": True, "tags": tags + ["routine=" + str(cap.get("routine"))], "mutated": mut}

    # ---- VolumeImg -------------------------------------------------------
    def _run_vol(self, c):
        import scipy.ndimage as ndi
        from nipy.labs.datasets.volumes.volume_img import VolumeImg
        sshape, tshape = c["sshape"], c["tshape"]
        src, tgt = F(c["src"]), F(c["tgt"])
        srcInv = f_inv(src)
        M = f_comp(srcInv, tgt)
        extra = c["extra"] if c["via"] != "values_in_world" or True else []
        data = make_data(c["dseed"], list(sshape) + list(extra))
        order = 0 if c["interp"] == "nearest" else 3
        img = VolumeImg(data.copy(), H(src), "w", interpolation=c["interp"])
        cap = {}
        o_at = ndi.affine_transform

        def at(inp, matrix, offset=0.0, **kw):
            A = np.array(matrix, float)
            cap["diag"] = A.ndim == 1
            if A.ndim == 1:
                A = np.diag(A)
            cap["mat"] = np.hstack([A, np.array(offset, float).reshape(3, 1)])
            return o_at(inp, matrix, offset=offset, **kw)

        snap = Snapshot(data=img.get_fdata(), aff=img.affine)
        ndi.affine_transform = at
        tags = ["vol", "via=" + c["via"], "task=" + c["task"], "z=" + c["zkind"], "interp=" + c["interp"],
                f"extra={len(extra)}"]
        try:
            if c["via"] == "as_volume_img":
                out = img.as_volume_img(affine=H(tgt), shape=tuple(tshape))
                arr, oaff = out.get_fdata(), out.affine
            elif c["via"] == "resampled_to_img":
                timg = VolumeImg(np.zeros(tshape), H(tgt), "w")
                out = img.resampled_to_img(timg)
                arr, oaff = out.get_fdata(), out.affine
            else:
                idx = np.array(all_idx(tshape), float).T
                w = H(tgt)[:3, :3] @ idx + H(tgt)[:3, 3:4]
                arr = img.values_in_world(w[0].reshape(tshape), w[1].reshape(tshape), w[2].reshape(tshape))
                oaff = None
        except Exception as e:   # noqa
            return {"lines": [], "impl": [], "nontrivial": True, "tags": tags + ["raised"],
                    "oracle": f"VolumeImg.{c['via']} raised {type(e).__name__}: {e}"}
        finally:
            ndi.affine_transform = o_at
        mut = snap.changed()
        arr = np.asarray(arr, float)
        lines, impl = [], []
        fail = None
        if oaff is not None and not np.array_equal(oaff, H(tgt)):
            fail = f"VolumeImg.{c['via']}: result affine is not the target affine"
        elif list(arr.shape) != list(tshape) + list(extra):
            fail = f"VolumeImg.{c['via']}: result shape {arr.shape}, expected {tuple(tshape) + tuple(extra)}"
        t = f_ident(3) if tgt == src else M
        lin = [row[:3] + [Fraction(0)] for row in t]
        linInv = f_inv(lin)
        head = None
        if linInv is not None:
            head = (f"volimg {aff_txt(srcInv)} {aff_txt(src)} {aff_txt(tgt)} "
                    f"{' '.join(frs(r[:3]) for r in linInv)}")
        if "mat" in cap and head is not None:
            lines.append(head + " mat")
            impl.append(("pathmat", "diag" if cap["diag"] else "full", cap["mat"].ravel().tolist()))
        tol = 1e-7 * scale_of(data)
        flat = arr.reshape(int(np.prod(tshape)), -1)
        dflat = data.reshape(list(sshape) + [-1])
        where = f"VolumeImg.{c['via']}(interpolation {c['interp']}, {c['zkind']} map, data ndim {data.ndim})"
        if fail is None:
            for e in range(flat.shape[1]):
                if c["task"] == "lookup":
                    exp = self._expect_lookup(M, tshape, dflat[..., e], 0.0, True)
                    what = "the source sample at the mapped grid point (0 outside)"
                    t_ = tol
                else:
                    exp = self._generic_ref(dflat[..., e], M, tshape, order, "constant", 0.0)
                    what = "the source interpolated at the mapped location"
                    t_ = 1e-6 * scale_of(data)
                fail = self._check_expected(where + (f", volume {e}" if flat.shape[1] > 1 else ""),
                                            flat[:, e], exp, t_, what)
                if fail:
                    break
        if c["task"] == "lookup" and head is not None and c["via"] != "values_in_world" and fail is None:
            lines.append(head + " " + self._lookup_line_tail(tshape, dflat[..., 0], 0.0))
            impl.append(("vals", "diag " if cap.get("diag") else "full ", flat[:, 0].tolist(), tol, True, True))
        return {"lines": lines, "impl": impl, "oracle": fail, "nontrivial": True, "tags": tags, "mutated": mut}

    def _run_xyz(self, c):
        from nipy.labs.datasets.transforms.transform import CompositionError
        from nipy.labs.datasets.volumes.volume_img import VolumeImg
        sshape = c["sshape"]
        aff = F(c["aff"])
        if c["rot"]:
            aff[0][1] += Fraction(1, 2)
            aff[1][0] += Fraction(1, 4)
        data = make_data(c["dseed"], sshape)
        img = VolumeImg(data.copy(), H(aff), "w")
        snap = Snapshot(data=img.get_fdata(), aff=img.affine)
        line = f"xyz {aff_txt(aff)} {' '.join(map(str, sshape))} {frs(data.ravel().tolist())}"
        cols_ok = all(sum(1 for i in range(3) if abs(aff[i][j]) > Fraction(1, 1000)) == 1 for j in range(3))
        tags = ["xyz", "rot" if not cols_ok else "axis-aligned"]
        try:
            out = img.xyz_ordered()
        except CompositionError:
            return {"lines": [line], "impl": [("err", "error:CompositionError")],
                    "oracle": None if not cols_ok else "xyz_ordered refused an axis-aligned affine",
                    "nontrivial": True, "tags": tags + ["refused"], "mutated": snap.changed()}
        except Exception as e:   # noqa
            return {"lines": [], "impl": [], "nontrivial": True, "tags": tags + ["raised"],
                    "oracle": f"VolumeImg.xyz_ordered raised {type(e).__name__}: {e}"}
        mut = snap.changed()
        oaff = np.array(out.affine, float)
        odata = np.asarray(out.get_fdata(), float)
        fail = None
        if not cols_ok:
            fail = None      # the guard counts entries above 1e-3 per column; rotated inputs reaching here are its business
        else:
            A = oaff[:3, :3]
            if not (np.array_equal(A, np.diag(np.diag(A))) and np.all(np.diag(A) > 0)):
                fail = "xyz_ordered: resulting affine is not diagonal positive"
            else:
                inv = f_inv(aff)
                oa = F(oaff[:3].tolist())
                for v in all_idx(odata.shape):
                    w = f_apply(oa, [Fraction(t) for t in v])
                    p = f_apply(inv, w)
                    ok = all(t.denominator == 1 for t in p) and inside(tuple(int(t) for t in p), sshape)
                    if not ok or data[tuple(int(t) for t in p)] != odata[v]:
                        fail = (f"xyz_ordered: voxel {v} of the reordered image lies at world position "
                                f"{[float(t) for t in w]} and holds {odata[v]!r}; the original image has "
                                + (f"{data[tuple(int(t) for t in p)]!r}" if ok else "no sample") + " there")
                        break
                if fail is None and odata.size != data.size:
                    fail = "xyz_ordered changed the number of samples"
        impl = ("xyz", oaff[:3].ravel().tolist(), list(odata.shape), odata.ravel().tolist())
        return {"lines": [line], "impl": [impl], "oracle": fail, "nontrivial": True, "tags": tags, "mutated": mut}

    # ---- 4-D realignment resampling ---------------------------------------
    def _run_realign(self, c):
        from nipy.algorithms.registration import groupwise_registration as G
        from nipy.algorithms.registration.affine import Rigid
        sshape, nt = c["sshape"], c["nt"]
        aff = F(c["aff"])
        affInv = f_inv(aff)
        data = make_data(c["dseed"], list(sshape) + [nt])
        transforms = []
        Ts = []
        for s in c["shifts"]:
            r = Rigid()
            # world translation by whole voxels along each axis
            tw = [float(aff[i][i] * s[i]) for i in range(3)]
            r.param = np.concatenate([np.array(tw) / r.precond[:3], np.zeros(3)]) if any(s) else r.param
            transforms.append(r)
            Ts.append(F(np.array(r.as_affine(), float)[:3].tolist()))
        tags = ["realign", f"nt={nt}", "shifted" if any(any(s) for s in c["shifts"]) else "identity"]
        try:
            im4d = G.Image4d(data.copy(), H(aff), tr=1.0, slice_times=0.0, slice_info=(2, 1))
            res = G.resample4d(im4d, transforms, time_interp=False)
            im4d = G.Image4d(data.copy(), H(aff), tr=1.0, slice_times=0.0, slice_info=(2, 1))
            alg = G.Realign4dAlgorithm(im4d, transforms=transforms, time_interp=False, subsampling=(1, 1, 1),
                                       borders=(0, 0, 0))
            for t in range(nt):
                alg.resample(t)
            work = np.array(alg.data)
            xyz = np.array(alg.xyz)
        except Exception as e:   # noqa
            return {"lines": [], "impl": [], "nontrivial": True, "tags": tags + ["raised"],
                    "oracle": f"resample4d / Realign4dAlgorithm.resample raised {type(e).__name__}: {e}"}
        res = np.asarray(res, float)
        tol = 1e-7 * scale_of(data)
        fail = None
        lines, impl = [], []
        for t in range(nt):
            M = f_comp(affInv, f_comp(Ts[t], aff))
            exp = self._expect_lookup(M, sshape, data[..., t], 0.0, True)
            fail = fail or self._check_expected(
                f"resample4d(time_interp=False), scan {t}, whole-voxel shift {c['shifts'][t]}", res[..., t], exp,
                tol, "the input sample at the shifted grid point (0 outside)")
            if all(x is not None for x in exp):
                lines.append(f"realign {aff_txt(affInv)} {aff_txt(aff)} {aff_txt(Ts[t])} "
                             + self._lookup_line_tail(sshape, data[..., t], 0.0))
                impl.append(("vals", "", res[..., t].ravel().tolist(), tol, True, True))
            # working-grid resampling uses 'reflect': only points mapped inside are compared
            for k, v in enumerate(xyz):
                x = f_apply(M, [Fraction(int(a)) for a in v])
                if all(a.denominator == 1 for a in x) and inside(tuple(int(a) for a in x), sshape):
                    e = data[tuple(int(a) for a in x) + (t,)]
                    if fail is None and abs(work[k, t] - e) > tol:
                        fail = (f"Realign4dAlgorithm.resample({t}): grid point {tuple(int(a) for a in v)} holds "
                                f"{work[k, t]!r}, the input sample at the mapped point is {e!r}")
        return {"lines": lines, "impl": impl, "oracle": fail, "nontrivial": True, "tags": tags, "mutated": None}

    # ------------------------------------------------------------------
    def compare(self, case, impl_obs, model_out):
        kind = impl_obs[0]
        if kind == "err":
            return None if model_out == impl_obs[1] else f"impl={impl_obs[1]} model={model_out}"
        if model_out.startswith(("error", "bad-op")):
            return f"model says {model_out}"
        if kind == "path":
            got = model_out.split(" ", 1)[0]
            return None if got == impl_obs[1] else f"routine impl={impl_obs[1]} model={got}"
        if kind in ("pathmat", "mat"):
            if kind == "pathmat":
                got, _, rest = model_out.partition(" ")
                if got != impl_obs[1]:
                    return f"routine impl={impl_obs[1]} model={got}"
            else:
                rest = model_out
            mv = [float(x) for x in parse_rats(rest)]
            iv = impl_obs[2]
            if len(mv) != len(iv):
                return f"matrix size impl={len(iv)} model={len(mv)}"
            sc = max(1.0, max(abs(x) for x in mv))
            for k, (a, b) in enumerate(zip(iv, mv)):
                if abs(a - b) > 1e-9 * sc:
                    return f"matrix/offset entry {k}: impl={a!r} model={b!r}"
            return None
        if kind == "coords":
            mv = [float(x) for x in parse_rats(model_out)]
            iv = impl_obs[1]
            if len(mv) != len(iv):
                return f"coordinate count impl={len(iv)} model={len(mv)}"
            for k, (a, b) in enumerate(zip(iv, mv)):
                if abs(a - b) > 1e-9 * max(1.0, abs(b)):
                    return f"coordinate {k}: impl={a!r} model={b!r}"
            return None
        if kind == "vals":
            pre, vals, tol, use_out, use_in = impl_obs[1], impl_obs[2], impl_obs[3], impl_obs[4], impl_obs[5]
            dtype = impl_obs[6] if len(impl_obs) > 6 else None
            skip = set(impl_obs[7]) if len(impl_obs) > 7 else ()
            if pre:
                if not model_out.startswith(pre):
                    return f"routine impl={pre.strip()} model={model_out.split(' ', 1)[0]}"
                model_out = model_out[len(pre):]
            toks = model_out.split()
            if len(toks) != len(vals):
                return f"sample count impl={len(vals)} model={len(toks)}"
            if not use_in:
                return None
            for k, (a, t) in enumerate(zip(vals, toks)):
                if t == "x" or k in skip:
                    continue
                b = float(Fraction(t))
                if dtype in ("int16", "uint8"):
                    info = np.iinfo(dtype)
                    b = min(max(b, info.min), info.max)
                if abs(a - b) > tol:
                    return f"target voxel #{k}: impl={a!r} model={b!r}"
            return None
        if kind == "interp":
            kshape, coords, vals, tol, use = impl_obs[1:6]
            parts = model_out.split(" | ")
            if len(parts) != 3:
                return f"unparsable model output {model_out[:80]!r}"
            if parts[0].split() != [str(s) for s in kshape]:
                return f"knot array shape impl={kshape} model={parts[0]}"
            mc = [float(x) for x in parse_rats(parts[1])]
            if len(mc) != len(coords) or any(abs(a - b) > 1e-9 * max(1.0, abs(b)) for a, b in zip(coords, mc)):
                return f"coordinates impl={coords[:6]} model={mc[:6]}"
            toks = parts[2].split()
            if len(toks) != len(vals):
                return f"value count impl={len(vals)} model={len(toks)}"
            if use:
                for k, (a, t) in enumerate(zip(vals, toks)):
                    if t != "x" and abs(a - float(Fraction(t))) > tol:
                        return f"point #{k}: impl={a!r} model={float(Fraction(t))!r}"
            return None
        if kind == "xyz":
            parts = model_out.split(" | ")
            if len(parts) != 3:
                return f"unparsable model output {model_out[:80]!r}"
            ma = [float(x) for x in parse_rats(parts[0])]
            if ma != [float(x) for x in impl_obs[1]]:
                return f"affine impl={impl_obs[1]} model={ma}"
            if parts[1].split() != [str(s) for s in impl_obs[2]]:
                return f"shape impl={impl_obs[2]} model={parts[1]}"
            md = [float(x) for x in parse_rats(parts[2])]
            if md != [float(x) for x in impl_obs[3]]:
                return "data differ"
            return None
        return "unknown observation kind"

    def shrink(self, case):
        for key in ("sshape", "tshape"):
            if key in case:
                for i, s in enumerate(case[key]):
                    if s > 1 and not (case["kind"] == "realign"):
                        c = dict(case); c[key] = list(case[key]); c[key][i] = s - 1
                        yield c
        if case.get("order", 0) > 0 and case.get("task") != "field":
            c = dict(case); c["order"] = 0
            yield c
        if case.get("extra"):
            c = dict(case); c["extra"] = []
            yield c
        if case.get("dtype"):
            c = dict(case); c["dtype"] = None
            yield c

    def classify(self, case, failure):
        return None


def regroutine(is_aff, order, mode, cval):
    fast = (order, mode, cval) == (3, "constant", 0)
    if is_aff:
        return "cspline_resample3d" if fast else "affine_transform"
    return "cspline_sample3d" if fast else "map_coordinates"


CHECK = C04()
