"""C04 — resampling samples the source at the mapped world location.

Entry points exercised on the real code (from /repo through the overlay importer):
  nipy.algorithms.resample.resample / resample_img2img
  nipy.algorithms.interpolation.ImageInterpolator.evaluate
  nipy.algorithms.registration.resample.resample / cast_array (cubic_spline.c rebuilt from /repo by cshim)
  nipy.labs.datasets.volumes.volume_img.VolumeImg.as_volume_img / resampled_to_img /
      values_in_world / xyz_ordered,  volume_grid.VolumeGrid.values_in_world / as_volume_img
  nipy.algorithms.registration.groupwise_registration.resample4d / Realign4dAlgorithm.resample
  cubic_spline.c: cubic_spline_transform / cubic_spline_sample3d (all boundary-mode triples)
  wave 3 (harness/props/c04_w3.py): images as_xyz_image re-orders, Image4d / Realign4dAlgorithm histories with
      time interpolation (cubic_spline_sample4d, scanner_time), ImageInterpolator histories, resample between
      spaces of different dimension, xyz_ordered on 4-D data with its interpolation carried over

Correspondence: the matrix/offset (or coordinate array) each entry point hands to its numerical
routine, the dtype of what it returns, and the output array are compared with the Lean model
(composition, dtype pipeline with its two rounding rules, lattice lookup under every boundary mode,
linear-field value); SciPy's index extension, the float->integer conversions and the C sampler
are tied to the model on their own line kinds.  Oracle: the property's clauses computed
independently with exact fractions (looked-up source value under the mode's index extension, fill
value, analytic linear field, target coordmap) plus, for arbitrary maps, an independent scipy
interpolation of the float64 copy of the data at the exactly mapped coordinates.
"""
from __future__ import annotations

import warnings
from fractions import Fraction

import numpy as np

from harness.core import PropertyCheck
from harness.util import Snapshot, errname, fr, frs, parse_rats
from harness.props.c04_w3 import W3Mixin, observed_axes, present_raw, raw_image, translate_consts
from harness.props.c04_lib import (CS_MODES, INT_DTYPES, LAYOUTS, LOOSE, MODES, SRC_DTYPES, ArrayProxy, F, H,
                                   all_idx, base_array, cast_oracle, cs_ext_index, cs_glue, cs_glue4, cs_lib, ext_exact,
                                   ext_index, f_apply, f_comp, f_ident, f_inv, inside, is_exact, lay_out,
                                   make_typed, scale_of, tofloat)


def aff_txt(M):
    return " ".join(frs(row) for row in M)


# ----------------------------------------------------------------------
# generators of affines
# ----------------------------------------------------------------------
def rand_perm(rng, n):
    p = list(range(n))
    rng.shuffle(p)
    return p


def rand_dyadic_affine(rng, n, oblique=None, steps=(1, 1, 2, 0.5, 4, 1, 2)):
    """perm . shear . diag with dyadic entries and dyadic offset; float inverse exact"""
    import scipy.linalg as spl
    for _ in range(200):
        p = rand_perm(rng, n)
        d = [Fraction(rng.choice(steps)) * rng.choice([1, 1, -1]) for _ in range(n)]
        sh = [[Fraction(int(i == j)) for j in range(n)] for i in range(n)]
        ob = (rng.random() < 0.4) if oblique is None else oblique
        if ob and n > 1:
            for _ in range(rng.choice([1, 1, 2])):
                i, j = rng.sample(range(n), 2)
                sh[i][j] = Fraction(rng.choice([1, -1, 2])) * Fraction(rng.choice([1, 1, 0.5]))
        A = [[sh[p[i]][j] * d[j] for j in range(n)] for i in range(n)]
        b = [Fraction(rng.randrange(-12, 13)) / 2 for _ in range(n)]
        a = [A[i] + [b[i]] for i in range(n)]
        inv = f_inv(a)
        if inv is None or not is_exact(a) or not is_exact(inv):
            continue
        h = H(a)
        ex = H(inv)
        if np.array_equal(np.linalg.inv(h), ex) and np.array_equal(spl.inv(h), ex) \
                and np.array_equal(np.linalg.inv(h[:n, :n]), ex[:n, :n]):
            return a
    return f_ident(n)


def rand_lattice_map(rng, n, src_shape, kind=None, far=False):
    """integer voxel->voxel map Z (signed permutation x integer step + integer shift) and a
    target shape mostly (not always entirely) inside the source; `far`: shifts of several array
    lengths, so that boundary modes are read well outside the field of view"""
    kind = kind or rng.choice(["identity", "flip", "perm", "shift", "subsample", "mixed", "mixed"])
    p = list(range(n))
    sg = [1] * n
    st = [1] * n
    shift = [0] * n
    if kind in ("perm", "mixed"):
        p = rand_perm(rng, n)
    if kind in ("flip", "mixed"):
        sg = [rng.choice([1, -1]) for _ in range(n)]
        if kind == "flip" and all(s == 1 for s in sg):
            sg[rng.randrange(n)] = -1
    if kind in ("subsample", "mixed"):
        st = [rng.choice([1, 2, 2, 3]) for _ in range(n)]
    if kind in ("shift", "mixed"):
        shift = [rng.choice([-2, -1, 0, 1, 2, 3]) for _ in range(n)]
    if far:
        shift = [rng.choice([-3, -2, -1, 0, 1, 2]) * src_shape[i] + rng.choice([-1, 0, 1]) for i in range(n)]
    # source axis i reads target axis p[i]
    Z = [[Fraction(sg[i] * st[i] * int(j == p[i])) for j in range(n)] for i in range(n)]
    tshape = [0] * n
    for i in range(n):
        full = (src_shape[i] + st[i] - 1) // st[i]
        tshape[p[i]] = max(1, full + rng.choice([0, 0, 0, 1, -1]))
    for i in range(n):
        off = shift[i] + ((src_shape[i] - 1) if sg[i] < 0 else 0)
        Z[i].append(Fraction(off))
    return Z, tshape, kind + ("-far" if far else "")


def rand_float_affine(rng, n):
    """generic (non-dyadic) affine: rotation-ish, anisotropic steps"""
    rs = np.random.RandomState(rng.randrange(2 ** 31))
    q, _ = np.linalg.qr(rs.randn(n, n))
    d = np.diag(rs.choice([0.8, 1.0, 1.25, 2.0, 3.0, 0.9], size=n) * rs.choice([1, 1, -1], size=n))
    A = q @ d
    b = rs.uniform(-3, 3, size=n)
    return [[float(A[i, j]) for j in range(n)] + [float(b[i])] for i in range(n)]


def rand_sub_voxel_map(rng, n, sshape):
    """dyadic voxel map with half / quarter / eighth voxel offsets and steps"""
    Z = rand_dyadic_affine(rng, n, steps=(1, 1, 0.5, 2, 0.5, 0.25))
    den = rng.choice([2, 2, 4, 8])
    for i in range(n):
        Z[i][n] = Fraction(rng.randrange(-den, den * sshape[i])) / den
    return Z


class _GenericTransform:
    """a transform with only `apply`/`compose` (no `as_affine`): generic branch"""

    def __init__(self, func):
        self.func = func

    def apply(self, pts):
        return self.func(np.asarray(pts, dtype=float))

    def compose(self, other):
        return _GenericTransform(lambda pts: self.apply(other.apply(pts)))


def task_ok_for_w2w(c):
    return c["via"] in ("as_volume_img", "resampled_to_img", "values_in_world", "resampled_to_grid")


def regroutine(is_aff, order, mode, cval):
    fast = (order, mode, cval) == (3, "constant", 0)
    if is_aff:
        return "cspline_resample3d" if fast else "affine_transform"
    return "cspline_sample3d" if fast else "map_coordinates"


def pick_mode(rng):
    return rng.choice(["constant", "constant", "constant", "constant"] + MODES)


def pick_sdtype(rng, allow_bool=True):
    d = rng.choice(SRC_DTYPES)
    if d == "bool" and not allow_bool:
        d = "uint8"
    return d


def int_field(rng, n, sshape, dtype):
    """integer coefficients [l_1..l_n | l_0] of a field L(p) (voxel coordinates) whose values on
    the array fit `dtype`"""
    for _ in range(50):
        if dtype.startswith("uint"):
            co = [rng.choice([0, 1, 2, 3]) for _ in range(n)] + [rng.choice([0, 1, 5])]
        else:
            co = [rng.choice([0, 1, -2, 2, 3, -1]) for _ in range(n)] + [rng.choice([0, 4, -3])]
        lo = co[n] + sum(min(0, c * (s - 1)) for c, s in zip(co, sshape))
        hi = co[n] + sum(max(0, c * (s - 1)) for c, s in zip(co, sshape))
        info = np.iinfo(dtype)
        if info.min <= lo and hi <= info.max and any(co[:n]):
            return co
    return [1] + [0] * n


class C04(W3Mixin, PropertyCheck):
    id = "C04"
    title = "Resampling samples the source at the mapped world location"
    lean_modules = ["NipyVerif.Props.C04", "NipyVerif.Props.C04B", "NipyVerif.Props.C04C",
                    "NipyVerif.Props.C04Source"]
    driver = "Drivers/C04.lean"
    rule = ("cases are (entry point, source grid, target grid, world transform and its form, order, boundary mode, "
            "cval, source dtype, memory layout / container, requested dtype) tuples from a seeded PRNG; lattice "
            "cases are built as tgt = T^-1 . src . Z for an integer voxel map Z (identity/flip/permutation/shift/"
            "sub-sampling, also shifted by several array lengths), field cases carry a linear intensity (integer-"
            "valued for integer dtypes) under half/quarter/eighth-voxel maps, generic cases arbitrary float affines; "
            "bidx / cast / cs cases tie SciPy's index extension, the float->integer conversions and the C sampler "
            "to the model; wave 3: registration cases hand the moving / reference image over with world names and "
            "array axes in any order (as_xyz_image re-orders), all four voxel/world flag pairs; every order 0..5 x "
            "every boundary mode x every numerical route once per run; realign4 = one Image4d / one "
            "Realign4dAlgorithm with several operations in sequence (resample4d / Realign4d.resample / resample(t) / "
            "set_transform / caller edits; time interpolation on and off; slice axis 0..2, both directions, "
            "synchronous / ascending / descending / interleaved slice times; lazy data); ihist = one "
            "ImageInterpolator with evaluate / cval edits / in-place edits of the image array / attempts to set "
            "order or mode, on ndarray, Fortran, read-only, proxy and memmapped data; resamplek = image, world and "
            "grid dimensions all different (slices, curves, a volume replicated along an extra axis), identity "
            "coordmaps on either side (mapping from / to voxels); xyz cases carry an interpolation, 4-D+ data and "
            "off-grid probe points; non-trivial = the voxel map is not the identity or the transform is not the "
            "identity or the order is > 0; distinct by full JSON of the case")
    assumptions = [
        "the interpolators (scipy.ndimage spline interpolation with its pre-filter, cubic_spline.c's pre-filter) enter "
        "the theorems only through the hypotheses Interp.at_lattice / FillsOutside / Extends / LinearExact / "
        "ClampsCoordinate and IsSplineCoef3; the oracle checks those clauses numerically on the real code for every "
        "case (tolerance 1e-7 of the data scale; 2e-3 for nearest / grid-constant with a pre-filter outside the "
        "array, which SciPy itself only approximates: scipy issue 13600)",
        "matrix inverses (np.linalg.inv, scipy.linalg.inv, coordmap.inverse) are parameters of the model: the "
        "exact inverse is supplied and verified by the driver; float inverses agree to 1e-9",
        "the homogeneous (n+1)x(n+1) packing (from_matvec / to_matvec) is represented as an (A, b) pair",
        "float32 outputs are compared with tolerance 2e-6 of the data scale (the model treats floating dtypes as exact)",
        "pyx glue (_cspline_resample3d/_cspline_sample3d/_cspline_transform) cannot be rebuilt: in "
        "registration.resample and groupwise_registration it is replaced by ctypes calls into cubic_spline.c rebuilt "
        "from the tree under test",
        "VolumeImg.as_volume_img with a 3x3 affine (bounding-box search) and VolumeGrid with non-affine "
        "transforms are oracle-only",
        "as_xyz_image: the array-axis order it derives from io_orientation is a parameter of the model (observed "
        "on the implementation, any permutation keeps every sample at its world position: as_xyz_same_world); "
        "voxel coordinates of the *_voxel_coords flags are those of the re-ordered image, as the code has it",
        "time interpolation: the 4-D B-spline coefficients are the hypothesis IsSplineCoef4; off the time grid the "
        "oracle compares with an independent scipy cubic spline (whole-sample symmetric ends) of the voxel's series "
        "at the slice-corrected time, tolerance 1e-7 of the data scale; points outside the field of view under the "
        "C `reflect` modes are correspondence-only",
        "ImageInterpolator: the knots are a snapshot of the image data (taken at construction, retaken when a cval "
        "edit has to rebuild a grid-constant pre-pad) - the model states which; the oracle accepts the sample of "
        "any version of the image data the caller has had since construction and demands the current fill value",
        "Realign4dAlgorithm histories: which transform a working-array column reflects is observed by comparing "
        "with fresh objects of the real code (bitwise-equal columns may match several candidates)",
    ]
    level_note = ("pipeline composition (general resampler for any image / world / grid dimensions, registration "
                  "resampler incl. images as_xyz_image re-orders, 4-D realignment with slice-timed time "
                  "coordinates, VolumeImg), dtype pipeline (both rounding rules), lattice lookup under every "
                  "boundary mode, fill value, linear-field, pre-pad, cubic-spline sampler at grid points in 3-D and "
                  "4-D, coordmap clauses and the object histories (ImageInterpolator: read-only order/mode, fill "
                  "value of the pre-pad always current, snapshot; Realign4dAlgorithm: column provenance) proved for "
                  "all inputs of the model; interpolator laws are hypotheses (instances: order 0 and order 1 "
                  "(multilinear) in any dimension under every mode); spline values off the grid, "
                  "interp_slice_times outside the slice stack and the motion estimation are not claimed")
    finding_keys = {}

    # ------------------------------------------------------------------
    def translators(self):
        from harness.core import REPO, TieBroken
        return translate_consts(REPO, TieBroken)

    def generate(self, rng, tier):
        q = tier == "quick"
        cases = []
        counts = dict(resample=700, reg=580, vol=400, xyz=120, interp=280, realign=36, cast=60, cs=80,
                      refuse=40, realign4=40, ihist=150, resamplek=220) if q else \
            dict(resample=12000, reg=10000, vol=7000, xyz=1500, interp=5000, realign=500, cast=800, cs=1200,
                 refuse=300, realign4=600, ihist=3000, resamplek=4000)
        for kind, cnt in counts.items():
            g = getattr(self, "_gen_" + kind)
            for _ in range(cnt):
                cases.append(g(rng))
        cases += self._gen_bidx_all(rng, q)
        cases += self._gen_modes_all(rng, q)
        return cases

    def _gen_modes_all(self, rng, quick):
        """every interpolation order 0..5 under every boundary mode through every numerical route
        (affine_transform / ImageInterpolator with and without pre-pad / registration fast, ndimage and
        generic paths): one lattice map reaching far outside the array each; thorough: also arbitrary maps"""
        out = []
        routes = [("resample", {"entry": "resample", "mkind": "matrix"}),
                  ("resample", {"entry": "resample", "mkind": "callable"}),
                  ("resample", {"entry": "img2img"}),
                  ("reg", {"tkind": "matrix"}), ("reg", {"tkind": "generic"}), ("interp", {})]
        tasks = ["lookup"] if quick else ["lookup", "lookup", "generic", "sub"]
        for gen, want in routes:
            for task in tasks:
                for order in range(6):
                    if task == "sub" and order > 1:
                        continue
                    for mode in MODES:
                        for _ in range(400):
                            c = getattr(self, "_gen_" + gen)(rng)
                            if all(c.get(k) == v for k, v in want.items()) and c.get("task", task) == task \
                                    and not c.get("mismatch"):
                                break
                        c["order"], c["mode"] = order, mode
                        out.append(c)
        return out

    @staticmethod
    def _shape(rng, n, big=False):
        if n == 2:
            return [rng.choice([1, 3, 4, 5, 7, 9]), rng.choice([2, 3, 5, 6, 8])]
        if n == 3:
            return [rng.choice([2, 3, 4, 5, 6]), rng.choice([3, 4, 5, 7]), rng.choice([1, 2, 4, 5, 6])]
        return [rng.choice([2, 3, 4]), rng.choice([2, 3, 4]), rng.choice([2, 3]), rng.choice([1, 2, 3])]

    def _gen_resample(self, rng):
        n = rng.choice([2, 3, 3, 3, 4])
        sshape = self._shape(rng, n)
        task = rng.choice(["lookup", "lookup", "lookup", "field", "field", "generic", "sub", "sub"])
        entry = rng.choice(["resample", "resample", "resample", "img2img"])
        mkind = rng.choice(["matrix", "pair", "affobj", "callable", "cmapobj"])
        sdtype = pick_sdtype(rng, allow_bool=task != "field")
        src = rand_dyadic_affine(rng, n)
        T = f_ident(n) if (entry == "img2img" or rng.random() < 0.2) else rand_dyadic_affine(rng, n)
        if n == 4 and entry != "img2img" and rng.random() < 0.5:
            # a 3-D spatial transform on a 4-D image: the last world axis is left alone
            T3 = rand_dyadic_affine(rng, 3)
            T = [T3[i][:3] + [Fraction(0)] + [T3[i][3]] for i in range(3)] + \
                [[Fraction(0)] * 3 + [Fraction(1), Fraction(0)]]
        if task == "generic":
            srcf = rand_float_affine(rng, n)
            Tf = tofloat(f_ident(n)) if entry == "img2img" else rand_float_affine(rng, n)
            tgtf = rand_float_affine(rng, n)
            tshape = self._shape(rng, n)
            zk = "generic"
        else:
            if task == "lookup":
                Z, tshape, zk = rand_lattice_map(rng, n, sshape, far=rng.random() < 0.25)
            else:
                Z = rand_sub_voxel_map(rng, n, sshape)
                tshape = self._shape(rng, n)
                zk = "subvoxel"
            tgt = f_comp(f_inv(T), f_comp(src, Z))
            if not is_exact(tgt):
                T = f_ident(n)
                tgt = f_comp(src, Z)
            srcf, Tf, tgtf = tofloat(src), tofloat(T), tofloat(tgt)
        order = 1 if task == "field" else rng.choice([0, 1, 1]) if task == "sub" else rng.choice([0, 1, 2, 3, 3, 4, 5])
        c = {"kind": "resample", "entry": entry, "n": n, "sshape": sshape, "tshape": tshape, "src": srcf,
             "T": Tf, "tgt": tgtf, "mkind": mkind, "task": task, "zkind": zk, "order": order, "mode": pick_mode(rng),
             "cval": rng.choice([0.0, 0.0, -7.5, 100.0, 3.0, 2.5, -0.25]), "dseed": rng.randrange(10 ** 6),
             "names": rng.choice(["ijk", "kji", "xyz"]), "sdtype": sdtype, "layout": rng.choice(LAYOUTS)}
        if task == "field":
            if sdtype in INT_DTYPES:
                c["lvox"] = int_field(rng, n, sshape, sdtype)
            else:
                c["coef"] = [rng.choice([0.0, 1.0, -2.0, 0.5, 3.0]) for _ in range(n)] + [rng.choice([0.0, 4.0, -1.5])]
        if entry == "img2img" and rng.random() < 0.08:
            c["mismatch"] = True     # refusal branch: different world dimension
        return c

    def _gen_reg(self, rng):
        sshape = self._shape(rng, 3)
        task = rng.choice(["lookup", "lookup", "lookup", "field", "field", "generic", "sub", "sub"])
        mov = rand_dyadic_affine(rng, 3)
        movvox, refvox = rng.random() < 0.35, rng.random() < 0.35
        tkind = rng.choice(["none", "matrix", "matrix", "affobj", "rigidobj", "generic", "generic"])
        if tkind == "none" and task != "generic":
            refvox = False      # identity transform: the lattice map is realised by the reference affine
        if task == "generic":
            movf, Tf, reff = rand_float_affine(rng, 3), rand_float_affine(rng, 3), rand_float_affine(rng, 3)
            if tkind == "none":
                Tf = tofloat(f_ident(3))
            tshape = self._shape(rng, 3)
            zk = "generic"
        else:
            T = f_ident(3) if tkind == "none" or rng.random() < 0.15 else rand_dyadic_affine(rng, 3)
            if tkind == "rigidobj":
                # a rigid transform that is exact in floats: a pure translation
                T = [[Fraction(int(i == j)) for j in range(3)] + [Fraction(rng.randrange(-8, 9)) / 2] for i in range(3)]
            if task == "lookup":
                Z, tshape, zk = rand_lattice_map(rng, 3, sshape, far=rng.random() < 0.2)
            else:
                Z = rand_sub_voxel_map(rng, 3, sshape)
                tshape = self._shape(rng, 3)
                zk = "subvoxel"
            # Tv = [inv(mov)] . T . [ref] = Z   =>   ref-side factor R = T^-1 . [mov] . Z
            left = f_ident(3) if movvox else mov
            R = f_comp(f_inv(T), f_comp(left, Z))
            if refvox:
                if tkind == "rigidobj":
                    return self._gen_reg(rng)
                # transform maps from reference voxels: fold R into T, reference affine is free
                T = f_comp(T, R)
                ref = rand_dyadic_affine(rng, 3)
            else:
                ref = R
            if not (is_exact(T) and is_exact(ref)):
                return self._gen_reg(rng)
            movf, Tf, reff = tofloat(mov), tofloat(T), tofloat(ref)
        order = 1 if task == "field" else rng.choice([0, 1, 1]) if task == "sub" else rng.choice([0, 1, 2, 3, 3, 3, 4, 5])
        mode = pick_mode(rng)
        cval = rng.choice([0.0, 0.0, 0.0, 2.5, -4.0, -7.5])
        if task not in ("field", "sub") and rng.random() < 0.3:
            order, mode, cval = 3, "constant", 0.0      # the cubic-spline short cut
        sdtype = pick_sdtype(rng, allow_bool=task != "field")
        asked = rng.choice([None, None, None, "float64", "float32", "int16", "uint8", "int32", "int8", "uint16",
                            "int64"])
        if sdtype == "bool" and asked is None:
            asked = "float64"
        if (asked or sdtype).startswith("uint") and cval < 0:
            cval = 2.5        # a fill value below an unsigned output dtype's range has no defined meaning
        c = {"kind": "reg", "sshape": sshape, "tshape": tshape, "mov": movf, "T": Tf, "ref": reff,
             "movvox": movvox, "refvox": refvox, "tkind": tkind, "task": task, "zkind": zk, "order": order,
             "mode": mode, "cval": cval, "dseed": rng.randrange(10 ** 6), "dtype": asked, "sdtype": sdtype,
             "layout": rng.choice(LAYOUTS), "ref_as_tuple": rng.random() < 0.5}
        # the moving / reference image handed over with world axes listed in another order than
        # x, y, z and the array axes in any order: as_xyz_image has to re-order them first
        if rng.random() < 0.4:
            c["mperm"] = {"codes": rand_perm(rng, 3), "q": rand_perm(rng, 3)}
        if not c["ref_as_tuple"] and rng.random() < 0.4:
            c["rperm"] = {"codes": rand_perm(rng, 3), "q": rand_perm(rng, 3)}
        if task == "field":
            if sdtype in INT_DTYPES:
                c["lvox"] = int_field(rng, 3, sshape, sdtype)
            else:
                c["coef"] = [rng.choice([0.0, 1.0, -2.0, 0.5, 3.0]) for _ in range(3)] + [rng.choice([0.0, 4.0, -1.5])]
        return c

    def _gen_vol(self, rng):
        sshape = self._shape(rng, 3)
        task = rng.choice(["lookup", "lookup", "lookup", "generic", "generic"])
        src = rand_dyadic_affine(rng, 3)
        if task == "lookup":
            Z, tshape, zk = rand_lattice_map(rng, 3, sshape)
            if rng.random() < 0.12:
                Z, tshape, zk = f_ident(3), list(sshape), "same-affine"
            elif rng.random() < 0.2:
                # a crop / pad of the grid: the target's 3x3 part equals the source's (whatever axis
                # permutation and flips that is), only the origin and the shape differ
                sh = [rng.choice([-3, -2, -1, 0, 1, 2]) for _ in range(3)]
                Z = [[Fraction(int(i == j)) for j in range(3)] + [Fraction(sh[i])] for i in range(3)]
                tshape = [max(1, sshape[i] - sh[i] + rng.choice([-2, 0, 1, 3])) for i in range(3)]
                zk = "crop-pad"
            tgt = f_comp(src, Z)
            srcf, tgtf = tofloat(src), tofloat(tgt)
        elif rng.random() < 0.5:
            Z = rand_sub_voxel_map(rng, 3, sshape)
            tgt = f_comp(src, Z)
            if not is_exact(tgt):
                return self._gen_vol(rng)
            srcf, tgtf, tshape, zk = tofloat(src), tofloat(tgt), self._shape(rng, 3), "subvoxel"
        else:
            srcf, tgtf, tshape, zk = rand_float_affine(rng, 3), rand_float_affine(rng, 3), self._shape(rng, 3), "generic"
        return {"kind": "vol", "sshape": sshape, "tshape": tshape, "src": srcf, "tgt": tgtf, "task": task,
                "zkind": zk, "interp": rng.choice(["nearest", "continuous"]),
                "via": rng.choice(["as_volume_img", "as_volume_img", "resampled_to_img", "values_in_world",
                                   "grid_values", "grid_as_volume_img", "grid_resampled_to_img", "resampled_to_grid"]),
                # a world-to-world affine applied first with composed_with_transform (no resampling)
                "w2w": tofloat(rand_dyadic_affine(rng, 3, steps=(1, 1, 2, 0.5))) if rng.random() < 0.3 else None,
                "extra": rng.choice([[], [], [2], [2, 2]]), "dseed": rng.randrange(10 ** 6),
                "sdtype": pick_sdtype(rng), "layout": rng.choice(LAYOUTS)}

    def _gen_xyz(self, rng):
        sshape = self._shape(rng, 3)
        p = rand_perm(rng, 3)
        d = [Fraction(rng.choice([1, 2, 0.5, 3, 1.5])) * rng.choice([1, -1]) for _ in range(3)]
        A = [[d[j] * int(i == p[j]) for j in range(3)] for i in range(3)]
        b = [Fraction(rng.randrange(-10, 11)) / 2 for _ in range(3)]
        aff = [A[i] + [b[i]] for i in range(3)]
        return {"kind": "xyz", "sshape": sshape, "aff": tofloat(aff), "dseed": rng.randrange(10 ** 6),
                "rot": rng.random() < 0.08, "sdtype": pick_sdtype(rng), "layout": rng.choice(LAYOUTS),
                "interp": rng.choice(["nearest", "continuous"]), "extra": rng.choice([[], [], [2], [2, 2]]),
                # off-grid probe points (voxel coordinates of the original image)
                # (no half-way positions: nearest-neighbour ties may legitimately fall either side)
                # and none on the border of the field of view, where round-off decides inside / outside)
                "probe": [] if min(sshape) < 2 else
                [[rng.randrange(0, s_ - 1) + rng.choice([0.25, 0.75]) for s_ in sshape] for _ in range(4)]}

    def _gen_interp(self, rng):
        n = rng.choice([2, 3, 3])
        sshape = self._shape(rng, n)
        src = rand_dyadic_affine(rng, n)
        npts = rng.choice([1, 4, 9, 16])
        pts = []
        reach = rng.choice([2, 2, 6, 15])
        for _ in range(npts):
            r = rng.random()
            if r < 0.7:      # world position of a (possibly far outside) voxel centre
                v = [Fraction(rng.randrange(-reach, s + reach)) for s in sshape]
            else:            # half-voxel positions
                v = [Fraction(rng.randrange(-2, 2 * s + 2)) / 2 for s in sshape]
            pts.append([float(x) for x in f_apply(src, v)])
        return {"kind": "interp", "n": n, "sshape": sshape, "src": tofloat(src), "pts": pts,
                "order": rng.choice([0, 1, 2, 3, 3, 4, 5]), "mode": pick_mode(rng),
                "cval": rng.choice([0.0, -3.0, 50.0, -7.5]), "dseed": rng.randrange(10 ** 6),
                "sdtype": pick_sdtype(rng), "layout": rng.choice(LAYOUTS)}

    def _gen_realign(self, rng):
        sshape = [rng.choice([4, 5, 6]), rng.choice([4, 5, 7]), rng.choice([4, 6])]
        d = [Fraction(rng.choice([1, 2, 0.5, 3])) for _ in range(3)]
        aff = [[d[j] * int(i == j) for j in range(3)] + [Fraction(rng.randrange(-6, 7))] for i in range(3)]
        nt = rng.choice([1, 2, 3])
        big = rng.random() < 0.4
        shifts = [[rng.choice([0, 0, 1, -1, 2] + ([-5, 4, 7, -9] if big else [])) for _ in range(3)]
                  if rng.random() < 0.6 else [0, 0, 0] for _ in range(nt)]
        return {"kind": "realign", "sshape": sshape, "aff": tofloat(aff), "nt": nt, "shifts": shifts,
                "dseed": rng.randrange(10 ** 6), "sdtype": pick_sdtype(rng, allow_bool=False),
                "lazy": rng.random() < 0.3, "tinterp": rng.random() < 0.4, "tr": rng.choice([1.0, 2.0, 0.5])}

    def _gen_bidx_all(self, rng, quick):
        out = []
        lens = [1, 2, 3, 4, 5, 7] if quick else list(range(1, 13))
        for mode in MODES:
            for n in lens:
                out.append({"kind": "bidx", "mode": mode, "len": n, "idx": list(range(-3 * n - 2, 4 * n + 3))})
        return out

    def _gen_cast(self, rng):
        dtype = rng.choice(INT_DTYPES + ["float32", "float64"])
        vals = []
        info = np.iinfo(dtype) if dtype in INT_DTYPES else None
        for _ in range(rng.choice([4, 8, 12])):
            r = rng.random()
            if r < 0.35:
                v = Fraction(rng.randrange(-40, 41) * 2 + 1) / 2            # ties
            elif r < 0.6:
                v = Fraction(rng.randrange(-2000, 2000)) / 8
            elif r < 0.8 and info is not None and dtype not in ("int64", "uint64", "uint32", "int32"):
                v = Fraction(rng.choice([info.min, info.max])) + Fraction(rng.randrange(-5, 6)) / 2   # range ends
            else:
                v = Fraction(rng.randrange(-300, 300))
            vals.append(float(v))
        return {"kind": "cast", "dtype": dtype, "vals": vals}

    def _gen_cs(self, rng):
        shape = [rng.choice([1, 2, 3, 4, 5]), rng.choice([1, 2, 3, 4]), rng.choice([1, 2, 3, 5])]
        modes = [rng.choice([0, 1, 2]) for _ in range(3)]
        pts = []
        for _ in range(rng.choice([4, 8, 12])):
            r = rng.random()
            if r < 0.6:
                pts.append([float(rng.randrange(-2 * s - 2, 3 * s + 2)) for s in shape])
            else:
                pts.append([rng.randrange(-8, 8 * s + 8) / 4.0 for s in shape])
        return {"kind": "cs", "shape": shape, "modes": modes, "pts": pts, "dseed": rng.randrange(10 ** 6),
                "sdtype": pick_sdtype(rng, allow_bool=False), "layout": rng.choice(["C", "F", "strided", "neg"])}

    def _gen_refuse(self, rng):
        n = rng.choice([2, 3])
        what = rng.choice(["resample-matrix", "resample-matrix", "resample-pair", "reg-matrix", "reg-ref4d",
                           "img2img-dim"])
        rows, cols = rng.choice([(n + 1, n + 2), (n, n + 1), (n + 2, n + 1), (n, n), (n + 2, n + 2), (n + 1, n + 1)])
        return {"kind": "refuse", "what": what, "n": n, "rows": rows, "cols": cols, "dseed": rng.randrange(10 ** 6)}

    # ------------------------------------------------------------------
    def run_case(self, case):
        warnings.filterwarnings("ignore")
        return getattr(self, "_run_" + case["kind"])(case)

    # ---- shared pieces ---------------------------------------------------
    @staticmethod
    def _typed(c, shape, values=None):
        """(container handed to nipy, float64 copy of the values)"""
        dt = c.get("sdtype", "float64")
        arr = make_typed(c["dseed"], shape, dt) if values is None else np.asarray(values).astype(dt)
        if values is not None and not np.array_equal(np.asarray(arr, float), np.asarray(values, float)):
            raise AssertionError("field values not representable in " + dt)
        obj = lay_out(arr, c.get("layout", "C"))
        return obj, np.asarray(arr, dtype=np.float64)

    @staticmethod
    def _expect_lookup(M, tshape, data, cval, mode="constant", order=0, cs=None):
        """exact lattice lookup under the boundary mode: list of (value | (value, 'loose') | None)
        per target voxel, C order.  cs = (mx, my, mz): cubic_spline.c boundary modes instead."""
        out = []
        sshape = data.shape
        for v in all_idx(tshape):
            x = f_apply(M, [Fraction(t) for t in v])
            if not all(c.denominator == 1 for c in x):
                out.append(None)
                continue
            p = tuple(int(c) for c in x)
            if inside(p, sshape):
                out.append(float(data[p]))
                continue
            if cs is not None:
                q = [cs_ext_index(m, s - 1, t) for m, s, t in zip(cs, sshape, p)]
                out.append(0.0 if any(t is None for t in q) else float(data[tuple(q)]))
                continue
            q = [ext_index(mode, s, t) for s, t in zip(sshape, p)]
            e = float(cval) if any(t is None for t in q) else float(data[tuple(q)])
            if mode == "constant" or ext_exact(mode, order):
                out.append(e)
            else:
                out.append((e, "loose"))
        return out

    @staticmethod
    def _border_mask(M, tshape, sshape, wrap=False, half=False):
        """target voxels mapped onto the border of the field of view (some coordinate exactly 0 or
        shape-1): when the implementation's own arithmetic is inexact (Affine objects re-built from a
        matrix) the computed coordinate may fall either side, so no claim is made there"""
        out = []
        for v in all_idx(tshape):
            x = f_apply(M, [Fraction(t) for t in v])
            out.append(any(abs(x[i]) < Fraction(1, 10 ** 6) or abs(x[i] - (sshape[i] - 1)) < Fraction(1, 10 ** 6)
                           or (wrap and not (0 <= x[i] <= sshape[i] - 1))      # legacy wrap: every period is a seam
                           or (half and abs(x[i] - (x[i].numerator // x[i].denominator) - Fraction(1, 2))
                               < Fraction(1, 10 ** 6))                          # order 0: rounding ties
                           for i in range(len(sshape))))
        return out

    @staticmethod
    def _check_expected(name, got, exp, tol, what, scale=1.0):
        got = np.asarray(got, dtype=float).ravel()
        if got.size != len(exp):
            return f"{name}: output has {got.size} samples, target grid has {len(exp)}"
        for k, e in enumerate(exp):
            if e is None:
                continue
            t = tol
            if isinstance(e, tuple):
                # (integer outputs: the rounded value of an approximation within LOOSE)
                e, t = e[0], (tol + LOOSE * scale if tol >= 0.5 else max(tol, LOOSE * scale))
            if not (abs(got[k] - e) <= t):
                return f"{name}: target voxel #{k} holds {got[k]!r} but {what} is {e!r}"
        return None

    @staticmethod
    def _lookup_tail(sdt, asked, order, mode, tshape, data, cval):
        return (f"lookup {sdt} {asked or 'none'} {order} {mode} {' '.join(map(str, tshape))} "
                f"{' '.join(map(str, data.shape))} {frs(data.ravel().tolist())} {fr(cval)}")

    @staticmethod
    def _sub_tail(sdt, asked, order, mode, tshape, data, cval):
        return (f"{'lin1' if order == 1 else 'near0'} {sdt} {asked or 'none'} {mode} {' '.join(map(str, tshape))} "
                f"{' '.join(map(str, data.shape))} {frs(data.ravel().tolist())} {fr(cval)}")

    @staticmethod
    def _field_tail(sdt, asked, mode, tshape, sshape, L, cval):
        return (f"field {sdt} {asked or 'none'} {mode} {' '.join(map(str, tshape))} "
                f"{' '.join(map(str, sshape))} {aff_txt(L)} {fr(cval)}")

    @staticmethod
    def _field_parts(c, src, M, tshape, sshape, cval, mode):
        """linear intensity: L on source voxels (given directly for integer dtypes, c o src
        otherwise); expected L(M v) in the field of view, the fill value outside for `constant`,
        L at the clamped coordinate for `nearest`"""
        n = len(src)
        if "lvox" in c:
            L = [[Fraction(x) for x in c["lvox"]]]
        else:
            L = f_comp([[Fraction(x) for x in c["coef"]]], src)            # 1 x (n+1)
        exp = []
        for v in all_idx(tshape):
            x = f_apply(M, [Fraction(t) for t in v])
            if all(0 <= x[i] <= sshape[i] - 1 for i in range(n)):
                exp.append(float(f_apply(L, x)[0]))
            elif mode == "constant":
                exp.append(float(cval))
            elif mode == "nearest":
                xc = [min(max(x[i], Fraction(0)), Fraction(sshape[i] - 1)) for i in range(n)]
                exp.append(float(f_apply(L, xc)[0]))
            else:
                exp.append(None)
        vals = np.array([float(f_apply(L, [Fraction(t) for t in p])[0]) for p in all_idx(sshape)]).reshape(sshape)
        return L, exp, vals

    @staticmethod
    def _generic_ref(data, M, tshape, order, mode, cval, exact=False):
        """independent interpolation (of the float64 copy) at the exactly mapped coordinates"""
        from scipy.ndimage import map_coordinates
        idx = all_idx(tshape)
        coords = np.array([[float(c) for c in f_apply(M, [Fraction(t) for t in v])] for v in idx]).T
        ref = map_coordinates(np.asarray(data, np.float64), coords, order=order, mode=mode, cval=cval)
        n = data.ndim
        # voxels whose coordinate is within 1e-6 of the field-of-view border (or, for the
        # grid-constant taper, within one voxel outside it) are ambiguous in floats
        amb = np.zeros(len(idx), bool)
        for i in range(0 if exact else n):      # exact dyadic maps: both sides compute the same coordinates
            amb |= (np.abs(coords[i]) < 1e-6) | (np.abs(coords[i] - (data.shape[i] - 1)) < 1e-6)
            if mode in ("grid-constant", "wrap", "grid-wrap", "reflect", "grid-mirror"):
                amb |= (np.abs(coords[i] + 1) < 1e-6) | (np.abs(coords[i] - data.shape[i]) < 1e-6) \
                    | (np.abs(coords[i] + 0.5) < 1e-6) | (np.abs(coords[i] - data.shape[i] + 0.5) < 1e-6)
        return [None if amb[k] else float(ref[k]) for k in range(len(idx))]

    # ---- nipy.algorithms.resample --------------------------------------
    def _run_resample(self, c):
        from nipy.core.api import AffineTransform, CoordinateMap, CoordinateSystem, Image
        import nipy.algorithms.resample as R
        import nipy.algorithms.interpolation as I
        n, sshape, tshape = c["n"], c["sshape"], c["tshape"]
        src, T, tgt = F(c["src"]), F(c["T"]), F(c["tgt"])
        srcInv = f_inv(src)
        M = f_comp(srcInv, f_comp(T, tgt))
        mode, order, sdt = c["mode"], c["order"], c.get("sdtype", "float64")
        names = {"ijk": "ijkl", "kji": "lkji", "xyz": "xyzt"}[c["names"]][:n]
        wnames = ["w%d" % i for i in range(n)]
        vcs = CoordinateSystem(list(names), "vox")
        tvcs = CoordinateSystem(["t" + a for a in names], "tvox")
        swcs = CoordinateSystem(wnames, "srcworld")
        twcs = swcs if c["entry"] == "img2img" else CoordinateSystem(["u%d" % i for i in range(n)], "tgtworld")
        if c["task"] == "field":
            L, fexp, vals = self._field_parts(c, src, M, tshape, sshape, c["cval"], mode)
            obj, data = self._typed(c, sshape, vals)
        else:
            obj, data = self._typed(c, sshape)
        img = Image(obj, AffineTransform(vcs, swcs, H(src)))
        tcm = AffineTransform(tvcs, twcs, H(tgt))
        Th = H(T)
        mk = c["mkind"]
        if mk == "matrix":
            mapping = Th.copy()
        elif mk == "pair":
            mapping = (Th[:n, :n].copy(), Th[:n, n].copy())
        elif mk == "affobj":
            mapping = AffineTransform(twcs, swcs, Th.copy())
        elif mk == "cmapobj":
            mapping = CoordinateMap(twcs, swcs, lambda x: np.dot(x, Th[:n, :n].T) + Th[:n, n])
        else:
            mapping = lambda x: np.dot(x, Th[:n, :n].T) + Th[:n, n]
        cap = {}
        o_at, o_mc = R.affine_transform, I.map_coordinates

        def at(inp, matrix, offset=0.0, **kw):
            cap["at"] = (np.array(matrix, float), np.array(offset, float), kw)
            return o_at(inp, matrix, offset=offset, **kw)

        def mc(inp, coords, **kw):
            cap["mc"] = (np.array(coords, float), tuple(inp.shape), kw)
            return o_mc(inp, coords, **kw)

        snap = Snapshot(data=base_array(obj), taff=tcm.affine, saff=img.coordmap.affine)
        R.affine_transform, I.map_coordinates = at, mc
        err = None
        try:
            if c["entry"] == "img2img":
                if c.get("mismatch"):
                    tcm2 = AffineTransform(tvcs, CoordinateSystem(wnames + ["extra"], "w2"),
                                           np.vstack([H(tgt)[:n], np.zeros((1, n + 1)), H(tgt)[n:]]))
                    timg = Image(np.zeros(tshape), tcm2)
                else:
                    timg = Image(np.zeros(tshape), tcm)
                out = R.resample_img2img(img, timg, order=order, mode=mode, cval=c["cval"])
            else:
                out = R.resample(img, tcm, mapping, tuple(tshape), order=order, mode=mode, cval=c["cval"])
        except Exception as e:   # noqa
            err = e
        finally:
            R.affine_transform, I.map_coordinates = o_at, o_mc
        mut = snap.changed()
        tags = ["resample", "entry=" + c["entry"], "mapping=" + mk, "task=" + c["task"], "z=" + c["zkind"],
                f"order={order}", "mode=" + mode, f"dim={n}", "sdtype=" + sdt, "layout=" + c.get("layout", "C")]
        base_args = f"{aff_txt(srcInv)} {aff_txt(src)}"
        if c["entry"] == "img2img":
            sop, top = n, n + (1 if c.get("mismatch") else 0)
            head = f"img2img {n} {n} {sop} {top} {base_args} {aff_txt(tgt)}"
        else:
            lk = "callable" if mk in ("callable", "cmapobj") else mk
            head = f"resample {n} {n} {lk} {base_args} {aff_txt(T)} {aff_txt(tgt)}"
        if err is not None:
            if c.get("mismatch") and isinstance(err, ValueError):
                return {"lines": [head + " mat"], "impl": [("err", errname(err))], "oracle": None,
                        "nontrivial": True, "tags": tags + ["refused"], "mutated": mut}
            return {"lines": [], "impl": [], "nontrivial": True, "tags": tags + ["raised"],
                    "oracle": f"{c['entry']} raised {type(err).__name__}: {err} on a valid request "
                              f"(mapping given as {mk}, order {order}, mode {mode}, image data {sdt}, "
                              f"{c.get('layout', 'C')})"}
        if c.get("mismatch"):
            return {"lines": [], "impl": [], "nontrivial": True, "tags": tags,
                    "oracle": "resample_img2img accepted images whose world dimensions differ"}
        raw = np.asarray(out.get_fdata())
        arr = np.asarray(raw, dtype=float)
        lines, impl = [], []
        interp_path = c["entry"] != "img2img" and mk in ("callable", "cmapobj")
        # 1. what was handed to the numerical routine
        if interp_path:
            if "mc" in cap:
                coords, kshape, kw = cap["mc"]
                lines.append(f"resamplecoords {n} {n} {base_args} {aff_txt(T)} {aff_txt(tgt)} {order} "
                             f"{mode} {' '.join(map(str, tshape))}")
                impl.append(("coords", coords.T.ravel().tolist()))
            lines.append(head + " mat"); impl.append(("path", "interpolator"))
        else:
            if "at" in cap:
                A, b, kw = cap["at"]
                if A.ndim == 1:
                    A = np.diag(A)
                lines.append(head + " mat")
                impl.append(("pathmat" if c["entry"] != "img2img" else "mat", "affine_transform",
                             np.hstack([A, b.reshape(-1, 1)]).ravel().tolist()))
            else:
                lines.append(head + " mat"); impl.append(("path", "none"))
        pre = "" if c["entry"] == "img2img" else ("affine_transform " if not interp_path else "interpolator ")
        # 1b. the dtype of what is returned
        lines.append(head + f" dtype {sdt} none {order}")
        impl.append(("dtype", pre, raw.dtype.name))
        # 2. the values
        fail = None
        if out.coordmap != tcm:
            fail = f"{c['entry']}: result coordmap differs from the target coordmap"
        elif (out.coordmap.function_domain.coord_names != tcm.function_domain.coord_names
              or out.coordmap.function_range.coord_names != tcm.function_range.coord_names
              or out.coordmap.function_domain.name != "tvox" or out.coordmap.function_range.name != twcs.name
              or out.coordmap.function_domain.coord_dtype != tcm.function_domain.coord_dtype):
            fail = f"{c['entry']}: result coordinate systems (names / dtype) are not the target's"
        elif list(arr.shape) != list(tshape):
            fail = f"{c['entry']}: result shape {arr.shape} is not the requested shape {tuple(tshape)}"
        sc = scale_of(data)
        tol = 1e-7 * sc
        who = (f"{c['entry']}(mapping as {mk}, order {order}, mode {mode}, cval {c['cval']}, image data {sdt} "
               f"[{c.get('layout', 'C')}]")
        if c["task"] == "lookup":
            exp = self._expect_lookup(M, tshape, data, c["cval"], mode, order)
            fail = fail or self._check_expected(
                who + f", {c['zkind']} map)", arr, exp, tol,
                "the source sample at the mapped grid point (boundary mode / fill value outside)", sc)
            lines.append(head + " " + self._lookup_tail(sdt, None, order, mode, tshape, data, c["cval"]))
            impl.append(("tvals", pre, raw.dtype.name, arr.ravel().tolist(), tol, [], False))
        elif c["task"] == "field":
            fail = fail or self._check_expected(
                who + ") of a linear intensity field", arr, fexp, tol,
                "the field at the mapped world position (the fill value outside the field of view)", sc)
            lines.append(head + " " + self._field_tail(sdt, None, mode, tshape, sshape, L, c["cval"]))
            impl.append(("tvals", pre, raw.dtype.name, arr.ravel().tolist(), tol, [], False))
        else:
            ref = self._generic_ref(data, M, tshape, order, mode, c["cval"], exact=c["task"] == "sub")
            if order > 1 and mode in ("nearest", "grid-constant"):
                ref = [None if e is None else (e, "loose") for e in ref]
            fail = fail or self._check_expected(
                who + ")", arr, ref, 1e-6 * sc, "the source interpolated at the mapped location", sc)
            if c["task"] == "sub":
                # orders 0 and 1 are in the model for every target voxel (exact dyadic map)
                lines.append(head + " " + self._sub_tail(sdt, None, order, mode, tshape, data, c["cval"]))
                impl.append(("tvals", pre, raw.dtype.name, arr.ravel().tolist(), tol, [], False))
        return {"lines": lines, "impl": impl, "oracle": fail,
                "nontrivial": c["zkind"] != "identity" or order > 0, "tags": tags, "mutated": mut}

    # ---- ImageInterpolator ---------------------------------------------
    def _run_interp(self, c):
        from nipy.core.api import AffineTransform, CoordinateSystem, Image
        import nipy.algorithms.interpolation as I
        n, sshape = c["n"], c["sshape"]
        src = F(c["src"])
        srcInv = f_inv(src)
        mode, order, sdt = c["mode"], c["order"], c.get("sdtype", "float64")
        obj, data = self._typed(c, sshape)
        img = Image(obj, AffineTransform(CoordinateSystem(list("ijk"[:n]), "v"),
                                         CoordinateSystem(list("xyz"[:n]), "w"), H(src)))
        cap = {}
        o_mc = I.map_coordinates

        def mc(inp, coords, **kw):
            cap["mc"] = (np.array(coords, float), tuple(inp.shape))
            return o_mc(inp, coords, **kw)

        pts = np.array(c["pts"], float).T        # (n, N)
        snap = Snapshot(data=base_array(obj))
        I.map_coordinates = mc
        try:
            interp = I.ImageInterpolator(img, order=order, mode=mode, cval=c["cval"])
            raw = np.asarray(interp.evaluate(pts.copy()))
        except Exception as e:   # noqa
            return {"lines": [], "impl": [], "nontrivial": True, "tags": ["interp", "raised"],
                    "oracle": f"ImageInterpolator(order={order}, mode={mode}).evaluate raised "
                              f"{type(e).__name__}: {e} (image data {sdt}, {c.get('layout', 'C')})"}
        finally:
            I.map_coordinates = o_mc
        vals = np.asarray(raw, float)
        coords, kshape = cap["mc"]
        line = (f"interp {n} {aff_txt(srcInv)} {aff_txt(src)} {order} {mode} {sdt} "
                f"{' '.join(map(str, sshape))} {frs(data.ravel().tolist())} {fr(c['cval'])} "
                f"{len(c['pts'])} {' '.join(frs(p) for p in c['pts'])}")
        sc = scale_of(data)
        tol = 1e-7 * sc
        # oracle: world points that are voxel centres return the sample / the boundary-extended sample
        exp = []
        for p in c["pts"]:
            x = f_apply(srcInv, [Fraction(t) for t in p])
            if all(t.denominator == 1 for t in x):
                q = tuple(int(t) for t in x)
                if inside(q, sshape):
                    exp.append(float(data[q]))
                else:
                    e = [ext_index(mode, s, t) for s, t in zip(sshape, q)]
                    val = float(c["cval"]) if any(t is None for t in e) else float(data[tuple(e)])
                    exp.append(val if (mode == "constant" or ext_exact(mode, order)) else (val, "loose"))
            else:
                exp.append(None)
        fail = self._check_expected(
            f"ImageInterpolator(order={order}, mode={mode}, cval={c['cval']}, image data {sdt}).evaluate", vals, exp,
            tol, "the source sample at that world position (boundary mode / fill value outside)", sc)
        tags = ["interp", f"order={order}", "mode=" + mode, f"prepad={kshape[0] - sshape[0]}", "sdtype=" + sdt]
        return {"lines": [line], "impl": [("interp", raw.dtype.name, list(kshape), coords.T.ravel().tolist(),
                                           vals.ravel().tolist(), tol)],
                "oracle": fail, "nontrivial": True, "tags": tags, "mutated": snap.changed()}

    # ---- nipy.algorithms.registration.resample -------------------------
    def _run_reg(self, c):
        from nipy.core.image.image_spaces import as_xyz_image, make_xyz_image, xyz_affine
        import importlib
        RR = importlib.import_module("nipy.algorithms.registration.resample")
        from nipy.algorithms.registration.affine import Affine, Rigid
        sshape, tshape = list(c["sshape"]), list(c["tshape"])
        mov, T, ref = F(c["mov"]), F(c["T"]), F(c["ref"])
        movInv = f_inv(mov)
        mode, order, sdt, asked = c["mode"], c["order"], c.get("sdtype", "float64"), c["dtype"]
        tk = c["tkind"]
        Th = H(T)
        if tk == "none":
            transform = None
        elif tk == "matrix":
            transform = Th.copy()
        elif tk == "affobj":
            transform = Affine(Th.copy())
            Th = np.array(transform.as_affine(), float)     # what the object really holds
            T = F(Th[:3].tolist())
        elif tk == "rigidobj":
            transform = Rigid()
            transform.param = np.concatenate([Th[:3, 3] / transform.precond[:3], np.zeros(3)])
            Th = np.array(transform.as_affine(), float)
            T = F(Th[:3].tolist())
        else:
            transform = _GenericTransform(lambda pts: np.dot(pts, Th[:3, :3].T) + Th[:3, 3])
        # presentation with re-ordered axes: what as_xyz_image makes of it is the (mov, data) /
        # (ref, shape) pair everything below is stated for
        pm, pr = c.get("mperm"), (None if c["ref_as_tuple"] else c.get("rperm"))
        mraw = rraw = None
        lv = c.get("lvox")
        if pm:
            mraw = present_raw(mov, pm["codes"], pm["q"])
            s_ = observed_axes(mraw, [sshape[a] for a in pm["q"]])
            if s_ is None:
                pm = mraw = None
        if pm:
            mraw["r2o"] = mraw["ao"] = s_
            perm_ = [pm["q"][j] for j in s_]            # observed axis j = planned axis perm_[j]
            mov = [[row[a] for a in perm_] + [row[3]] for row in mov]
            sshape = [sshape[a] for a in perm_]
            if lv is not None:
                lv = [lv[a] for a in perm_] + [lv[3]]
            movInv = f_inv(mov)
        if pr:
            rraw = present_raw(ref, pr["codes"], pr["q"])
            s_ = observed_axes(rraw, [tshape[a] for a in pr["q"]])
            if s_ is None:
                pr = rraw = None
        if pr:
            rraw["r2o"] = rraw["ao"] = s_
            perm_ = [pr["q"][j] for j in s_]
            ref = [[row[a] for a in perm_] + [row[3]] for row in ref]
            tshape = [tshape[a] for a in perm_]
        t1 = T if c["refvox"] else f_comp(T, ref)
        M = t1 if c["movvox"] else f_comp(movInv, t1)
        cf = dict(c)
        if lv is not None:
            cf["lvox"] = lv
        if c["task"] == "field":
            # the field is linear in moving-image world coordinates
            L, fexp, vals = self._field_parts(cf, mov, M, tshape, sshape, c["cval"], mode)
            arr_ = np.asarray(vals).astype(sdt)
            if not np.array_equal(np.asarray(arr_, float), np.asarray(vals, float)):
                raise AssertionError("field values not representable in " + sdt)
        else:
            arr_ = make_typed(c["dseed"], sshape, sdt)
        data = np.asarray(arr_, dtype=np.float64)
        raw_arr = arr_ if mraw is None else np.transpose(arr_, np.argsort(mraw["r2o"]))
        obj = lay_out(raw_arr, c.get("layout", "C"))
        if mraw is None:
            moving = make_xyz_image(obj, H(mov), "scanner")
        else:
            moving = raw_image(obj, mraw)
        if c["ref_as_tuple"]:
            reference = (tuple(tshape), H(ref))
        elif rraw is None:
            reference = make_xyz_image(np.zeros(tshape), H(ref), "scanner")
        else:
            reference = raw_image(np.zeros([tshape[a] for a in np.argsort(rraw["r2o"])]), rraw)
        cap = {}
        cs_res, cs_s3, cs_tr = cs_glue(cap)
        saved = (RR.affine_transform, RR.map_coordinates, RR._cspline_resample3d, RR._cspline_sample3d,
                 RR._cspline_transform)

        def at(inp, matrix, offset=0.0, **kw):
            cap["routine"] = "affine_transform"
            cap["mat"] = np.hstack([np.array(matrix, float), np.array(offset, float).reshape(3, 1)])
            return saved[0](inp, matrix, offset=offset, **kw)

        def mc(inp, coords, **kw):
            cap["routine"] = "map_coordinates"
            cap["coords"] = np.array(coords, float)
            return saved[1](inp, coords, **kw)

        snap = Snapshot(data=base_array(obj))
        RR.affine_transform, RR.map_coordinates, RR._cspline_resample3d, RR._cspline_sample3d, \
            RR._cspline_transform = at, mc, cs_res, cs_s3, cs_tr
        kw = {}
        if asked is not None:
            kw["dtype"] = np.dtype(asked)
        tags = ["reg", "transform=" + tk, "task=" + c["task"], "z=" + c["zkind"], f"order={order}",
                "mode=" + mode, f"movvox={int(c['movvox'])}", f"refvox={int(c['refvox'])}",
                "dtype=" + str(asked), "sdtype=" + sdt, "layout=" + c.get("layout", "C"),
                "mov-reordered" if mraw else "mov-xyz", "ref-reordered" if rraw else "ref-xyz"]
        try:
            out = RR.resample(moving, transform, reference, mov_voxel_coords=c["movvox"],
                              ref_voxel_coords=c["refvox"], interp_order=order, mode=mode,
                              cval=c["cval"], **kw)
        except Exception as e:   # noqa
            return {"lines": [], "impl": [], "nontrivial": True, "tags": tags + ["raised"],
                    "oracle": f"registration.resample raised {type(e).__name__}: {e} (transform given as {tk}, "
                              f"order {order}, mode {mode}, dtype {asked}, image data {sdt}, {c.get('layout', 'C')})"}
        finally:
            RR.affine_transform, RR.map_coordinates, RR._cspline_resample3d, RR._cspline_sample3d, \
                RR._cspline_transform = saved
        mut = snap.changed()
        raw = np.asarray(out.get_fdata())
        arr = np.asarray(raw, dtype=float)
        is_aff = tk != "generic"
        t_tshape, t_data, t_sshape = tshape, data, sshape      # what the model's task lines are given
        pre_lines, pre_impl = [], []
        if mraw is None and rraw is None:
            head = (f"reg {aff_txt(movInv)} {aff_txt(mov)} {aff_txt(T)} {aff_txt(ref)} {int(c['movvox'])} "
                    f"{int(c['refvox'])} {int(is_aff)} {order} {mode} {fr(c['cval'])}")
        else:
            # the arrays and affines as handed over: the model re-orders them (as_xyz_image)
            ident = {"codes": [0, 1, 2], "ao": [0, 1, 2]}
            mr = mraw or dict(ident, aff=mov)
            rr = rraw or dict(ident, aff=ref)
            head = (f"regx {' '.join(map(str, mr['codes']))} {' '.join(map(str, mr['ao']))} {aff_txt(mr['aff'])} "
                    f"{aff_txt(movInv)} {' '.join(map(str, rr['codes']))} {' '.join(map(str, rr['ao']))} "
                    f"{aff_txt(rr['aff'])} {aff_txt(T)} {int(c['movvox'])} {int(c['refvox'])} {int(is_aff)} "
                    f"{order} {mode} {fr(c['cval'])}")
            if mraw is not None:
                t_data = np.transpose(data, np.argsort(mraw["r2o"]))
                t_sshape = list(t_data.shape)
                xm = as_xyz_image(moving)
                pre_lines.append(f"asxyz {' '.join(map(str, mraw['codes']))} {' '.join(map(str, mraw['ao']))} "
                                 f"{aff_txt(mraw['aff'])} {' '.join(map(str, t_sshape))} {frs(t_data.ravel().tolist())}")
                xd = np.asarray(xm.get_fdata(), float)
                pre_impl.append(("xyz", np.array(xyz_affine(xm), float)[:3].ravel().tolist(), list(xd.shape),
                                 xd.ravel().tolist()))
            if rraw is not None:
                t_tshape = [tshape[a] for a in np.argsort(rraw["r2o"])]
        routine = regroutine(is_aff, order, mode, c["cval"])
        lines, impl = pre_lines + [head + " mat"], list(pre_impl)
        if "mat" in cap:
            impl.append(("pathmat", cap.get("routine"), cap["mat"].ravel().tolist()))
        else:
            impl.append(("path", cap.get("routine")))
        lines.append(head + f" dtype {sdt} {asked or 'none'} {order}")
        impl.append(("dtype", routine + " ", raw.dtype.name))
        out_dt = asked or sdt
        fail = None
        if not np.array_equal(xyz_affine(out), H(ref)):
            fail = "registration.resample: result affine is not the reference affine"
        elif list(arr.shape) != list(tshape):
            fail = f"registration.resample: result shape {arr.shape} is not the reference shape {tuple(tshape)}"
        elif raw.dtype != np.dtype(out_dt):
            fail = (f"registration.resample(dtype={asked}) of {sdt} data returned dtype {raw.dtype.name}, "
                    f"not the requested / the moving image's dtype")
        if fail is None and "coords" in cap:
            idx = all_idx(tshape)
            want = np.array([[float(t) for t in f_apply(M, [Fraction(x) for x in v])] for v in idx]).T
            if cap["coords"].shape != want.shape or not np.allclose(cap["coords"], want, rtol=1e-9, atol=1e-9):
                fail = ("registration.resample (generic transform): coordinates handed to the interpolator are "
                        "not inv(mov_aff) . T . ref_aff applied to the reference voxels")
        intd = out_dt in INT_DTYPES
        sc = scale_of(data)
        tol = (0.5 + 1e-6) if intd else (2e-6 if out_dt == "float32" else 1e-7) * sc
        mtol = (2e-6 if out_dt == "float32" else 1e-7) * sc
        where = (f"registration.resample(transform as {tk}, order {order}, mode {mode}, cval {c['cval']}, "
                 f"mov_voxel_coords={c['movvox']}, ref_voxel_coords={c['refvox']}, dtype {asked}, image data {sdt} "
                 f"[{c.get('layout', 'C')}], {c['zkind']} map, routine {cap.get('routine')})")
        inexact = tk in ("generic", "affobj", "rigidobj")
        border = self._border_mask(M, tshape, sshape, mode == "wrap", order == 0) if inexact \
            else [False] * int(np.prod(tshape))
        skip = [k for k, b_ in enumerate(border) if b_]

        def drop(exp):
            return [None if border[k] else e for k, e in enumerate(exp)]

        fast = routine.startswith("cspline")
        if c["task"] == "lookup":
            exp = drop(self._expect_lookup(M, tshape, data, c["cval"], mode, order))
            fail = fail or self._check_expected(where, arr, cast_oracle(exp, out_dt), tol,
                                                "the source sample at the mapped grid point (boundary mode / fill "
                                                "value outside)", sc)
            lines.append(head + " " + self._lookup_tail(sdt, asked, order, mode, t_tshape, t_data, c["cval"]))
            impl.append(("tvals", routine + " ", raw.dtype.name, arr.ravel().tolist(), mtol, skip,
                         inexact or fast or order > 1))
        elif c["task"] == "field":
            fail = fail or self._check_expected(where + " of a linear intensity field", arr,
                                                cast_oracle(drop(fexp), out_dt), tol,
                                                "the field at the mapped world position (the fill value outside "
                                                "the field of view)", sc)
            lines.append(head + " " + self._field_tail(sdt, asked, mode, t_tshape, t_sshape, L, c["cval"]))
            impl.append(("tvals", routine + " ", raw.dtype.name, arr.ravel().tolist(), mtol, skip, inexact))
        else:
            if not fast:
                ref_ = self._generic_ref(data, M, tshape, order, mode, c["cval"],
                                         exact=c["task"] == "sub" and not inexact)
                if c["task"] == "sub":
                    ref_ = drop(ref_)
                if order > 1 and mode in ("nearest", "grid-constant"):
                    ref_ = [None if e is None else (e, "loose") for e in ref_]
                fail = fail or self._check_expected(where, arr, cast_oracle(ref_, out_dt), max(tol, 1e-6 * sc),
                                                    "the source interpolated at the mapped location", sc)
            if c["task"] == "sub" and not inexact:
                lines.append(head + " " + self._sub_tail(sdt, asked, order, mode, t_tshape, t_data, c["cval"]))
                impl.append(("tvals", routine + " ", raw.dtype.name, arr.ravel().tolist(), mtol, skip, False))
        return {"lines": lines, "impl": impl, "oracle": fail,
                "nontrivial": True, "tags": tags + ["routine=" + str(cap.get("routine"))], "mutated": mut}

    # ---- VolumeImg / VolumeGrid ---------------------------------------------
    def _run_vol(self, c):
        import scipy.ndimage as ndi
        from nipy.labs.datasets.volumes.volume_img import VolumeImg
        from nipy.labs.datasets.volumes.volume_grid import VolumeGrid
        from nipy.labs.datasets.transforms.affine_transform import AffineTransform as LabsAffine
        sshape, tshape = c["sshape"], c["tshape"]
        src, tgt = F(c["src"]), F(c["tgt"])
        srcInv = f_inv(src)
        M = f_comp(srcInv, tgt)
        extra = c["extra"]
        sdt = c.get("sdtype", "float64")
        obj, data = self._typed(c, list(sshape) + list(extra))
        order = 0 if c["interp"] == "nearest" else 3
        via = c["via"]
        pre_lines, pre_impl, pre_fail = [], [], None
        if c.get("w2w") and task_ok_for_w2w(c):
            # the image is first moved to another world space: same samples, composed affine
            W = F(c["w2w"])
            src0 = f_comp(f_inv(W), src)             # so that the composed affine is `src` again
            if is_exact(src0):
                base = VolumeImg(obj, H(src0), "w0", interpolation=c["interp"])
                img0 = base.composed_with_transform(LabsAffine("w0", "w", H(W)))
                pre_lines.append(f"volcompose {aff_txt(W)} {aff_txt(src0)}")
                pre_impl.append(("mat", "", np.array(img0.affine, float)[:3].ravel().tolist()))
                if img0.world_space != "w" or not np.array_equal(np.asarray(img0.get_fdata()), np.asarray(base.get_fdata())):
                    pre_fail = "composed_with_transform changed the samples or did not adopt the new world space"
                obj_img = img0
            else:
                obj_img = None
        else:
            obj_img = None
        if via.startswith("grid"):
            img = VolumeGrid(obj, LabsAffine("voxel_space", "w", H(src)), interpolation=c["interp"])
        elif obj_img is not None:
            img = obj_img
        else:
            img = VolumeImg(obj, H(src), "w", interpolation=c["interp"])
        cap = {}
        o_at = ndi.affine_transform

        def at(inp, matrix, offset=0.0, **kw):
            A = np.array(matrix, float)
            cap["diag"] = A.ndim == 1
            if A.ndim == 1:
                A = np.diag(A)
            cap["mat"] = np.hstack([A, np.array(offset, float).reshape(3, 1)])
            return o_at(inp, matrix, offset=offset, **kw)

        snap = Snapshot(data=base_array(obj), aff=H(src))
        ndi.affine_transform = at
        tags = ["vol", "via=" + via, "task=" + c["task"], "z=" + c["zkind"], "interp=" + c["interp"],
                f"extra={len(extra)}", "sdtype=" + sdt, "layout=" + c.get("layout", "C")]
        try:
            if via == "as_volume_img":
                out = img.as_volume_img(affine=H(tgt), shape=tuple(tshape))
                raw, oaff = out.get_fdata(), out.affine
            elif via == "resampled_to_img":
                timg = VolumeImg(np.zeros(tshape), H(tgt), "w")
                out = img.resampled_to_img(timg)
                raw, oaff = out.get_fdata(), out.affine
            elif via == "grid_as_volume_img":
                out = img.as_volume_img(affine=H(tgt), shape=tuple(tshape))
                raw, oaff = out.get_fdata(), out.affine
            elif via == "grid_resampled_to_img":
                timg = VolumeImg(np.zeros(tshape), H(tgt), "w")
                out = img.resampled_to_img(timg)
                raw, oaff = out.get_fdata(), out.affine
            elif via == "resampled_to_grid":
                tgrid = VolumeGrid(np.zeros(tshape), LabsAffine("voxel_space", "w", H(tgt)))
                out = img.resampled_to_img(tgrid)
                raw, oaff = out.get_fdata(), np.array(out.get_transform().affine, float)
                if not isinstance(out, VolumeGrid):
                    pre_fail = pre_fail or "resampled_to_img(VolumeGrid target) did not return an image like the target"
            else:
                idx = np.array(all_idx(tshape), float).T
                w = H(tgt)[:3, :3] @ idx + H(tgt)[:3, 3:4]
                raw = img.values_in_world(w[0].reshape(tshape), w[1].reshape(tshape), w[2].reshape(tshape))
                oaff = None
        except Exception as e:   # noqa
            return {"lines": [], "impl": [], "nontrivial": True, "tags": tags + ["raised"],
                    "oracle": f"{type(img).__name__}.{via} raised {type(e).__name__}: {e} (image data {sdt}, "
                              f"{c.get('layout', 'C')}, interpolation {c['interp']})"}
        finally:
            ndi.affine_transform = o_at
        mut = snap.changed()
        raw = np.asarray(raw)
        arr = np.asarray(raw, float)
        lines, impl = list(pre_lines), list(pre_impl)
        fail = pre_fail
        if fail is None and isinstance(img, VolumeImg):
            cp = img.as_volume_img()                    # no affine, no shape: a copy
            if not (cp == img) or cp is img:
                fail = "VolumeImg.as_volume_img() without arguments is not an equal copy of the image"
        if fail is not None:
            pass
        elif oaff is not None and not np.array_equal(oaff, H(tgt)):
            fail = f"{type(img).__name__}.{via}: result affine is not the target affine"
        elif list(arr.shape) != list(tshape) + list(extra):
            fail = f"{type(img).__name__}.{via}: result shape {arr.shape}, expected {tuple(tshape) + tuple(extra)}"
        t = f_ident(3) if tgt == src else M
        lin = [row[:3] + [Fraction(0)] for row in t]
        linInv = f_inv(lin)
        head = None
        if linInv is not None:
            head = (f"volimg {aff_txt(srcInv)} {aff_txt(src)} {aff_txt(tgt)} "
                    f"{' '.join(frs(r[:3]) for r in linInv)}")
        pre = "*"           # values_in_world / VolumeGrid: map_coordinates, no matrix to compare
        if "mat" in cap and head is not None:
            pre = "diag " if cap["diag"] else "full "
            lines.append(head + " mat")
            impl.append(("pathmat", pre.strip(), cap["mat"].ravel().tolist()))
        if head is not None:
            lines.append(head + f" dtype {sdt} none {order}")
            impl.append(("dtype", pre, raw.dtype.name))
        sc = scale_of(data)
        tol = (2e-6 if sdt == "float32" else 1e-7) * sc
        flat = arr.reshape(int(np.prod(tshape)), -1)
        dflat = data.reshape(list(sshape) + [-1])
        where = (f"{type(img).__name__}.{via}(interpolation {c['interp']}, {c['zkind']} map, image data {sdt} "
                 f"[{c.get('layout', 'C')}], data ndim {data.ndim})")
        if fail is None:
            for e in range(flat.shape[1]):
                if c["task"] == "lookup":
                    exp = self._expect_lookup(M, tshape, dflat[..., e], 0.0, "constant", order)
                    what = "the source sample at the mapped grid point (0 outside)"
                    t_ = tol
                else:
                    exp = self._generic_ref(dflat[..., e], M, tshape, order, "constant", 0.0,
                                            exact=c["zkind"] == "subvoxel")
                    what = "the source interpolated at the mapped location"
                    t_ = max(tol, 1e-6 * sc)
                fail = self._check_expected(where + (f", volume {e}" if flat.shape[1] > 1 else ""),
                                            flat[:, e], exp, t_, what, sc)
                if fail:
                    break
        if c["task"] == "lookup" and head is not None and fail is None:
            lines.append(head + " " + self._lookup_tail(sdt, None, order, "constant", tshape, dflat[..., 0], 0.0))
            impl.append(("tvals", pre, raw.dtype.name, flat[:, 0].tolist(), tol, [], False))
        if c["zkind"] == "subvoxel" and order == 0 and head is not None and fail is None:
            lines.append(head + " " + self._sub_tail(sdt, None, 0, "constant", tshape, dflat[..., 0], 0.0))
            impl.append(("tvals", pre, raw.dtype.name, flat[:, 0].tolist(), tol, [], False))
        return {"lines": lines, "impl": impl, "oracle": fail, "nontrivial": True, "tags": tags, "mutated": mut}

    def _run_xyz(self, c):
        from nipy.labs.datasets.transforms.transform import CompositionError
        from nipy.labs.datasets.volumes.volume_img import VolumeImg
        sshape = c["sshape"]
        extra = list(c.get("extra", []))
        interp = c.get("interp", "continuous")
        aff = F(c["aff"])
        if c["rot"]:
            aff[0][1] += Fraction(1, 2)
            aff[1][0] += Fraction(1, 4)
        obj, data = self._typed(c, list(sshape) + extra)
        img = VolumeImg(obj, H(aff), "w", interpolation=interp, metadata={"tag": 1})
        snap = Snapshot(data=base_array(obj), aff=img.affine)
        d0 = data.reshape(list(sshape) + [-1])[..., 0]
        line = f"xyz {aff_txt(aff)} {' '.join(map(str, sshape))} {frs(d0.ravel().tolist())}"
        cols_ok = all(sum(1 for i in range(3) if abs(aff[i][j]) > Fraction(1, 1000)) == 1 for j in range(3))
        tags = ["xyz", "rot" if not cols_ok else "axis-aligned", "sdtype=" + c.get("sdtype", "float64"),
                "interp=" + interp, f"extra={len(extra)}"]
        try:
            out = img.xyz_ordered()
        except CompositionError:
            return {"lines": [line], "impl": [("err", "error:CompositionError")],
                    "oracle": None if not cols_ok else "xyz_ordered refused an axis-aligned affine",
                    "nontrivial": True, "tags": tags + ["refused"], "mutated": snap.changed()}
        except Exception as e:   # noqa
            return {"lines": [], "impl": [], "nontrivial": True, "tags": tags + ["raised"],
                    "oracle": f"VolumeImg.xyz_ordered raised {type(e).__name__}: {e}"}
        mut = snap.changed()
        oaff = np.array(out.affine, float)
        oraw = np.asarray(out.get_fdata())
        ofull = np.asarray(oraw, float)
        odata = ofull.reshape(list(ofull.shape[:3]) + [-1])
        fail = None
        if cols_ok:
            A = oaff[:3, :3]
            if not (np.array_equal(A, np.diag(np.diag(A))) and np.all(np.diag(A) > 0)):
                fail = "xyz_ordered: resulting affine is not diagonal positive"
            elif oraw.dtype != np.dtype(c.get("sdtype", "float64")):
                fail = f"xyz_ordered (no resampling) changed the data dtype to {oraw.dtype.name}"
            elif list(ofull.shape[3:]) != extra:
                fail = f"xyz_ordered changed the non-spatial axes: {ofull.shape[3:]} from {tuple(extra)}"
            elif out.interpolation != interp or out.world_space != "w" or out.metadata != {"tag": 1}:
                fail = (f"xyz_ordered of an image with interpolation={interp!r} returned one with interpolation="
                        f"{out.interpolation!r} (world space {out.world_space!r}, metadata {out.metadata!r}): later "
                        f"resampling of the re-ordered image would not interpolate as the image declares")
            else:
                inv = f_inv(aff)
                oa = F(oaff[:3].tolist())
                dall = data.reshape(list(sshape) + [-1])
                for v in all_idx(odata.shape[:3]):
                    w = f_apply(oa, [Fraction(t) for t in v])
                    p = f_apply(inv, w)
                    ok = all(t.denominator == 1 for t in p) and inside(tuple(int(t) for t in p), sshape)
                    if not ok or not np.array_equal(dall[tuple(int(t) for t in p)], odata[v]):
                        fail = (f"xyz_ordered: voxel {v} of the reordered image lies at world position "
                                f"{[float(t) for t in w]} and holds {odata[v].tolist()!r}; the original image has "
                                + (f"{dall[tuple(int(t) for t in p)].tolist()!r}" if ok else "no sample") + " there")
                        break
                if fail is None and odata.size != data.size:
                    fail = "xyz_ordered changed the number of samples"
            if fail is None and c.get("probe"):
                # the re-ordered image is the same image: it interpolates to the same values at every
                # world position (here: off-grid positions inside the field of view)
                wp = np.array([[float(t) for t in f_apply(aff, [Fraction(x) for x in q])] for q in c["probe"]]).T
                try:
                    va = np.asarray(img.values_in_world(wp[0], wp[1], wp[2]), float)
                    vb = np.asarray(out.values_in_world(wp[0], wp[1], wp[2]), float)
                except Exception as e:   # noqa
                    va = vb = None
                    fail = f"values_in_world on the xyz_ordered image raised {type(e).__name__}: {e}"
                if va is not None and (va.shape != vb.shape or not np.allclose(va, vb, rtol=0, atol=1e-6 * scale_of(data))):
                    fail = (f"the xyz_ordered image (interpolation {out.interpolation!r}) and the original "
                            f"({interp!r}) give different values at world points {wp.T.tolist()}: "
                            f"{vb.ravel()[:6].tolist()} against {va.ravel()[:6].tolist()}")
        impl = ("xyz", oaff[:3].ravel().tolist(), list(odata.shape[:3]), odata[..., 0].ravel().tolist())
        lines, impls = [line], [impl]
        if cols_ok:
            lines.append(f"xyzattr {interp}")
            impls.append(("str", str(out.interpolation)))
        return {"lines": lines, "impl": impls, "oracle": fail, "nontrivial": True, "tags": tags, "mutated": mut}

    # ---- 4-D realignment resampling ---------------------------------------
    def _run_realign(self, c):
        from nipy.algorithms.registration import groupwise_registration as G
        from nipy.algorithms.registration.affine import Rigid
        sshape, nt = c["sshape"], c["nt"]
        aff = F(c["aff"])
        affInv = f_inv(aff)
        sdt = c.get("sdtype", "float64")
        arr4 = make_typed(c["dseed"], list(sshape) + [nt], sdt)
        data = np.asarray(arr4, float)
        transforms = []
        Ts = []
        for s in c["shifts"]:
            r = Rigid()
            # world translation by whole voxels along each axis
            tw = [float(aff[i][i] * s[i]) for i in range(3)]
            r.param = np.concatenate([np.array(tw) / r.precond[:3], np.zeros(3)]) if any(s) else r.param
            transforms.append(r)
            Ts.append(F(np.array(r.as_affine(), float)[:3].tolist()))
        tags = ["realign", f"nt={nt}", "shifted" if any(any(s) for s in c["shifts"]) else "identity", "sdtype=" + sdt,
                "lazy" if c.get("lazy") else "array"]
        _, cs_s3, cs_tr = cs_glue()
        saved = (G._cspline_sample3d, G._cspline_transform, G._cspline_sample4d)
        G._cspline_sample3d, G._cspline_transform, G._cspline_sample4d = cs_s3, cs_tr, cs_glue4()
        tin, tr = bool(c.get("tinterp")), float(c.get("tr", 1.0))
        hi = None

        def source():
            return (lambda: arr4.copy()) if c.get("lazy") else arr4.copy()
        try:
            # synchronous slices (slice_times 0): with time interpolation every scan is sampled at its
            # own time point, so the 4-D spline is evaluated at grid points of the time axis too
            im4d = G.Image4d(source(), H(aff), tr=tr, slice_times=0.0, slice_info=(2, 1))
            res = G.resample4d(im4d, transforms, time_interp=tin)
            if not tin:
                # the high-level class: Realign4d(...).resample(run) with the transforms given
                from nipy.core.image.image_spaces import make_xyz_image, xyz_affine
                rl = G.Realign4d(make_xyz_image(arr4.copy(), H(aff), "scanner"), tr=tr, slice_info=(2, 1))
                rl._transforms = [transforms]
                him = rl.resample(0)
                hi = (np.asarray(him.get_fdata(), float), np.array(xyz_affine(him), float))
            im4d = G.Image4d(source(), H(aff), tr=tr, slice_times=0.0, slice_info=(2, 1))
            alg = G.Realign4dAlgorithm(im4d, transforms=transforms, time_interp=False, subsampling=(1, 1, 1),
                                       borders=(0, 0, 0))
            for t in range(nt):
                alg.resample(t)
            work = np.array(alg.data)
            xyz = np.array(alg.xyz)
        except Exception as e:   # noqa
            return {"lines": [], "impl": [], "nontrivial": True, "tags": tags + ["raised"],
                    "oracle": f"resample4d / Realign4dAlgorithm.resample raised {type(e).__name__}: {e} "
                              f"(image data {sdt})"}
        finally:
            G._cspline_sample3d, G._cspline_transform, G._cspline_sample4d = saved
        rawdt = np.asarray(res).dtype.name
        res = np.asarray(res, float)
        sc = scale_of(data)
        tol = 1e-7 * sc
        fail = None
        tags.append("time_interp" if tin else "no_time_interp")
        if hi is not None:
            if not np.array_equal(hi[1], H(aff)):
                fail = "Realign4d.resample: the resampled run does not carry the run's affine"
            elif hi[0].shape != res.shape or not np.allclose(hi[0], res, rtol=0, atol=tol):
                fail = "Realign4d.resample(run) differs from resample4d with the same transforms"
        lines, impl = [], []
        for t in range(nt):
            M = f_comp(affInv, f_comp(Ts[t], aff))
            head = f"realign {aff_txt(affInv)} {aff_txt(aff)} {aff_txt(Ts[t])}"
            exp = self._expect_lookup(M, sshape, data[..., t], 0.0, "constant", 3)
            fail = fail or self._check_expected(
                f"resample4d(time_interp={tin}), scan {t}, whole-voxel shift {c['shifts'][t]}, image data {sdt}",
                res[..., t], exp, tol, "the input sample at the shifted grid point (0 outside)", sc)
            if all(x is not None for x in exp):
                lines.append(head + " " + self._lookup_tail(sdt, None, 3, "constant", sshape, data[..., t], 0.0))
                impl.append(("tvals", "", rawdt, res[..., t].ravel().tolist(), tol, [], True))
            # working grid: cubic_spline.c 'reflect' on every axis — inside points are a property
            # clause, mirrored points a correspondence with the model's C boundary logic
            pts, got = [], []
            for k, v in enumerate(xyz):
                x = f_apply(M, [Fraction(int(a)) for a in v])
                if all(a.denominator == 1 for a in x):
                    p = tuple(int(a) for a in x)
                    pts.append(p); got.append(float(work[k, t]))
                    if inside(p, sshape):
                        e = data[p + (t,)]
                        if fail is None and abs(work[k, t] - e) > tol:
                            fail = (f"Realign4dAlgorithm.resample({t}): grid point {tuple(int(a) for a in v)} holds "
                                    f"{work[k, t]!r}, the input sample at the mapped point is {e!r}")
            if pts:
                lines.append(f"cslookup 2 2 2 {' '.join(map(str, sshape))} {frs(data[..., t].ravel().tolist())} "
                             f"{len(pts)} {' '.join(' '.join(map(str, p)) for p in pts)}")
                impl.append(("rats", got, tol))
        return {"lines": lines, "impl": impl, "oracle": fail, "nontrivial": True, "tags": tags, "mutated": None}

    # ---- ties of the model's building blocks to SciPy / NumPy / the C --------------------
    def _run_bidx(self, c):
        from scipy.ndimage import map_coordinates
        n, mode, idx = c["len"], c["mode"], c["idx"]
        a = np.arange(n, dtype=float)
        obs = []
        for order in (0, 1):
            v = map_coordinates(a, [np.array(idx, float)], order=order, mode=mode, cval=-1.0)
            obs.append(" ".join("x" if t == -1 else str(int(t)) for t in v))
        fail = None
        mine = " ".join("x" if ext_index(mode, n, i) is None else str(ext_index(mode, n, i)) for i in idx)
        if obs[0] != obs[1]:
            fail = None       # SciPy's own orders disagree: nothing the property says; the tie reports it
        line = f"bidx {mode} {n} {len(idx)} {' '.join(map(str, idx))}"
        return {"lines": [line, line, line], "impl": [("str", obs[0]), ("str", obs[1]), ("str", mine)],
                "oracle": fail, "nontrivial": True, "tags": ["bidx", "mode=" + mode], "mutated": None}

    def _run_cast(self, c):
        from scipy.ndimage import affine_transform
        import importlib
        RR = importlib.import_module("nipy.algorithms.registration.resample")
        dt, vals = c["dtype"], np.array(c["vals"], float)
        snap = Snapshot(vals=vals)
        even = np.asarray(RR.cast_array(vals, np.dtype(dt)))
        away = np.zeros(len(vals), dtype=dt)
        affine_transform(vals, [1.0], order=1, output=away)
        fail = None
        if even.dtype != np.dtype(dt):
            fail = f"cast_array(dtype={dt}) returned dtype {even.dtype.name}"
        elif dt in INT_DTYPES:
            info = np.iinfo(dt)
            for v, e in zip(vals, even.astype(float)):
                w = min(max(v, float(info.min)), float(info.max))
                if abs(e - w) > 0.5:
                    fail = f"cast_array({v!r}, {dt}) = {e!r}: not the nearest integer of the clipped value"
                    break
        tol = 0 if dt in INT_DTYPES else (1e-6 if dt == "float32" else 0)
        lines = [f"cast half-even {dt} {len(vals)} {frs(vals.tolist())}",
                 f"cast half-away {dt} {len(vals)} {frs(vals.tolist())}"]
        impl = [("rats", even.astype(float).tolist(), tol * scale_of(vals)),
                ("rats", away.astype(float).tolist(), tol * scale_of(vals))]
        return {"lines": lines, "impl": impl, "oracle": fail, "nontrivial": True,
                "tags": ["cast", "dtype=" + dt], "mutated": snap.changed()}

    def _run_cs(self, c):
        shape, modes = c["shape"], c["modes"]
        lib = cs_lib()
        sdt = c.get("sdtype", "float64")
        arr = make_typed(c["dseed"], shape, sdt)
        obj = lay_out(arr, c.get("layout", "C"))
        data = np.asarray(arr, float)
        snap = Snapshot(data=obj)
        coef = np.zeros(shape, dtype=np.double)
        lib.cubic_spline_transform(coef, obj)            # any dtype / strides: PyArray_CopyInto
        sc = scale_of(data)
        # (1) the sampler on explicit (dyadic) coefficients — the data themselves — at arbitrary points
        cd = np.ascontiguousarray(data)
        got1 = [lib.cubic_spline_sample3d(float(p[0]), float(p[1]), float(p[2]), cd, *modes) for p in c["pts"]]
        line1 = (f"cs3 C {modes[0]} {modes[1]} {modes[2]} {shape[0]} {shape[1]} {shape[2]} "
                 f"{frs(cd.ravel().tolist())} {len(c['pts'])} {' '.join(frs(p) for p in c['pts'])}")
        # (2) pre-filter + sampler at grid points: the looked-up sample under the C boundary modes
        lat = [p for p in c["pts"] if all(float(t).is_integer() for t in p)]
        lines, impl = [line1], [("rats", got1, 1e-9 * sc)]
        fail = None
        if lat:
            got2 = [lib.cubic_spline_sample3d(float(p[0]), float(p[1]), float(p[2]), coef, *modes) for p in lat]
            exp = []
            for p in lat:
                q = [cs_ext_index(m, s - 1, int(t)) for m, s, t in zip(modes, shape, p)]
                exp.append(0.0 if any(t is None for t in q) else float(data[tuple(q)]))
            for p, g, e in zip(lat, got2, exp):
                if abs(g - e) > 1e-7 * sc:
                    fail = (f"cubic_spline_transform + cubic_spline_sample3d(modes {modes}) at grid point {p} of a "
                            f"{shape} {sdt} array [{c.get('layout', 'C')}] gives {g!r}, the sample there is {e!r}")
                    break
            lines.append(f"cslookup {modes[0]} {modes[1]} {modes[2]} {' '.join(map(str, shape))} "
                         f"{frs(data.ravel().tolist())} {len(lat)} "
                         f"{' '.join(' '.join(str(int(t)) for t in p) for p in lat)}")
            impl.append(("rats", got2, 1e-7 * sc))
        # (3) the hypothesis IsSplineCoef3: three-tap operator along the three axes gives the samples back
        if fail is None:
            rec = coef.copy()
            for ax, s in enumerate(shape):
                idx = np.arange(s)
                lo = np.array([cs_ext_index(2, s - 1, int(i) - 1) if s > 1 else 0 for i in idx])
                hi = np.array([cs_ext_index(2, s - 1, int(i) + 1) if s > 1 else 0 for i in idx])
                rec = (np.take(rec, lo, axis=ax) + 4 * rec + np.take(rec, hi, axis=ax)) / 6.0
            if np.max(np.abs(rec - data)) > 1e-7 * sc:
                fail = (f"cubic_spline_transform of a {shape} {sdt} array [{c.get('layout', 'C')}]: the B-spline "
                        f"with these coefficients does not interpolate the samples "
                        f"(max error {np.max(np.abs(rec - data))!r})")
        return {"lines": lines, "impl": impl, "oracle": fail, "nontrivial": True,
                "tags": ["cs", "modes=" + "".join(map(str, modes)), "sdtype=" + sdt], "mutated": snap.changed()}

    def _run_refuse(self, c):
        """requests that must be refused: mapping arrays of the wrong shape, 4-D references"""
        from nipy.core.api import AffineTransform, CoordinateSystem, Image
        from nipy.core.image.image_spaces import make_xyz_image
        import nipy.algorithms.resample as R
        import importlib
        RR = importlib.import_module("nipy.algorithms.registration.resample")
        n, rows, cols, what = c["n"], c["rows"], c["cols"], c["what"]
        rs = np.random.RandomState(c["dseed"])
        tags = ["refuse", "what=" + what]
        good = None
        line = None
        try:
            if what.startswith("resample"):
                img = Image(rs.rand(*([3] * n)), AffineTransform(CoordinateSystem("ijk"[:n]), CoordinateSystem("xyz"[:n]),
                                                                 np.eye(n + 1)))
                tcm = AffineTransform(CoordinateSystem("ijk"[:n]), CoordinateSystem("xyz"[:n]), np.eye(n + 1))
                Mx = np.eye(max(rows, cols) + 1)[:rows, :cols].copy()
                good = (rows, cols) == (n + 1, n + 1)
                if what == "resample-pair":
                    mapping = (Mx[:rows - 1, :cols - 1].copy(), Mx[:rows - 1, cols - 1].copy())
                    good = (rows - 1, cols - 1) == (n, n)
                else:
                    mapping = Mx
                line = f"resampleshape {n} {rows} {cols}"
                out = R.resample(img, tcm, mapping, (3,) * n, order=1)
            elif what == "reg-matrix":
                mov = make_xyz_image(rs.rand(3, 3, 3), np.eye(4), "scanner")
                Mx = np.eye(6)[:rows + (4 - n - 1), :cols + (4 - n - 1)].copy()
                good = Mx.shape == (4, 4)
                out = RR.resample(mov, Mx, interp_order=1)
            elif what == "reg-ref4d":
                mov = make_xyz_image(rs.rand(3, 3, 3), np.eye(4), "scanner")
                good = False
                out = RR.resample(mov, None, ((3, 3, 3, 2), np.eye(4)), interp_order=1)
            else:
                a = Image(rs.rand(*([3] * n)), AffineTransform(CoordinateSystem("ijk"[:n]), CoordinateSystem("xyz"[:n]),
                                                               np.eye(n + 1)))
                wn = ["x", "y", "z", "t"][:n + 1]
                aff2 = np.vstack([np.eye(n + 1)[:n], np.zeros((1, n + 1)), np.eye(n + 1)[n:]])
                b = Image(rs.rand(*([3] * n)), AffineTransform(CoordinateSystem("ijk"[:n]), CoordinateSystem(wn), aff2))
                good = False
                out = R.resample_img2img(a, b, order=1)
        except Exception as e:   # noqa
            if good:
                return {"lines": [], "impl": [], "nontrivial": True, "tags": tags + ["raised"],
                        "oracle": f"{what}: a well-formed request ({rows}x{cols} mapping, n={n}) raised "
                                  f"{type(e).__name__}: {e}"}
            lines = [line] if (what.startswith("resample") and line) else []
            impl = [("err", errname(e))] if lines else []
            return {"lines": lines, "impl": impl, "oracle": None, "nontrivial": True, "tags": tags + ["refused"],
                    "mutated": None}
        if not good:
            return {"lines": [], "impl": [], "nontrivial": True, "tags": tags + ["accepted"],
                    "oracle": f"{what}: a malformed request ({rows}x{cols} mapping for n={n} / 4-D reference / "
                              f"mismatched world dimension) was accepted and an image of shape "
                              f"{np.asarray(out.get_fdata()).shape} returned"}
        lines = [line] if line else []
        return {"lines": lines, "impl": [("str", "ok")] if lines else [], "oracle": None, "nontrivial": True,
                "tags": tags + ["accepted-ok"], "mutated": None}

    # ------------------------------------------------------------------
    def compare(self, case, impl_obs, model_out):
        kind = impl_obs[0]
        if kind in ("prov", "r4", "ihist", "volh", "pcoords"):
            return self._compare_w3(case, impl_obs, model_out)
        if kind == "err":
            return None if model_out == impl_obs[1] else f"impl={impl_obs[1]} model={model_out}"
        if kind == "str":
            return None if model_out == impl_obs[1] else f"impl={impl_obs[1]!r} model={model_out!r}"
        if model_out.startswith(("error", "bad-op")):
            return f"model says {model_out}"
        if kind == "path":
            got = model_out.split(" ", 1)[0]
            return None if got == impl_obs[1] else f"routine impl={impl_obs[1]} model={got}"
        if kind in ("pathmat", "mat"):
            if kind == "pathmat":
                got, _, rest = model_out.partition(" ")
                if got != impl_obs[1]:
                    return f"routine impl={impl_obs[1]} model={got}"
            else:
                rest = model_out
            mv = [float(x) for x in parse_rats(rest)]
            iv = impl_obs[2]
            if len(mv) != len(iv):
                return f"matrix size impl={len(iv)} model={len(mv)}"
            sc = max(1.0, max(abs(x) for x in mv))
            for k, (a, b) in enumerate(zip(iv, mv)):
                if abs(a - b) > 1e-9 * sc:
                    return f"matrix/offset entry {k}: impl={a!r} model={b!r}"
            return None
        if kind == "coords":
            mv = [float(x) for x in parse_rats(model_out)]
            iv = impl_obs[1]
            if len(mv) != len(iv):
                return f"coordinate count impl={len(iv)} model={len(mv)}"
            for k, (a, b) in enumerate(zip(iv, mv)):
                if abs(a - b) > 1e-9 * max(1.0, abs(b)):
                    return f"coordinate {k}: impl={a!r} model={b!r}"
            return None
        if kind in ("dtype", "tvals"):
            pre = impl_obs[1]
            if pre == "*":
                model_out = model_out.split(" ", 1)[1] if " " in model_out else ""
            elif pre:
                if not model_out.startswith(pre):
                    return f"routine impl={pre.strip()} model={model_out.split(' ', 1)[0]}"
                model_out = model_out[len(pre):]
            if model_out.startswith(("error", "bad-op")):
                return f"model says {model_out}"
            toks = model_out.split()
            if not toks or toks[0] != impl_obs[2]:
                return f"output dtype impl={impl_obs[2]} model={toks[0] if toks else None}"
            if kind == "dtype":
                return None
            vals, tol, skip, inexact = impl_obs[3], impl_obs[4], set(impl_obs[5]), impl_obs[6]
            toks = toks[1:]
            if len(toks) != len(vals):
                return f"sample count impl={len(vals)} model={len(toks)}"
            intd = impl_obs[2] in INT_DTYPES
            for k, (a, t) in enumerate(zip(vals, toks)):
                if t == "x" or k in skip:
                    continue
                tie = t.endswith("~")
                b = float(Fraction(t.rstrip("~")))
                if intd:
                    # exact arithmetic: the rounding rule decides ties; inexact: either neighbour
                    # (inexact: Affine objects rebuilt from a matrix, spline pre-filters — a value within
                    # rounding error of a tie may go either way)
                    # an exact tie (`~`: the exact value is x.5): the float result may sit one ulp on
                    # either side of it (boundary folding, pre-filters), so either neighbour is accepted
                    # there; the rounding rules themselves are tied by the `cast` lines
                    lim = 1.0 if (inexact or tie) else 0.0
                    if abs(a - b) > lim:
                        return f"target voxel #{k}: impl={a!r} model={b!r} (dtype {impl_obs[2]})"
                elif abs(a - b) > tol:
                    return f"target voxel #{k}: impl={a!r} model={b!r}"
            return None
        if kind == "rats":
            vals, tol = impl_obs[1], impl_obs[2]
            mv = [float(x) for x in parse_rats(model_out)]
            if len(mv) != len(vals):
                return f"value count impl={len(vals)} model={len(mv)}"
            for k, (a, b) in enumerate(zip(vals, mv)):
                if abs(a - b) > tol:
                    return f"value #{k}: impl={a!r} model={b!r}"
            return None
        if kind == "interp":
            dt, kshape, coords, vals, tol = impl_obs[1:6]
            parts = model_out.split(" | ")
            if len(parts) != 4:
                return f"unparsable model output {model_out[:80]!r}"
            if parts[0].strip() != dt:
                return f"output dtype impl={dt} model={parts[0]}"
            if parts[1].split() != [str(s) for s in kshape]:
                return f"knot array shape impl={kshape} model={parts[1]}"
            mc = [float(x) for x in parse_rats(parts[2])]
            if len(mc) != len(coords) or any(abs(a - b) > 1e-9 * max(1.0, abs(b)) for a, b in zip(coords, mc)):
                return f"coordinates impl={coords[:6]} model={mc[:6]}"
            toks = parts[3].split()
            if len(toks) != len(vals):
                return f"value count impl={len(vals)} model={len(toks)}"
            for k, (a, t) in enumerate(zip(vals, toks)):
                if t != "x" and abs(a - float(Fraction(t))) > tol:
                    return f"point #{k}: impl={a!r} model={float(Fraction(t))!r}"
            return None
        if kind == "xyz":
            parts = model_out.split(" | ")
            if len(parts) != 3:
                return f"unparsable model output {model_out[:80]!r}"
            ma = [float(x) for x in parse_rats(parts[0])]
            if ma != [float(x) for x in impl_obs[1]]:
                return f"affine impl={impl_obs[1]} model={ma}"
            if parts[1].split() != [str(s) for s in impl_obs[2]]:
                return f"shape impl={impl_obs[2]} model={parts[1]}"
            md = [float(x) for x in parse_rats(parts[2])]
            if md != [float(x) for x in impl_obs[3]]:
                return "data differ"
            return None
        return "unknown observation kind"

    def shrink(self, case):
        if case.get("layout", "C") != "C":
            c = dict(case); c["layout"] = "C"
            yield c
        for key in ("sshape", "tshape"):
            if key in case:
                for i, s in enumerate(case[key]):
                    if s > 1 and not (case["kind"] == "realign"):
                        c = dict(case); c[key] = list(case[key]); c[key][i] = s - 1
                        yield c
        if case.get("order", 0) > 0 and case.get("task") != "field":
            c = dict(case); c["order"] = 0
            yield c
        if case.get("extra"):
            c = dict(case); c["extra"] = []
            yield c
        if case.get("dtype"):
            c = dict(case); c["dtype"] = None
            yield c
        if case.get("pts") and len(case["pts"]) > 1:
            for k in range(len(case["pts"])):
                c = dict(case); c["pts"] = case["pts"][:k] + case["pts"][k + 1:]
                yield c
        if case.get("vals") and len(case["vals"]) > 1:
            for k in range(len(case["vals"])):
                c = dict(case); c["vals"] = case["vals"][:k] + case["vals"][k + 1:]
                yield c
        if case.get("idx") and len(case["idx"]) > 1:
            h = len(case["idx"]) // 2
            for part in (case["idx"][:h], case["idx"][h:]):
                c = dict(case); c["idx"] = part
                yield c

    def classify(self, case, failure):
        return None


CHECK = C04()
