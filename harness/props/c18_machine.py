"""C18 (wave 3) — `LinearFilter` as an object: generator, runner and comparison of `hist2` cases.

One filter object, the caller's images (spatial, in several dtypes / memory layouts / magnitudes, with NaN / inf;
pre-transformed ones made with `_presmooth` at the moment of their first use), and a history of operations:
`smooth(img, clean, is_fft)`, `__call__(X, axis)`, `_normsq(X, axis)`, `_presmooth(data)`, assignments of
`normalization`, `scale`, `location`, `fwhm`, `cov`, and re-runs of `_setup_kernel()`.
"""
from __future__ import annotations

import math

import numpy as np

from harness.util import Snapshot, close, errname, fr, frs, parse_rats

C_FWHM = math.sqrt(8.0 * math.log(2.0))

COVS = [
    [[1, 0, 0], [0, 1, 0], [0, 0, 1]],
    [[4, 0, 0], [0, 1, 0], [0, 0, 0.25]],
    [[2, 1, 0], [1, 2, 0], [0, 0, 1]],
    [[2, 0.5, 0.25], [0.5, 1, 0], [0.25, 0, 1.5]],
    [[1, 2, 0], [2, 1, 0], [0, 0, 1]],              # not positive definite
]
IMG_VARIANTS = ["float64"] * 4 + ["int8", "int16", "uint8", "int64", "float32", "F", "neg", "strided", "ro", "int32-F"]
PT_DTYPES = ["float64"] * 5 + ["float32", "int8", "int64", "uint8", "list-float", "list-int"]
PT_LAYOUTS = ["rows", "rows", "cols", "F", "rev", "ro", "1d"]


def gen_hist2(rng, geom_part, focus):
    """`geom_part(rng, sizes)` -> (shape, aff, afftag, fwhm) is the generator of C18.py"""
    sizes = [1, 1, 2] if focus == "points" else [1, 2, 2, 3, 3, 4, 4, 5]
    shape, aff, kind, fwhm = geom_part(rng, sizes)
    if isinstance(fwhm, list):
        fwhm = fwhm[:rng.choice([3, 3, 4])]
    vs = [math.sqrt(sum(aff[r][c] ** 2 for r in range(3))) for c in range(3)]
    imgs = []
    if focus != "points":
        for _ in range(rng.choice([1, 2, 2, 3])):
            var = rng.choice(IMG_VARIANTS)
            floaty = var in ("float64", "float32", "F", "neg", "strided", "ro")
            imgs.append({"t": "s", "seed": rng.randrange(1 << 30),
                         "nan": rng.choice([0, 0, 0, 1, 2]) if floaty and var != "float32" else 0,
                         "inf": rng.choice([0, 0, 0, 0, 0, 1]) if floaty and var != "float32" else 0,
                         "var": var, "mag": rng.choice([0, 0, 0, 40, -40, 100]) if floaty else 0})
        plain = [i for i, d in enumerate(imgs) if not d["nan"] and not d["inf"]]
        for _ in range(rng.choice([0, 1, 1, 2])):
            if plain and rng.random() < 0.7:
                imgs.append({"t": "p", "of": rng.choice(plain)})       # `_presmooth(image of)` at first use
            else:
                imgs.append({"t": "p", "seed": rng.randrange(1 << 30)})  # transform of an arbitrary buffer
    else:
        imgs.append({"t": "s", "seed": 1, "nan": 0, "inf": 0, "var": "float64", "mag": 0})

    def new_fwhm():
        r = rng.random()
        if r < 0.55:
            return rng.choice([0.5, 0.75, 1.0, 1.5, 2.0, 2.5, 3.0, 4.0]) * rng.choice(vs)
        if r < 0.65:
            return -rng.choice([1.0, 2.0]) * rng.choice(vs)
        if r < 0.9:
            return [rng.choice([0.6, 1.0, 1.5, 2.0, 3.0]) * rng.choice(vs) for _ in range(rng.choice([3, 3, 4]))]
        return [rng.choice([1.0, 2.0]) for _ in range(rng.choice([1, 2]))]    # too short: IndexError when used

    def pts():
        dt = rng.choice(PT_DTYPES)
        m = rng.choice([3] * 8 + [4, 2, 1])
        return {"n": rng.choice([0, 1, 1, 2, 3, 5]), "m": m, "dtype": dt,
                "layout": rng.choice(PT_LAYOUTS), "seed": rng.randrange(1 << 30),
                "unit": rng.choice([0.5, 1.0, 1.0, 2.0, 0.25]) * rng.choice(vs),
                "voxels": rng.random() < 0.3 and m == 3 and dt == "float64"}

    def smooth_op():
        i = rng.randrange(len(imgs))
        isf = (imgs[i]["t"] == "p") if rng.random() < 0.9 else (imgs[i]["t"] != "p")
        return ["smooth", i, rng.random() < 0.35, isf]

    ops = []
    nops = rng.choice([3, 4, 6, 8, 10]) if focus != "points" else rng.choice([4, 6, 9])
    for _ in range(nops):
        r = rng.random()
        if focus == "points":
            r = 0.55 + 0.45 * r
        if r < 0.42:
            ops.append(smooth_op())
        elif r < 0.5:
            sp = [i for i, d in enumerate(imgs) if d["t"] == "s"]
            ops.append(["presmooth", rng.choice(sp) if rng.random() < 0.9 else rng.randrange(len(imgs))])
        elif r < 0.56:
            ops.append(["norm", rng.choice(["l1sum", "l1", "l2", "l2", "l1sum", "L1", "sum"])])
        elif r < 0.61:
            ops.append(["scale", rng.choice([1.0, 2.0, 0.5, -1.0, 0.0, 1024.0])])
        elif r < 0.65:
            ops.append(["loc", rng.choice([0.0, 1.0, -2.5, 64.0])])
        elif r < 0.76:
            ops.append(["fwhm", new_fwhm()])
            if rng.random() < 0.65 and focus != "points":
                ops.append(["setup"])
        elif r < 0.82:
            ops.append(["cov", rng.choice([None, None, 0, 1, 2, 3, 4])])
        elif r < 0.88 and focus != "points":
            ops.append(["setup"])
        else:
            ops.append(["call", rng.random() < 0.7, pts()])
    if focus != "points":
        firsts = [o for o in ops if o[0] == "smooth"] or [smooth_op()]
        ops.append(list(firsts[0]))
        if rng.random() < 0.4:
            ops += [["cov", None], ["setup"], list(rng.choice(firsts))]
    return {"kind": "hist2", "focus": focus, "shape": shape, "aff": aff, "afftag": kind, "fwhm": fwhm,
            "norm": rng.choice(["l1sum"] * 4 + ["l1", "l2"]), "scale": rng.choice([1.0] * 3 + [2.0, -0.5]),
            "loc": rng.choice([0.0] * 3 + [1.0, -8.0]), "imgs": imgs, "ops": ops}


def as_variant(x, var):
    """the same numbers in another dtype / memory layout (x itself when they are not representable)"""
    x = np.asarray(x, float)
    integral = bool(np.all(np.isfinite(x)) and np.all(x == np.round(x)))
    if var in ("int8", "int16", "int64", "uint8", "int32-F"):
        dt = {"int8": np.int8, "int16": np.int16, "int64": np.int64, "uint8": np.uint8, "int32-F": np.int32}[var]
        if not integral or x.min() < np.iinfo(dt).min or x.max() > np.iinfo(dt).max:
            return x
        y = x.astype(dt)
        return np.asfortranarray(y) if var == "int32-F" else y
    if var == "float32":
        y = x.astype(np.float32)
        return y if np.array_equal(y.astype(float), x, equal_nan=True) else x
    if var == "F":
        return np.asfortranarray(x)
    if var == "neg":
        return x[::-1, ::-1, ::-1].copy()[::-1, ::-1, ::-1]
    if var == "strided":
        big = np.zeros(tuple(2 * n for n in x.shape))
        big[::2, ::2, ::2] = x
        return big[::2, ::2, ::2]
    if var == "ro":
        y = x.copy(); y.flags.writeable = False
        return y
    return x


def make_points(spec, aff, shape):
    """array handed to `__call__` / `_normsq`, its axis argument, the model's rows (exact), integer?"""
    rs = np.random.RandomState(spec["seed"])
    n, m = spec["n"], spec["m"]
    if spec.get("voxels"):
        # world displacements of grid voxels from the centre voxel: what `_setup_kernel` evaluates
        A = np.asarray(aff, float)[:3, :3]
        c = (np.array(shape) - 1) // 2
        idx = np.array([[rs.randint(s) for s in shape] for _ in range(n)], float).reshape(n, 3)
        P = (idx - c) @ A.T
    else:
        P = rs.randint(-6, 7, size=(n, m)) * spec["unit"]
    dt = spec["dtype"]
    is_int = dt in ("int8", "int64", "uint8", "list-int")
    if is_int:
        P = np.round(P)
        if dt == "uint8":
            P = np.abs(P)
        P = np.clip(P, -100, 100)
    rows = [[float(v) for v in r] for r in P]
    if dt.startswith("list"):
        arr = [[int(v) for v in r] for r in P] if is_int else [[float(v) for v in r] for r in P]
        if n == 0:
            arr = np.zeros((0, m), int if is_int else float)      # an empty list has no second axis
        return arr, -1, rows, is_int, False
    npdt = {"float64": np.float64, "float32": np.float32, "int8": np.int8, "int64": np.int64, "uint8": np.uint8}[dt]
    X = P.astype(npdt)
    if dt == "float32" and not np.array_equal(X.astype(float), P):
        X = P.astype(np.float64); dt = "float64"
    lay = spec["layout"]
    axis, one_d = -1, False
    if lay == "cols":
        X, axis = np.ascontiguousarray(X.T), 0
    elif lay == "F":
        X = np.asfortranarray(X)
    elif lay == "rev":
        X = X[::-1, ::-1].copy()[::-1, ::-1]
    elif lay == "ro":
        X = X.copy(); X.flags.writeable = False
    elif lay == "1d" and n >= 1:
        X, rows, one_d = X[0].copy(), rows[:1], True
    return X, axis, rows, is_int, (dt == "float32")


def spec_E(shape, aff, f3):
    A = np.asarray(aff, float)[:3, :3]
    c = (np.array(shape) - 1) // 2
    sig = np.ones(3) * np.asarray(f3, float) / C_FWHM
    d = np.indices(tuple(shape)).reshape(3, -1).T - c
    return (((d @ A.T) / sig) ** 2).sum(1) / 2


def ename(e):
    """`errname`, with NumPy's private subclasses of TypeError (ufunc casting errors) named as what they are"""
    n = errname(e)
    if n.startswith("error:") and n[6:7].isupper() and isinstance(e, TypeError):
        return "error:typeError"
    return n


def tok(v):
    v = float(v)
    return "nan" if v != v else "inf" if v == math.inf else "-inf" if v == -math.inf else fr(v)


def run_hist2(c):
    from nipy.algorithms.kernel_smooth import LinearFilter, fwhm2sigma
    from nipy.core.api import AffineTransform, Image
    shape = tuple(c["shape"])
    aff = np.asarray(c["aff"], float)
    cm = AffineTransform.from_params("ijk", "xyz", aff)
    fw = c["fwhm"]
    tags = ["hist2", "hist2-" + c["focus"], "aff=" + c["afftag"]]
    res = {"lines": [], "impl": [], "oracle": None, "nontrivial": False, "tags": tags, "mutated": None}
    # exponents within 1e-9 of the cut-off under any width the history builds a kernel with: not judged
    widths = [fw] + [o[1] for o in c["ops"] if o[0] == "fwhm"]
    for wv in widths:
        if isinstance(wv, list) and len(wv) < 3:
            continue
        f3 = wv[:3] if isinstance(wv, list) else wv
        if np.any(np.abs(spec_E(shape, aff, f3) - 15) < 1e-9):
            tags.append("boundary")
            return res
    try:
        lf = LinearFilter(cm, shape, fwhm=fw, scale=c["scale"], location=c["loc"])
        lf.normalization = c["norm"]
    except Exception as e:
        res["oracle"] = f"LinearFilter(shape={shape}, fwhm={fw}) raised {type(e).__name__}: {e}"
        return res
    N = int(np.prod(shape))

    def sig_of(v):
        f = np.asarray(fwhm2sigma(v), float)
        return list(np.ones(3) * f) if f.shape == () else [float(t) for t in f]

    def built_obs():
        k = np.asarray(lf._kernel)
        return ("built", list(k.shape), [int(v) for v in lf._kcenter], [int(v) for v in lf.shape],
                [float(lf.norms["l1sum"]), float(lf.norms["l1"]), float(lf.norms["l2"]) ** 2], k.ravel().tolist())

    def ktoks():
        k = np.asarray(lf._kernel)
        return f"{k.size} {frs(k.ravel())} {fr(float(lf.norms['l2']))}"

    head = (f"hist2 {shape[0]} {shape[1]} {shape[2]} {frs(aff[:3, :3].ravel())} {frs(aff[:3, 3])} "
            f"{len(fw) if isinstance(fw, list) else 1} {frs(fw if isinstance(fw, list) else [fw])} "
            f"{len(sig_of(fw))} {frs(sig_of(fw))} {c['norm']} {fr(c['scale'])} {fr(c['loc'])} {ktoks()}")
    outs = [built_obs()]
    res["nontrivial"] = bool(max(np.asarray(lf._kernel).shape) > 1) or c["focus"] == "points"

    # the caller's images
    arrays, datas, itoks, pre_shape = [], [], [], []
    for d in c["imgs"]:
        if d["t"] == "s":
            rs = np.random.RandomState(d["seed"])
            x = (rs.randint(-4, 5, size=shape) * (rs.rand(*shape) < 0.5)).astype(float)
            if d["var"] == "uint8":
                x = np.abs(x)
            x = x * (2.0 ** d["mag"])
            for _ in range(d["nan"]):
                x.flat[rs.randint(N)] = np.nan
            for _ in range(d["inf"]):
                x.flat[rs.randint(N)] = rs.choice([np.inf, -np.inf])
            a = as_variant(x, d["var"])
            arrays.append(a); datas.append(x)
            itoks.append("s " + " ".join(tok(v) for v in x.ravel())); pre_shape.append(None)
        else:
            arrays.append(None); datas.append(None); itoks.append(None); pre_shape.append(None)
    images = [None if a is None else Image(a, cm) for a in arrays]
    snap = Snapshot(**{f"img{i}": a for i, a in enumerate(arrays) if a is not None})
    fails = []

    def materialise(i):
        """a pre-transformed image comes into being at its first use, for the padded shape of that moment"""
        d = c["imgs"][i]
        P = tuple(int(v) for v in lf.shape)
        if "of" in d:
            buf = np.zeros(P); buf[:shape[0], :shape[1], :shape[2]] = datas[d["of"]]
            try:
                spec = lf._presmooth(np.asarray(images[d["of"]].get_fdata()))
            except Exception:
                spec = np.fft.rfftn(buf)
            tags.append("hist2-pre-via-presmooth")
        else:
            rs = np.random.RandomState(d["seed"])
            buf = (rs.randint(-4, 5, size=P) * (rs.rand(*P) < 0.3)).astype(float)
            spec = np.fft.rfftn(buf)
        arrays[i] = spec; datas[i] = buf; pre_shape[i] = P
        images[i] = Image(spec, cm)
        itoks[i] = f"p {P[0]} {P[1]} {P[2]} " + frs(buf.ravel())
        snap.objs[f"img{i}"] = spec
        from harness.util import digest
        snap.before[f"img{i}"] = digest(spec)

    optoks, seen = [], {}
    build_id, wild = 0, False
    settings = [c["norm"], c["scale"], c["loc"]]
    cur_fw = fw

    def gain():
        try:
            return float(lf.norms["l1sum"]) / abs(float(lf.norms[lf.normalization]))
        except Exception:
            return 1.0

    for k, op in enumerate(c["ops"]):
        kind = op[0]
        if kind == "smooth":
            _, i, cl, isf = op
            if images[i] is None:
                materialise(i)
            optoks.append(f"smooth {i} {int(cl)} {int(isf)}")
            d = c["imgs"][i]
            x = datas[i]
            fin = x[np.isfinite(x)]
            xmax = float(np.abs(fin).max()) if fin.size else 0.0
            tol = 1e-9 * (abs(float(lf.scale)) * xmax * gain() + abs(float(lf.location))) + 1e-290
            try:
                o = np.asarray(lf.smooth(images[i], clean=bool(cl), is_fft=bool(isf)).get_fdata())
                if wild:
                    ob = "unspecified"
                elif o.shape != shape:
                    fails.append(f"op {k}: smooth returned shape {o.shape} for grid {shape}")
                    ob = "shape"
                elif not np.all(np.isfinite(o)):
                    ob = "nonfinite"
                else:
                    ob = ("v", o.ravel().tolist(), tol)
            except Exception as e:
                ob = "unspecified" if wild else ename(e)
            outs.append(ob)
            tags.append("hist2-isfft" if isf else "hist2-clean" if cl else "hist2-plain")
            if d["t"] == "s" and d["var"] != "float64":
                tags.append("hist2-img-" + d["var"])
            if d["t"] == "s" and d.get("mag"):
                tags.append("hist2-img-mag")
            if isinstance(ob, str) and ob.startswith("error"):
                tags.append("hist2-" + ob)
            key = (i, bool(cl), bool(isf), tuple(settings), build_id)
            if key in seen and not wild:
                k0, o0 = seen[key]
                if isinstance(ob, str) != isinstance(o0, str) or (isinstance(ob, str) and ob != o0) or (
                        not isinstance(ob, str) and not np.all(np.abs(np.array(ob[1]) - np.array(o0[1])) <= ob[2])):
                    fails.append(f"smooth(image {i}, clean={bool(cl)}, is_fft={bool(isf)}) answered differently at operations "
                                 f"{k0} and {k} of one history on the same filter object with no _setup_kernel() and the same "
                                 f"settings in between [shape={shape} fwhm={fw} ops={c['ops']}]")
                tags.append("hist2-repeat")
            elif not wild:
                seen[key] = (k, ob)
            # a filter built afresh with the current width must smooth alike (is the kernel the requested Gaussian?)
            if (not wild and not isinstance(ob, str) and d["t"] == "s" and not isf and build_id > 0
                    and lf.cov is None and not fails):
                try:
                    ref = LinearFilter(cm, shape, fwhm=built_fw, scale=lf.scale, location=lf.location)
                    ref.normalization = lf.normalization
                    o2 = np.asarray(ref.smooth(Image(np.asarray(x, float), cm), clean=bool(cl)).get_fdata())
                    if not np.all(np.abs(o2 - np.array(ob[1]).reshape(shape)) <= 4 * ob[2]):
                        fails.append(f"after fwhm = {built_fw} and _setup_kernel(), smooth differs from a filter constructed with "
                                     f"that width [shape={shape} ops={c['ops'][:k + 1]}]")
                    tags.append("hist2-vs-fresh")
                except Exception:
                    pass
        elif kind == "presmooth":
            i = op[1]
            if images[i] is None:
                materialise(i)
            optoks.append(f"presmooth {i}")
            try:
                sp = lf._presmooth(np.asarray(images[i].get_fdata()))
                P = tuple(int(v) for v in lf.shape)
                back = np.fft.irfftn(sp, s=P)
                if wild:
                    ob = "unspecified"
                elif not np.all(np.isfinite(back)):
                    ob = "nonfinite"
                else:
                    ob = ("v", back.ravel().tolist(), 1e-9 * float(np.abs(back).max()) + 1e-290)
            except Exception as e:
                ob = "unspecified" if wild else ename(e)
            outs.append(ob)
            tags.append("hist2-presmooth")
        elif kind in ("norm", "scale", "loc"):
            optoks.append(f"{kind} {op[1] if kind == 'norm' else fr(op[1])}")
            if kind == "norm":
                lf.normalization = op[1]; settings[0] = op[1]
            elif kind == "scale":
                lf.scale = op[1]; settings[1] = op[1]
            else:
                lf.location = op[1]; settings[2] = op[1]
            outs.append("unit")
        elif kind == "fwhm":
            v = op[1]
            lf.fwhm = v
            cur_fw = v
            vl = v if isinstance(v, list) else [v]
            sg = sig_of(v)
            optoks.append(f"fwhm {len(vl)} {frs(vl)} {len(sg)} {frs(sg)}")
            outs.append("unit")
            tags.append("hist2-set-fwhm")
        elif kind == "cov":
            if op[1] is None:
                lf.cov = None
                optoks.append("cov none")
            else:
                cov = np.asarray(COVS[op[1]], float)
                lf.cov = cov
                try:
                    W = np.linalg.inv(np.linalg.cholesky(cov)); pd = 1
                except np.linalg.LinAlgError:
                    W = np.eye(3); pd = 0
                optoks.append(f"cov {pd} {frs(W.ravel())}")
            outs.append("unit")
            tags.append("hist2-set-cov")
        elif kind == "setup":
            try:
                lf._setup_kernel()
                if lf.cov is not None:
                    wild = True
                    outs.append("unspecified")
                    optoks.append("setup 0 0")
                    tags.append("hist2-setup-wild")
                else:
                    wild = False
                    outs.append(built_obs())
                    optoks.append("setup " + ktoks())
                    tags.append("hist2-setup-ok")
                    build_id += 1
                    built_fw = cur_fw
            except Exception as e:
                outs.append(ename(e))
                optoks.append("setup 0 0")
                tags.append("hist2-setup-" + ename(e)[6:])
        elif kind == "call":
            half, spec = op[1], op[2]
            X, axis, rows, is_int, f32 = make_points(spec, aff, shape)
            one_d = isinstance(X, np.ndarray) and X.ndim == 1
            xs = Snapshot(X=X) if isinstance(X, np.ndarray) else None
            optoks.append(f"call {int(half)} {int(is_int)} {int(one_d)} {spec['m']} {len(rows)} "
                          + " ".join(frs(r) for r in rows))
            try:
                v = lf(X, axis=axis) if half else lf._normsq(X, axis=axis)
                v = np.asarray(v, float)
                if (one_d and v.shape != ()) or (not one_d and v.shape != (len(rows),)):
                    fails.append(f"op {k}: kernel evaluation on {len(rows)} points returned shape {v.shape}")
                ob = ("pts", bool(half), v.ravel().tolist(), 1e-6 if f32 else 1e-12)
                if not one_d and len(rows) and isinstance(X, np.ndarray) and not f32:
                    v2 = np.asarray(lf(np.ascontiguousarray(np.swapaxes(X, 0, 1)), axis=(0 if axis == -1 else -1))
                                    if half else lf._normsq(np.ascontiguousarray(np.swapaxes(X, 0, 1)), axis=(0 if axis == -1 else -1)), float)
                    if v2.shape != v.shape or not np.allclose(v2, v, rtol=1e-12, atol=0):
                        fails.append(f"op {k}: kernel evaluation depends on which axis holds the coordinates")
            except Exception as e:
                ob = ename(e)
            if xs is not None and xs.changed() and not res["mutated"]:
                res["mutated"] = "LinearFilter.__call__:X"
                fails.append(f"op {k}: kernel evaluation changed the caller's array of points")
            outs.append(ob)
            tags.append("hist2-call-" + spec["dtype"] + ("" if isinstance(ob, tuple) else "-" + ob[6:]))
            tags.append("hist2-call-" + ("1d" if one_d else spec["layout"]))
            if lf.cov is not None and isinstance(ob, tuple):
                tags.append("hist2-call-cov")
            if spec.get("voxels") and isinstance(ob, tuple) and half and lf.cov is None and not wild and len(rows):
                # the stored kernel is `self(X, axis=0)` at the voxels' world displacements — if the width was not
                # re-assigned since the kernel was built
                if cur_fw == (built_fw if build_id else fw):
                    A = aff[:3, :3]
                    cvox = (np.array(shape) - 1) // 2
                    full = np.zeros(shape)
                    kc = lf._kcenter; ksh = np.asarray(lf._kernel).shape
                    lo = [int(cvox[t]) - int(kc[t]) for t in range(3)]
                    full[lo[0]:lo[0] + ksh[0], lo[1]:lo[1] + ksh[1], lo[2]:lo[2] + ksh[2]] = lf._kernel
                    idx = np.rint(np.linalg.solve(A, np.array(rows).T).T + cvox).astype(int)
                    want = np.array([full[tuple(j)] for j in idx])
                    if not np.allclose(want, np.array(ob[2]), rtol=1e-9, atol=1e-15):
                        fails.append(f"op {k}: the stored kernel differs from __call__ on the voxels' world displacements")
                    tags.append("hist2-kernel-vs-call")
    m = snap.changed()
    if m:
        res["mutated"] = "LinearFilter:" + m
        fails.append(f"a history of operations on one filter changed the caller's image data ({m}) "
                     f"[shape={shape} fwhm={fw} ops={c['ops']}]")
    finals = []
    used = [i for i in range(len(images)) if images[i] is not None]
    remap = {i: t for t, i in enumerate(used)}
    for i in used:
        d = c["imgs"][i]
        dat = np.asarray(images[i].get_fdata())
        if d["t"] == "s":
            finals.append(("s", "s " + " ".join(tok(v) for v in dat.ravel())))
        else:
            P = pre_shape[i]
            finals.append(("p", np.fft.irfftn(np.asarray(arrays[i]), s=P).ravel().tolist(),
                           1e-9 * (1.0 + float(np.abs(datas[i]).max()))))
    # images never used are left out of the line; indices are renumbered
    def renum(t):
        p = t.split()
        if p[0] in ("smooth", "presmooth"):
            p[1] = str(remap[int(p[1])])
        return " ".join(p)
    line = (f"{head} {len(used)} {' '.join(itoks[i] for i in used)} {len(optoks)} {' '.join(renum(t) for t in optoks)}")
    res["lines"].append(" ".join(line.split()))
    res["impl"].append(("hist2", outs, finals))
    if fails:
        res["oracle"] = fails[0]
    return res


def _cmp_exps(es, vals, rtol):
    if len(es) != len(vals):
        return f"length impl={len(vals)} model={len(es)}"
    for k, (v, e) in enumerate(zip(vals, es)):
        if e == "x":
            if v != 0.0 and abs(-math.log(v) - 15) > 1e-6:
                return f"[{k}] impl={v!r} model: cut off"
        else:
            ef = float(parse_rats(e)[0])
            if not close(v, math.exp(-ef), max(rtol, 1e-9) * max(1.0, ef), 0) and not (v == 0.0 and abs(ef - 15) < 1e-6):
                return f"[{k}] impl={v!r} model exp(-{ef!r})"
    return None


def compare_hist2(impl_obs, model_out):
    _, outs, finals = impl_obs
    left, sep, right = model_out.partition(" || ")
    if not sep:
        return f"model says {model_out[:80]}"
    mouts = left.split(" ; ")
    mimgs = right.split(" ; ") if right.strip() else []
    if len(mouts) != len(outs) or len(mimgs) != len(finals):
        return f"history length impl={len(outs)}/{len(finals)} model={len(mouts)}/{len(mimgs)}"
    for k, (o, m) in enumerate(zip(outs, mouts)):
        m = m.strip()
        what = "constructor" if k == 0 else f"op {k - 1}"
        if m == "unspecified" and (isinstance(o, str) or o[0] in ("v", "pts")):
            continue
        if isinstance(o, str):
            if o != m:
                return f"{what}: impl={o} model={m[:60]}"
            continue
        if o[0] == "v":
            if not m.startswith("v "):
                return f"{what}: impl returned values, model says {m[:60]}"
            mv = parse_rats(m[2:])
            if len(mv) != len(o[1]):
                return f"{what}: length impl={len(o[1])} model={len(mv)}"
            for j, (a, b) in enumerate(zip(o[1], mv)):
                if abs(float(a) - float(b)) > o[2]:
                    return f"{what} index {j}: impl={float(a)!r} model={float(b)!r}"
        elif o[0] == "built":
            if not m.startswith("b "):
                return f"{what}: impl built a kernel of shape {o[1]}, model says {m[:60]}"
            headp, _, tail = m[2:].partition(" | ")
            t = headp.split()
            h = [int(v) for v in t[:9]]
            if h[0:3] != o[1] or h[3:6] != o[2] or h[6:9] != o[3]:
                return f"{what}: kernel shape/centre/padded impl={o[1]}/{o[2]}/{o[3]} model={h[0:3]}/{h[3:6]}/{h[6:9]}"
            for a, b in zip(o[4], parse_rats(" ".join(t[9:12]))):
                if not close(a, b, 1e-12, 0):
                    return f"{what}: norms impl={o[4]} model={[float(v) for v in parse_rats(' '.join(t[9:12]))]}"
            r = _cmp_exps(tail.split(), o[5], 1e-9)
            if r:
                return f"{what}: kernel{r}"
        elif o[0] == "pts":
            if not (m == "e" or m.startswith("e ")):
                return f"{what}: impl evaluated {len(o[2])} points, model says {m[:60]}"
            es = m[1:].split()
            if o[1]:
                r = _cmp_exps(es, o[2], o[3])
                if r:
                    return f"{what}: __call__{r}"
            else:
                if len(es) != len(o[2]):
                    return f"{what}: length impl={len(o[2])} model={len(es)}"
                for j, (a, b) in enumerate(zip(o[2], es)):
                    if not close(a, parse_rats(b)[0], o[3], 0):
                        return f"{what}: _normsq[{j}] impl={a!r} model={float(parse_rats(b)[0])!r}"
    for k, (f, m) in enumerate(zip(finals, mimgs)):
        m = m.strip()
        if f[0] == "s":
            if f[1] != m:
                return f"caller image {k} after the history: impl differs from the model (unchanged)"
        else:
            mv = parse_rats(m[2:])
            if len(mv) != len(f[1]):
                return f"caller image {k}: length impl={len(f[1])} model={len(mv)}"
            for j, (a, b) in enumerate(zip(f[1], mv)):
                if abs(float(a) - float(b)) > f[2]:
                    return (f"caller's pre-transformed image {k} after the history: buffer index {j} "
                            f"impl={float(a)!r} model (unchanged)={float(b)!r}")
    return None
