"""C05 — linear-model fits are least-squares optimal and implementation-independent.

Correspondence: OLSModel / WLSModel / ARModel / GLSModel fits (theta, whitened residuals,
dispersion, df_resid, normalized_cov_beta, predicted, t/F contrast pieces), labs `ols`,
the C Kalman filter of lib/fff (re-compiled) and the installed `kalman.ols` wrapper,
`GeneralLinearModel.fit(model='ar1')` (bins, get_beta, get_mse) — each against the exact
rational Lean model.  Oracle: the clauses of the property evaluated on the real code
(orthogonality, optimality vs an independent lstsq, reparametrisation / voxel order /
grouping / scale invariance, reductions between the model classes, agreement of the
separate GLM implementations).
"""
from __future__ import annotations

import ast
import ctypes as C
import os
import re
import warnings

import numpy as np

from harness.core import PropertyCheck, TieBroken
from harness.util import Snapshot, errname, fr, frs, parse_rats, pmat
from harness.props import c05_results as RS
from harness.props import c05_more as MR
from harness.props import c05_w3 as W3

LAMBDA = 1e-7          # 1 / FFF_GLM_KALMAN_INIT_VAR
KEY_KALMAN_S2 = "kalman-s2-uncorrected"


# ----------------------------------------------------------------------
# generators
# ----------------------------------------------------------------------
def _rank(X):
    return int(np.linalg.matrix_rank(np.asarray(X, float)))


def _design(rng, n, p, kind):
    """dyadic design of full column rank"""
    for _ in range(200):
        if kind == "int":
            X = [[float(rng.randint(-3, 3)) for _ in range(p)] for _ in range(n)]
        elif kind == "intercept":
            X = [[1.0] + [float(rng.randint(-4, 4)) for _ in range(p - 1)] for _ in range(n)]
        elif kind == "dyadic":
            X = [[rng.randint(-64, 64) / 16.0 for _ in range(p)] for _ in range(n)]
        elif kind == "ill":      # nearly collinear columns, condition number ~ 2**k
            k = rng.choice([4, 6, 8, 10])
            base = [float(rng.randint(-3, 3)) for _ in range(n)]
            X = []
            for i in range(n):
                row = [base[i]]
                for j in range(1, p):
                    row.append(base[i] + rng.randint(-3, 3) / float(2 ** k) if j == 1
                               else float(rng.randint(-3, 3)))
                X.append(row)
        elif kind == "units":    # regressors in very different units: full rank, condition number 2**20 .. 2**36
            X = [[rng.randint(-64, 64) / 16.0 for _ in range(p)] for _ in range(n)]
            sc = [1.0] + [2.0 ** rng.choice([-18, -14, -10, 0, 10, 14, 18]) for _ in range(p - 1)]
            if p >= 2 and max(sc) / min(sc) < 2.0 ** 20:
                sc[1] = 2.0 ** 14; sc[-1] = sc[-1] if p == 2 else 2.0 ** -13
            X = [[v * f for v, f in zip(row, sc)] for row in X]
        else:                    # "drift": polynomial-like columns (moderately ill conditioned)
            X = [[float((i - n // 2) ** j) / float(2 ** (2 * j)) for j in range(p)] for i in range(n)]
        if _rank(X) == p:
            return X
    return [[1.0 if i == j else 0.0 for j in range(p)] for i in range(n)]


def _presented(A, dtype=None, layout=None):
    """the same numbers as the caller may hold them: in an integer / float32 dtype when they are exactly
    representable there, Fortran-ordered or as a strided view"""
    A = np.asarray(A, float)
    out = A
    if dtype:
        B = A.astype(dtype)
        if np.array_equal(B.astype(float), A):
            out = B
    if layout == "F":
        out = np.asfortranarray(out)
    elif layout == "strided" and out.ndim == 2:
        big = np.zeros((out.shape[0], 2 * out.shape[1]), dtype=out.dtype)
        big[:, ::2] = out
        out = big[:, ::2]
    return out


def _data(rng, n, v, kind):
    if kind == "int":
        return [[float(rng.randint(-6, 6)) for _ in range(v)] for _ in range(n)]
    if kind == "dyadic":
        return [[rng.randint(-200, 200) / 8.0 for _ in range(v)] for _ in range(n)]
    # smooth (autocorrelated) integer data: AR(1) bins away from 0
    out, cur = [], [rng.randint(-4, 4) for _ in range(v)]
    for _ in range(n):
        cur = [c + rng.randint(-2, 2) for c in cur]
        out.append([float(c) for c in cur])
    return out


def _sizes(rng, tier):
    r = rng.random()
    if r < 0.6:
        n = rng.randint(3, 8)
    elif r < 0.9:
        n = rng.randint(9, 16)
    else:
        n = rng.choice([24, 40]) if tier == "quick" else rng.choice([24, 40, 64, 100, 200])
    p = rng.randint(1, min(n - 1, 4 if n <= 16 else 6))
    if rng.random() < 0.1:
        p = min(n - 1, 6)            # n - p = 1 also for small n
        if rng.random() < 0.5:
            p = n - 1 if n <= 8 else p
    v = rng.choice([1, 1, 2, 3, 4, 6])
    return n, p, v


def _pacf_to_ar(pac):
    """Levinson–Durbin: partial autocorrelations in (-1,1) -> stationary AR coefficients"""
    a = []
    for k, r in enumerate(pac):
        a = [a[j] - r * a[k - 1 - j] for j in range(k)] + [r]
    return a


def _unimodular(rng, p):
    """integer matrix with determinant +-1 (product of elementary operations)"""
    T = np.eye(p)
    for _ in range(2 * p):
        i, j = rng.randrange(p), rng.randrange(p)
        if i != j:
            T[:, i] += rng.choice([-2, -1, 1, 2]) * T[:, j]
    if p > 1 and rng.random() < 0.5:
        i, j = rng.sample(range(p), 2)
        T[:, [i, j]] = T[:, [j, i]]
    return T.tolist()


def _invertible(rng, p):
    """dyadic invertible reparametrisation: unimodular times a positive dyadic diagonal"""
    T = np.array(_unimodular(rng, p))
    d = [rng.choice([0.25, 0.5, 1.0, 2.0, 3.0]) for _ in range(p)]
    return (T * np.array(d)).tolist()


# ----------------------------------------------------------------------
# C Kalman filter through ctypes (re-compiled from /repo/lib/fff)
# ----------------------------------------------------------------------
class _Vec(C.Structure):
    _fields_ = [("size", C.c_size_t), ("stride", C.c_size_t), ("data", C.POINTER(C.c_double)),
                ("owner", C.c_int)]


class _Mat(C.Structure):
    _fields_ = [("size1", C.c_size_t), ("size2", C.c_size_t), ("tda", C.c_size_t),
                ("data", C.POINTER(C.c_double)), ("owner", C.c_int)]


class _KF(C.Structure):
    _fields_ = [("t", C.c_size_t), ("dim", C.c_size_t), ("b", C.POINTER(_Vec)), ("Vb", C.POINTER(_Mat)),
                ("Cby", C.POINTER(_Vec)), ("ssd", C.c_double), ("s2", C.c_double), ("dof", C.c_double),
                ("s2_cor", C.c_double)]


_LIB = None


def _fff():
    global _LIB
    if _LIB is None:
        import time
        from harness import cshim
        lib = None
        for attempt in range(6):     # several workers may compile the same cache entry at once
            try:
                lib = cshim.load("fff")
                break
            except (OSError, RuntimeError):
                if attempt == 5:
                    raise
                time.sleep(0.5 + attempt)
        lib.fff_glm_KF_new.restype = C.POINTER(_KF)
        lib.fff_glm_KF_new.argtypes = [C.c_size_t]
        lib.fff_glm_KF_fit.argtypes = [C.POINTER(_KF), C.POINTER(_Vec), C.POINTER(_Mat)]
        lib.fff_glm_KF_fit.restype = None
        lib.fff_glm_KF_delete.argtypes = [C.POINTER(_KF)]
        lib.fff_glm_KF_delete.restype = None
        _LIB = lib
    return _LIB


def c_kalman(X, Y):
    """fff_glm_KF_fit per column: (B, s2, dof, s2_cor, Vb of the last column)"""
    lib = _fff()
    X = np.ascontiguousarray(X, float)
    n, p = X.shape
    v = Y.shape[1]
    B = np.zeros((p, v)); s2 = np.zeros(v); s2c = np.zeros(v); dof = 0.0
    Vb = np.zeros((p, p))
    k = lib.fff_glm_KF_new(p)
    try:
        xm = _Mat(n, p, p, X.ctypes.data_as(C.POINTER(C.c_double)), 0)
        for j in range(v):
            y = np.ascontiguousarray(Y[:, j], float)
            yv = _Vec(n, 1, y.ctypes.data_as(C.POINTER(C.c_double)), 0)
            lib.fff_glm_KF_fit(k, C.byref(yv), C.byref(xm))
            c = k.contents
            bs = c.b.contents
            B[:, j] = [bs.data[i * bs.stride] for i in range(p)]
            s2[j], s2c[j], dof = c.s2, c.s2_cor, c.dof
            vm = c.Vb.contents
            Vb = np.array([[vm.data[a * vm.tda + b] for b in range(p)] for a in range(p)])
    finally:
        lib.fff_glm_KF_delete(k)
    return B, s2, dof, s2c, Vb


# ----------------------------------------------------------------------
# helpers
# ----------------------------------------------------------------------
def _cond(A):
    s = np.linalg.svd(np.asarray(A, float), compute_uv=False)
    return float(s.max() / s.min()) if s.min() > 0 else float("inf")


def _bfloor(wX, ys):
    """natural size of a coefficient: data scale over the largest singular value of the design
    (keeps relative comparisons meaningful when the exact coefficient is 0)"""
    smax = float(np.linalg.svd(np.asarray(wX, float), compute_uv=False).max())
    return ys / smax if smax > 0 else ys


def _rtol(cond):
    return max(1e-9, 1e-14 * cond * cond)


def _near(a, b, rtol, scale):
    a = np.asarray(a, float); b = np.asarray(b, float)
    if a.shape != b.shape:
        return False
    if not (np.all(np.isfinite(a)) and np.all(np.isfinite(b))):
        return False
    return bool(np.all(np.abs(a - b) <= rtol * np.maximum(scale, np.maximum(np.abs(a), np.abs(b))) + 1e-300))


def _worst(a, b):
    a = np.asarray(a, float); b = np.asarray(b, float)
    i = np.unravel_index(int(np.argmax(np.abs(a - b))), a.shape) if a.size else ()
    return f"{a[i]!r} vs {b[i]!r} at {tuple(int(k) for k in i)}"


def _whiten_independent(w, A):
    """whitening written independently of nipy (for the oracle)"""
    A = np.asarray(A, float)
    if w["kind"] == "ols":
        return A.copy()
    if w["kind"] == "wls":
        return A * (np.asarray(w["c"], float) ** 2)[:, None] ** 0.5
    if w["kind"] == "ar":
        out = A.copy()
        for t in range(A.shape[0]):
            for i, r in enumerate(w["rho"]):
                if t - i - 1 >= 0:
                    out[t] -= r * A[t - i - 1]
        return out
    S = np.asarray(w["sigma"], float)
    import scipy.linalg as spl
    L = spl.cholesky(np.linalg.inv(S), lower=True)     # L L' = S^-1 ; any W with W'W = S^-1 will do
    return L.T @ A


def _make_model(reg, w, X):
    if w["kind"] == "ols":
        return reg.OLSModel(X)
    if w["kind"] == "wls":
        return reg.WLSModel(X, weights=np.asarray(w["c"], float) ** 2)
    if w["kind"] == "ar":
        return reg.ARModel(X, np.asarray(w["rho"], float))
    return reg.GLSModel(X, np.asarray(w["sigma"], float))


def _wline(w, m):
    if w["kind"] == "ols":
        return "ols"
    if w["kind"] == "wls":
        # the model works with sqrt(weights) as the implementation computed it
        return "wls " + frs(np.sqrt(np.asarray(m.weights, float)).tolist())
    if w["kind"] == "ar":
        return f"ar {len(w['rho'])} " + frs(w["rho"]) if w["rho"] else "ar 0"
    return "gls " + frs(np.asarray(m.cholsigmainv, float).ravel().tolist())


def _wscale(w, m):
    if w["kind"] == "ols":
        return 1.0
    if w["kind"] == "wls":
        return float(np.max(np.abs(w["c"])))
    if w["kind"] == "ar":
        return 1.0 + float(np.sum(np.abs(w["rho"])))
    return float(np.max(np.sum(np.abs(m.cholsigmainv), axis=1)))


def RS_drop_last(op, p):
    """the operation restricted to the first p-1 parameters (None if it needs the last one)"""
    op = dict(op)
    last = (p - 1, -1)

    def okc(c):
        return c not in last and c >= -(p - 1)

    kind = op["op"]
    if kind == "t":
        col = op["col"]
        if col is None:
            return op
        if isinstance(col, int):
            return op if okc(col) else None
        return op if all(okc(c) for c in col) else None
    if kind == "vcov":
        how = op["how"]
        if how == "col":
            return op if okc(op["col"]) else None
        if how == "cols":
            return op if all(okc(c) for c in op["cols"]) else None
        if how == "mat":
            op["M"] = [r[:-1] for r in op["M"]]
            if op.get("O") is not None:
                op["O"] = [r[:-1] for r in op["O"]]
        return op
    if kind == "tcon":
        op["c"] = op["c"][:-1]
        return op if any(op["c"]) else None
    if kind == "fcon":
        M = [r[:-1] for r in op["M"]]
        if _rank(M) < len(M):
            return None
        op["M"] = M
        return op
    if kind == "ci":
        if op["cols"] is None:
            return op
        return op if all(okc(c) for c in op["cols"]) else None
    if kind == "score":
        op["delta"] = op["delta"][:-1]
    return op


class C05(PropertyCheck):
    id = "C05"
    title = "Linear-model fits are least-squares optimal and implementation-independent"
    lean_modules = ["NipyVerif.Props.C05", "NipyVerif.Props.C05B", "NipyVerif.Props.C05C", "NipyVerif.Props.C05T",
                    "NipyVerif.Props.C05E", "NipyVerif.Props.C05F", "NipyVerif.Props.C05G", "NipyVerif.Props.C05H"]
    driver = "Drivers/C05.lean"
    rule = ("cases are tuples from a seeded PRNG, of ten kinds: models (design, data block, covariance structure, "
            "contrast, reparametrisation, voxel selection); engines (the separate GLM implementations on one problem); "
            "glmar1 / fmri (fMRI GLM with AR(1) binning, steps, contrasts, FMRILinearModel on in-memory images); "
            "results (a *history* of operations on one results object - t / vcov / Tcontrast / Fcontrast / conf_int / "
            "score / summary statistics with every kind of column, matrix, store, invcov and dispersion argument - on "
            "blocks of 1..7 responses, on purpose often as many responses as parameters, 1-D data, C and Fortran "
            "layout); ar (whitening orders 1..3 inside and outside the stationarity region, yule_walker, "
            "ar_bias_corrector / ar_bias_correct / AREstimator, iterative_fit followed by fit on the same object); "
            "labs3 (both labs engines along every axis of a 3-D block, three memory layouts); matrices (pos_recipr / "
            "recipr0 incl. zeros, signs, extremes, integer input; matrix_rank / full_rank on exact rank-deficient "
            "matrices); refuse (malformed calls, abstract base classes).  Dyadic designs of full column rank (integer, "
            "with intercept, dyadic, nearly collinear, polynomial drift), n 3..40 quick / ..200 thorough, p 1..n-1; "
            "non-trivial = p >= 2 or at least 2 voxels or a non-identity covariance structure or any results / ar / "
            "labs3 / fmri / matrices case; distinct by full JSON of the case.  Wave 3 adds eight kinds: hist (operation "
            "histories on ONE model object: several fits with different blocks / dtypes / layouts / 1-D data, accessors of "
            "earlier results observed between and after later fits, ARModel.iterative_fit and assignment of rho between "
            "fits), yw2 (yule_walker: every method spelling, df None / 0 / n / other, inv flags, orders 0..n+1, the series "
            "as list / tuple / int / float32 / strided / reversed / read-only, magnitudes 2^-20..2^20 and negative "
            "factors), gls (GLSModel with positive definite, diagonal 2^-20..2^20, ill-conditioned, indefinite and "
            "semi-definite sigma in several dtypes / layouts), estim (isestimable on designs of every exact rank, dummy "
            "coding, columns in different units, 1-D / 2-D / malformed contrasts), bias2 (ar_bias_correct through results, "
            "residual arrays incl. N-d, results carrying a scale, AREstimator reused for several fits, whitened "
            "calc_beta, orders 0..3), bins (fMRI GLM getters for prescribed layouts of the AR(1) bins - same / distinct / "
            "interleaved / blocks / outlier - with every form of column_index incl. tuples, refits on the same object), "
            "labsnd (labs glm on 3-D blocks for every axis, grid shapes incl. singleton axes, t / F / tmin contrasts, "
            "both engines, three layouts) and rkf (the refined Kalman filter re-compiled from the tree, niter 1..4)")
    assumptions = [
        "numpy.linalg.pinv returns (a rounding of) the Moore-Penrose inverse: the model's (X'X)^-1 X' with a certified "
        "exact inverse *is* that inverse (theorems pinv_is_moore_penrose, pinv_unique); checked to a "
        "condition-number-scaled tolerance per case",
        "matrix_rank (SVD with the MATLAB tolerance) equals the exact rank on the generated exact matrices; the model's "
        "rank carries a certificate and is proved equal to Mathlib's Matrix.rank (rankCert_sound); a successful fit "
        "implies full column rank (fit_implies_full_rank)",
        "square roots, the Student quantile (scipy t.ppf) and log are parameters of the model: the model returns "
        "variances / centres and the harness applies sqrt, the quantile and log to them; WLS works with "
        "c = sqrt(weights) as computed by the implementation, GLS with the implementation's cholsigmainv (oracle "
        "checks W'W = sigma^-1 numerically)",
        "IEEE rounding: implementation floats are compared with the exact rational answer to "
        "max(1e-9, 1e-14*cond^2) relative to the size of the block (ratios t / F / R2 / logL 1e3 times that, and not "
        "at all on numerically perfect fits); the C Kalman filter (prior variance 1e7, "
        "hence ~7 digits of cancellation) to 1e-5*max(1,cond^2/1e4) + 1e-8*smax(X)^2",
        "Kalman engine: the model is the recursion of fff_glm_KF_iterate in exact arithmetic; theorem "
        "kalman_is_ridge shows it ends at the batch solution of (X'X + 1e-7 I) b = X'y, so the oracle allows "
        "|b_kalman - b_ols| <= 4e-7*|(X'X)^-1|*|b| and a ridge term 4e-7*|b|^2/(n-p) in s2 on top of rounding "
        "(on nearly collinear designs, smallest singular value^2 ~ 1e-4, this is a visible 0.1% in b and several "
        "% in s2 - inherent to the diffuse prior 1e7, not flagged); BLAS dsymv reads one triangle of the "
        "covariance, the model the full matrix, symmetric by kalman_cov_symmetric",
        "the refined Kalman filter (labs model='ar1', fff_glm_RKF_*) is modelled as the C recursion is written "
        "(exact rationals; FFF_TINY / FFF_ENSURE_POSITIVE regenerated from fff_base.h; dsymv / dsyr2 / dsymm read one "
        "triangle, the model the symmetric matrix) and compared with fff_glm_RKF_fit re-compiled from the tree to "
        "20x the Kalman tolerance (the refined covariance relative to the filter's own covariance: it is a difference "
        "of terms of that size when |a| is near 1); it is an approximate pseudo-likelihood scheme, so no optimality "
        "is claimed beyond rkf_kfilt / rkf_first_sweep / rkf_fixed_point; the compiled wrapper kalman.ar1 (stale .so) "
        "is only compared with the re-compiled C",
        "GLSModel: npl.cholesky(npl.pinv(sigma)) is external numerics; the model decides acceptance exactly (certified "
        "congruence E S E' = diag > 0, or a checked vector with z'Sz <= 0) and the fit is written with the exact inverse "
        "(glsExact; gls_any_root: any root of the inverse gives it).  NumPy refuses positive definite sigma with "
        "condition number above ~1e8 (pinv is then not numerically positive definite) and may accept or refuse "
        "semi-definite ones: both outcomes are accepted there, fits are compared for condition numbers up to 1e6 with "
        "tolerance 1e-13 cond(sigma)^2 cond(wX)",
        "results.logL / AIC / BIC are evaluated lazily through results.model: after ARModel.iterative_fit or an "
        "assignment of rho they use the object's NEW coefficients with the OLD theta (observed; outside the property "
        "as stated): excluded for results fitted before a change of rho, compared otherwise",
        "caller arrays held by reference (OLSModel.whiten returns its argument; results.Y, model.design): in-place "
        "edits by the caller after the call are not presented",
        "AR(1) bin labels of GeneralLinearModel: voxels whose exact ar1*steps lies within 1e-7 of an integer "
        "are not compared (float truncation may legally pick either bin)",
        "yule_walker / ar_bias_correct / iterative_fit: scipy.linalg solve / inv / toeplitz are modelled by a certified "
        "exact inverse; cases whose Toeplitz matrix has condition number above 1e7, a zero denominator or diverging "
        "iterates are generated but not compared (tagged)",
        "negative axis values of labs.glm.glm are outside the documented range (the ols engine raises, the compiled "
        "kalman wrapper indexes a list with them): not generated; N-d blocks are modelled for N = 2, 3; the F statistic "
        "of labs contrasts goes through the compiled mahalanobis routine (numeric comparison with the model's exact "
        "e' V^-1 e / q); the variance of a one-row contrast is compared as a flat list (its shape was the squeezed "
        "grid before fix 16259cd, the effect's grid since)",
        "rank-deficient designs are outside the property's quantifier: the model refuses them (rank_deficient_refused), "
        "the implementation goes on with pinv; the oracle only checks what stays meaningful there (df_model = rank, "
        "fitted values = those of full_rank(design), residuals orthogonal to the design) and records that "
        "dispersion uses n - p, not n - rank",
    ]
    level_text = ("proof: 115 Lean theorems over all inputs of an exact rational model of OLS/WLS/AR(p)/GLS fits, the whole "
                  "results API on multi-response fits (t, vcov, Tcontrast, Fcontrast, conf_int, score, sums of squares, "
                  "logL), pos_recipr/recipr0, certified rank, AR(p) filter, yule_walker, ar_bias_correct, labs ols "
                  "(every axis), the fMRI GLM (ols, per-bin AR(1) refit and its scatter, contrasts) and the C Kalman "
                  "recursion; tables/constants/formula shapes re-read from the source by a translator; tied to the code "
                  "by differential correspondence + property oracle")
    level_note = ("proved: normal equations / orthogonality / score = 0, RSS minimality, SSE = min RSS, cov = Gram inverse, "
                  "calc_beta = Moore-Penrose inverse (unique), full rank <=> model accepts, reparametrisation invariance, "
                  "voxel order/grouping for every observable of the results API (results_voxelwise), t(column=j) = "
                  "Tcontrast(e_j).t, vcov(matrix) spec and positive semi-definiteness, conf_int centre / half width, "
                  "SSE <= SST and 0 <= R2 <= 1 with an intercept, scale equivariance incl. R2 / F_overall, the four "
                  "reductions plus AR(p) = GLS with the banded whitening matrix, AR filter form / linearity / "
                  "injectivity for every order, Yule-Walker equations and shift invariance, bias-corrected AR estimates "
                  "voxelwise and scale invariant, agreement of the Python-level implementations on every shared "
                  "observable, every axis of the labs engines fibre-wise, the scatter of per-bin AR(1) results "
                  "(glm_ar1_scatter, formerly partial), Kalman recursion = regularised batch least squares (ridge 1e-7); "
                  "wave 3: histories on one ARModel object (results never altered by later steps, a fit is the fit of a "
                  "fresh object with the current rho, iterative_fit calls compose: iterFit_append / hist_*), yule_walker "
                  "df default, ar_bias_correct with / without scale and dependence on the hat matrix only, GLS "
                  "acceptance (accepted => positive definite, refused => a vector with z'Sz < 0) and independence of the "
                  "square root of the inverse covariance (gls_any_root), isestimable <=> the contrast vanishes on the "
                  "design's null space (isestimable_iff, Mathlib rank-nullity), labs N-d bookkeeping (voxel (i,j) <-> "
                  "flat column i*B+j is a bijection, grid fit = flat fit for every axis position and both engines, the "
                  "resize/.T/reshape variance pipeline = M[y,x] s2[i,j]), refined Kalman filter (embedded filter = "
                  "ordinary Kalman filter, first sweep = ordinary Kalman fit, zero autocorrelation is a fixed point of "
                  "the refinement for every niter). "
                  "Hypotheses / oracle-only: numpy pinv returns the Moore-Penrose inverse, matrix_rank agrees with the "
                  "exact rank on exact inputs, sqrt / Student quantile / log (parameters), cholesky(pinv(sigma)) of "
                  "GLSModel (acceptance compared, numerics external), the refined Kalman filter beyond its first sweep / "
                  "fixed point (no optimality statement exists for the approximate scheme; recursion tied by "
                  "correspondence), the compiled mahalanobis routine behind labs F statistics, FMRILinearModel's image "
                  "handling (oracle against GeneralLinearModel), labs save/load, rank-deficient designs (outside the "
                  "domain)")
    finding_keys = {KEY_KALMAN_S2: "labs.glm kalman engine returns s2 = ssd/n while the ols engine "
                                   "returns ssd/(n-p)"}

    # ------------------------------------------------------------------
    # tie (a): tables, constants and formula shapes of the current source
    # ------------------------------------------------------------------
    #: formula shapes the model encodes (text of the right-hand side after ast.unparse)
    FORMULAS = {
        ("nipy/algorithms/statistics/models/regression.py", "OLSModel.fit", "dispersion"):
            "np.sum(wresid ** 2, 0) / (self.wdesign.shape[0] - self.wdesign.shape[1])",
        ("nipy/algorithms/statistics/models/regression.py", "OLSModel.fit", "beta"): "np.dot(self.calc_beta, wY)",
        ("nipy/algorithms/statistics/models/regression.py", "OLSModel.fit", "wresid"): "wY - np.dot(self.wdesign, beta)",
        ("nipy/algorithms/statistics/models/regression.py", "OLSModel.initialize", "self.calc_beta"):
            "npl.pinv(self.wdesign)",
        ("nipy/algorithms/statistics/models/regression.py", "OLSModel.initialize", "self.normalized_cov_beta"):
            "np.dot(self.calc_beta, np.transpose(self.calc_beta))",
        ("nipy/algorithms/statistics/models/regression.py", "OLSModel.initialize", "self.df_model"):
            "matrix_rank(self.design)",
        ("nipy/algorithms/statistics/models/regression.py", "RegressionResults.MSE", "return"): "self.SSE / self.df_resid",
        ("nipy/algorithms/statistics/models/regression.py", "RegressionResults.MSR", "return"):
            "self.SSR / (self.df_model - 1)",
        ("nipy/algorithms/statistics/models/regression.py", "RegressionResults.MST", "return"):
            "self.SST / (self.df_total - 1)",
        ("nipy/algorithms/statistics/models/regression.py", "RegressionResults.SSE", "return"): "(self.wresid ** 2).sum(0)",
        ("nipy/algorithms/statistics/models/regression.py", "RegressionResults.SST", "return"):
            "((self.wY - self.wY.mean(0)) ** 2).sum(0)",
        ("nipy/algorithms/statistics/models/regression.py", "RegressionResults.SSR", "return"): "self.SST - self.SSE",
        ("nipy/algorithms/statistics/models/regression.py", "ARModel.whiten", "_X[i + 1:]"):
            "_X[i + 1:] - self.rho[i] * X[0:-(i + 1)]",
        ("nipy/algorithms/statistics/models/model.py", "LikelihoodModelResults.__init__", "self.df_resid"):
            "self.df_total - self.df_model",
        ("nipy/labs/glm/glm.py", "ols", "s2"): "(res ** 2).sum(axis) / float(n - X.shape[1])",
        ("nipy/labs/glm/glm.py", "ols", "dof"): "float(X.shape[0] - X.shape[1])",
        ("nipy/labs/glm/glm.py", "ols", "nvbeta"): "np.inner(pX, pX)",
        # wave 3 (a value may be a tuple: every listed right-hand side must be among the assignments)
        ("nipy/algorithms/statistics/models/regression.py", "yule_walker", "n"): "df or X.shape[0]",
        ("nipy/algorithms/statistics/models/regression.py", "yule_walker", "X"):
            ("np.asarray(X, np.float64)", "X - X.mean(0)"),
        ("nipy/algorithms/statistics/models/regression.py", "yule_walker", "r[0]"): "(X ** 2).sum() / den(0)",
        ("nipy/algorithms/statistics/models/regression.py", "yule_walker", "r[k]"): "(X[0:-k] * X[k:]).sum() / den(k)",
        ("nipy/algorithms/statistics/models/regression.py", "yule_walker", "R"): "spl.toeplitz(r[:-1])",
        ("nipy/algorithms/statistics/models/regression.py", "yule_walker", "rho"): "spl.solve(R, r[1:])",
        ("nipy/algorithms/statistics/models/regression.py", "yule_walker", "sigmasq"): "r[0] - (r[1:] * rho).sum()",
        ("nipy/algorithms/statistics/models/regression.py", "ar_bias_correct", "sum_sq"):
            ("results.scale.reshape(resid.shape[1:]) * results.df_resid", "np.sum(resid ** 2, axis=0)"),
        ("nipy/algorithms/statistics/models/regression.py", "ar_bias_correct", "cov[i]"):
            "np.sum(resid[i:] * resid[0:-i], axis=0)",
        ("nipy/algorithms/statistics/models/regression.py", "ar_bias_correct", "cov"):
            ("np.zeros((order + 1,) + sum_sq.shape)", "np.dot(invM, cov)"),
        ("nipy/algorithms/statistics/models/regression.py", "ar_bias_correct", "output"): "cov[1:] * pos_recipr(cov[0])",
        ("nipy/algorithms/statistics/models/regression.py", "ar_bias_corrector", "R"):
            "np.eye(design.shape[0]) - np.dot(design, calc_beta)",
        ("nipy/algorithms/statistics/models/regression.py", "ar_bias_corrector", "M[i, j]"):
            "np.diag(np.dot(Di, Dj) / (1.0 + (i > 0))).sum()",
        ("nipy/algorithms/statistics/models/regression.py", "isestimable", "new"): "np.vstack([C, D])",
        ("nipy/algorithms/statistics/models/regression.py", "isestimable", "return"): "matrix_rank(new) == matrix_rank(D)",
        ("nipy/algorithms/statistics/models/regression.py", "GLSModel.__init__", "self.cholsigmainv"):
            "npl.cholesky(npl.pinv(sigma)).T",
        ("nipy/algorithms/statistics/models/regression.py", "GLSModel.whiten", "return"): "np.dot(self.cholsigmainv, Y)",
        ("nipy/algorithms/statistics/models/regression.py", "ARModel.iterative_fit", "(self.rho, _)"):
            "yule_walker(Y - results.predicted, order=self.order, df=self.df_resid)",
        ("nipy/labs/glm/glm.py", "glm.contrast", "B"): "np.rollaxis(self.beta, axis, ndims)",
        ("nipy/labs/glm/glm.py", "glm.contrast", "con"): "np.inner(c, B)",
        ("nipy/labs/glm/glm.py", "glm.contrast", "vcon"):
            ("np.inner(c, np.inner(c, nvbeta))", "(vcon.squeeze() * s2).reshape(B.shape[:-1])",
             "np.dot(c, np.inner(nvbeta, c))", "np.resize(vcon, s2.shape + aux)",
             "vcon.T.reshape(aux + (s2.size,)) * s2.reshape((s2.size,))", "vcon.reshape(aux + con.shape[1:])"),
        ("nipy/modalities/fmri/glm.py", "GeneralLinearModel.get_beta", "column_index"):
            ("np.arange(self.X.shape[1])", "[int(column_index)]", "list(column_index)"),
        ("nipy/modalities/fmri/glm.py", "GeneralLinearModel.get_beta", "beta[:, self.labels_ == l]"):
            "self.results_[l].theta[column_index]",
        ("nipy/modalities/fmri/glm.py", "GeneralLinearModel.get_mse", "mse[self.labels_ == l]"): "self.results_[l].MSE",
        ("nipy/modalities/fmri/glm.py", "GeneralLinearModel.get_logL", "logL[self.labels_ == l]"): "self.results_[l].logL",
    }

    def translators(self):
        from harness.overlay import REPO

        def parse(rel):
            try:
                return ast.parse(open(os.path.join(REPO, rel)).read())
            except Exception as e:
                raise TieBroken(f"{rel} does not parse: {e}")

        def func(tree, dotted):
            node = tree
            for name in dotted.split("."):
                node = next((n for n in node.body if isinstance(n, (ast.FunctionDef, ast.ClassDef)) and n.name == name), None)
                if node is None:
                    raise TieBroken(f"{dotted} not found")
            return node

        trees = {}
        for (rel, dotted, target), want in self.FORMULAS.items():
            tree = trees.setdefault(rel, parse(rel))
            fn = func(tree, dotted)
            got = []
            for node in ast.walk(fn):
                if target == "return" and isinstance(node, ast.Return) and node.value is not None:
                    got.append(ast.unparse(node.value))
                elif isinstance(node, ast.Assign) and any(ast.unparse(t) == target for t in node.targets):
                    got.append(ast.unparse(node.value))
            for w1 in (want if isinstance(want, tuple) else (want,)):
                if w1 not in got:
                    raise TieBroken(f"{rel}: {dotted}: `{target}` is {got!r}, the model encodes {w1!r}")
        # tables
        lg = trees.setdefault("nipy/labs/glm/glm.py", parse("nipy/labs/glm/glm.py"))
        models = None
        for node in lg.body:
            if isinstance(node, ast.Assign) and any(isinstance(t, ast.Name) and t.id == "models" for t in node.targets):
                try:
                    models = ast.literal_eval(node.value)
                except Exception as e:
                    raise TieBroken(f"labs glm `models` is not a literal: {e}")
        if not isinstance(models, dict) or not all(isinstance(k, str) and isinstance(v, list) and
                                                   all(isinstance(x, str) for x in v) for k, v in models.items()):
            raise TieBroken(f"labs glm `models` table not found or of unexpected form: {models!r}")
        fg = parse("nipy/modalities/fmri/glm.py")
        fit = func(fg, "GeneralLinearModel.fit")
        fm = None
        for node in ast.walk(fit):
            if isinstance(node, ast.Compare) and isinstance(node.left, ast.Name) and node.left.id == "model" and \
                    len(node.ops) == 1 and isinstance(node.ops[0], ast.NotIn):
                try:
                    fm = list(ast.literal_eval(node.comparators[0]))
                except Exception:
                    pass
        if not fm or not all(isinstance(x, str) for x in fm):
            raise TieBroken("GeneralLinearModel.fit: `model not in [...]` test not found")
        md = trees.setdefault("nipy/algorithms/statistics/models/model.py", parse("nipy/algorithms/statistics/models/model.py"))
        tc = func(md, "LikelihoodModelResults.Tcontrast")
        store = None
        for node in ast.walk(tc):
            if isinstance(node, ast.Call) and isinstance(node.func, ast.Attribute) and node.func.attr == "issubset":
                try:
                    store = list(ast.literal_eval(node.args[0]))
                except Exception:
                    pass
        if not store or not all(isinstance(x, str) for x in store):
            raise TieBroken("Tcontrast: `store.issubset((...))` test not found")
        try:
            h = open(os.path.join(REPO, "lib/fff/fff_glm_kalman.h")).read()
        except Exception as e:
            raise TieBroken(f"lib/fff/fff_glm_kalman.h unreadable: {e}")
        mm = re.search(r"#define\s+FFF_GLM_KALMAN_INIT_VAR\s+([0-9.eE+-]+)", h)
        if not mm:
            raise TieBroken("FFF_GLM_KALMAN_INIT_VAR not found")
        from fractions import Fraction
        iv = Fraction(mm.group(1))
        try:
            hb = open(os.path.join(REPO, "lib/fff/fff_base.h")).read()
        except Exception as e:
            raise TieBroken(f"lib/fff/fff_base.h unreadable: {e}")
        mt = re.search(r"#define\s+FFF_TINY\s+([0-9.eE+-]+)", hb)
        if not mt or not re.search(r"#define\s+FFF_ENSURE_POSITIVE\(a\)\s*\(\s*\(a\)\s*>\s*FFF_TINY\s*\?\s*\(a\)\s*:\s*FFF_TINY\s*\)", hb):
            raise TieBroken("FFF_TINY / FFF_ENSURE_POSITIVE not found in the form the model encodes")
        tiny = Fraction(mt.group(1))

        def sl(xs):
            return "[" + ", ".join('"' + x.replace('"', "") + '"' for x in xs) + "]"

        rat = str(iv.numerator) if iv.denominator == 1 else f"({iv.numerator} : Rat) / {iv.denominator}"
        content = ("/- generated by harness/props/C05.py::translators from /repo — do not edit -/\n"
                   "namespace NipyVerif.C05.Gen\n"
                   "def labsModels : List (String × List String) := ["
                   + ", ".join(f'("{k}", {sl(v)})' for k, v in models.items()) + "]\n"
                   f"def fmriModels : List String := {sl(fm)}\n"
                   f"def tconStore : List String := {sl(store)}\n"
                   f"def kfInitVar : Rat := {rat}\n"
                   f"def fffTiny : Rat := ({tiny.numerator} : Rat) / {tiny.denominator}\n"
                   "end NipyVerif.C05.Gen\n")
        return [("NipyVerif/Gen/C05Tables.lean", content)]

    # ------------------------------------------------------------------
    def generate(self, rng, tier):
        from harness import cshim
        cshim.build("fff")        # compile once in the parent, before the workers race for it
        nm, ne, ng, nb = (1400, 700, 700, 120) if tier == "quick" else (36000, 18000, 18000, 1000)
        cases = []
        for _ in range(nm):
            n, p, v = _sizes(rng, tier)
            wk = rng.choice(["ols", "ols", "wls", "wls", "ar", "ar", "ar", "gls"])
            if wk == "gls" and n > 24:
                n = rng.randint(4, 24); p = min(p, n - 1)
            dk = rng.choice(["int", "int", "intercept", "dyadic", "ill", "drift"])
            if dk == "drift":
                p = min(p, 4)
            X = _design(rng, n, p, dk)
            Y = _data(rng, n, v, rng.choice(["int", "dyadic", "smooth"]))
            pres = {}
            if rng.random() < 0.35:
                # (float32 is left out: the model classes then compute in single precision, which is rounding,
                # not a different fit)
                pres = {"ydtype": rng.choice(["int16", "int32", "int64", "uint8", "int8", None]),
                        "xdtype": rng.choice([None, None, "int64", "int16", "int8"]),
                        "ylayout": rng.choice([None, None, "F", "strided"])}
            if wk == "ols":
                w = {"kind": "ols"}
            elif wk == "wls":
                r = rng.random()
                if r < 0.2:
                    c = [1.0] * n
                elif r < 0.8:
                    c = [rng.choice([0.25, 0.5, 1.0, 1.5, 2.0, 3.0, 0.125]) for _ in range(n)]
                else:   # weights that are not perfect squares: sqrt rounds
                    c = [float(np.sqrt(rng.randint(1, 40) / 8.0)) for _ in range(n)]
                w = {"kind": "wls", "c": c}
            elif wk == "ar":
                order = rng.choice([1, 1, 2, 3])
                if rng.random() < 0.15:
                    rho = [0.0] * order
                else:
                    rho = _pacf_to_ar([rng.randint(-15, 15) / 16.0 for _ in range(order)])
                w = {"kind": "ar", "rho": rho}
            else:
                r = rng.random()
                if r < 0.25:
                    S = np.eye(n)
                elif r < 0.5:
                    S = np.diag([1.0 / (rng.choice([0.5, 1.0, 2.0, 4.0]) ** 2) for _ in range(n)])
                elif r < 0.75:
                    a = rng.choice([0.25, 0.5, -0.5, 0.75])
                    S = np.array([[a ** abs(i - j) for j in range(n)] for i in range(n)])
                else:
                    A = np.array([[rng.randint(-2, 2) for _ in range(n)] for _ in range(n)], float)
                    S = A @ A.T / 4.0 + np.eye(n)
                w = {"kind": "gls", "sigma": S.tolist(),
                     "diag": bool(np.count_nonzero(S - np.diag(np.diag(S))) == 0)}
            c = [float(rng.randint(-2, 2)) for _ in range(p)]
            if not any(c):
                c[rng.randrange(p)] = 1.0
            q = rng.randint(1, p)
            Cm = np.eye(p)[rng.sample(range(p), q)]
            if rng.random() < 0.5:
                Cm = Cm + np.array([[rng.randint(-1, 1) for _ in range(p)] for _ in range(q)])
                if _rank(Cm) < q:
                    Cm = np.eye(p)[:q]
            cases.append(dict({"kind": "models", "X": X, "Y": Y, "w": w, "c": c, "C": Cm.tolist(),
                               "T": _invertible(rng, p),
                               "sel": [rng.randrange(v) for _ in range(rng.randint(1, v + 1))],
                               "scale": rng.choice([2.0, 0.5, 3.0, 10.0, 0.125])}, **pres))
        for _ in range(ne):
            n, p, v = _sizes(rng, tier)
            dk = rng.choice(["int", "intercept", "dyadic", "ill", "drift"])
            if dk == "drift":
                p = min(p, 4)
            c = [float(rng.randint(-2, 2)) for _ in range(p)]
            if not any(c):
                c[rng.randrange(p)] = 1.0
            cases.append({"kind": "engines", "X": _design(rng, n, p, dk),
                          "Y": _data(rng, n, v, rng.choice(["int", "dyadic", "smooth"])), "c": c,
                          "nd3": rng.random() < 0.4,
                          # the residual-variance comparison of the Kalman engine runs on its own cases
                          # (no model lines), so that the known finding there never hides a disagreement
                          "s2check": rng.random() < 0.2})
        for _ in range(ng):
            n, p, v = _sizes(rng, tier)
            n = max(n, 4); p = min(p, n - 2, 5)
            v = rng.choice([1, 2, 3, 5, 8])
            Y = _data(rng, n, v, rng.choice(["int", "smooth", "smooth"]))
            if v >= 2 and rng.random() < 0.4:      # duplicate voxel: same bin, same answer
                a, b = rng.sample(range(v), 2)
                for row in Y:
                    row[b] = row[a]
            c = [float(rng.randint(-2, 2)) for _ in range(p)]
            if not any(c):
                c[rng.randrange(p)] = 1.0
            perm = list(range(v)); rng.shuffle(perm)
            cases.append({"kind": "glmar1", "X": _design(rng, n, p, rng.choice(["int", "intercept", "dyadic"])),
                          "Y": Y, "steps": rng.choice([100, 100, 10, 7, 33]), "perm": perm, "c": c,
                          "sel": sorted(rng.sample(range(v), rng.randint(1, v)))})
        for _ in range(nb):
            n, p, v = rng.randint(3, 7), rng.randint(1, 3), rng.randint(1, 3)
            p = min(p, n - 1)
            X = _design(rng, n, p, "int")
            bad = rng.choice(["rows", "model", "method", "rankdef", "weights", "tcon", "rows-labs", "abstract"])
            if bad == "rankdef":
                p = max(p, 2)
                X = _design(rng, n, p, "int")
                for row in X:
                    row[-1] = 2 * row[0]
            cases.append({"kind": "refuse", "X": X, "Y": _data(rng, n + (1 if bad.startswith("rows") else 0), v, "int"),
                          "bad": bad})
        # -- results API on one object: histories of operations, one or several responses --------
        nr, nx = (900, 160) if tier == "quick" else (24000, 4000)
        for _ in range(nr):
            n, p, _v = _sizes(rng, tier)
            if n > 24:
                n = rng.randint(5, 24); p = min(p, n - 1)
            p = min(p, 5)
            r = rng.random()
            # several responses; on purpose often as many responses as parameters / selected columns
            v = p if r < 0.3 else rng.choice([1, 1, 2, 3, 4, 5, 7])
            oneD = rng.random() < 0.15
            if oneD:
                v = 1
            wk = rng.choice(["ols", "ols", "ols", "wls", "ar", "gls"])
            dk = rng.choice(["int", "intercept", "intercept", "dyadic", "drift"])
            if dk == "drift":
                p = min(p, 4)
            X = _design(rng, n, p, dk)
            Y = _data(rng, n, v, rng.choice(["int", "dyadic", "smooth"]))
            if wk == "ols":
                w = {"kind": "ols"}
            elif wk == "wls":
                w = {"kind": "wls", "c": [rng.choice([0.5, 1.0, 1.5, 2.0]) for _ in range(n)]}
            elif wk == "ar":
                order = rng.choice([1, 2, 3])
                w = {"kind": "ar", "rho": _pacf_to_ar([rng.randint(-12, 12) / 16.0 for _ in range(order)])}
            else:
                a = rng.choice([0.25, 0.5, -0.5])
                S = np.array([[a ** abs(i - j) for j in range(n)] for i in range(n)])
                w = {"kind": "gls", "sigma": S.tolist(), "diag": False}
            cases.append({"kind": "results", "X": X, "Y": Y, "w": w, "oneD": oneD,
                          "ops": RS.gen_ops(rng, p, v, oneD, rng.choice([1, 2, 3, 4, 6])),
                          "sel": [rng.randrange(v) for _ in range(rng.randint(1, v + 1))],
                          "layout": rng.choice(["C", "C", "F"])})
        for _ in range(nx):
            if rng.random() < 0.35:
                k = rng.randint(0, 9)
                xs = [rng.choice([0.0, 0.0, 1.0, -1.0, 2.0, -0.5, 0.25, 3.0, -4.0, 1e-300, -1e-300, 1e300,
                                  rng.randint(-64, 64) / 8.0]) for _ in range(k)]
                shp = None
                if k in (4, 6, 8) and rng.random() < 0.5:
                    shp = [2, k // 2]
                integer = rng.random() < 0.2
                if integer:
                    xs = [float(int(max(-1e6, min(1e6, x)))) for x in xs]
                cases.append({"kind": "matrices", "what": "recip", "xs": xs, "shape": shp, "int": integer})
            else:
                n = rng.randint(1, 7); p = rng.randint(1, 6)
                r = rng.randint(0, min(n, p))
                if rng.random() < 0.4:
                    X = np.array([[rng.randint(-3, 3) for _ in range(p)] for _ in range(n)], float)
                else:       # exact rank r: product of integer factors
                    A = np.array([[rng.randint(-2, 2) for _ in range(r)] for _ in range(n)], float).reshape(n, r)
                    B = np.array([[rng.randint(-2, 2) for _ in range(p)] for _ in range(r)], float).reshape(r, p)
                    X = A @ B
                    if rng.random() < 0.3:
                        X = X / rng.choice([2.0, 8.0, 0.5])
                if p >= 2 and rng.random() < 0.35:
                    # regressors in very different units (exact powers of two, so the exact rank is unchanged):
                    # condition numbers 2**20 .. 2**36 - ill conditioned, but far from numerically rank deficient
                    sc = [2.0 ** rng.choice([-18, -14, -10, 0, 10, 14, 18]) for _ in range(p)]
                    if max(sc) / min(sc) < 2.0 ** 20:
                        sc[0], sc[-1] = 2.0 ** 14, 2.0 ** -13
                    X = X * np.array(sc)
                cases.append({"kind": "matrices", "what": "rank", "X": X.tolist(),
                              "Y": _data(rng, n, rng.randint(1, 3), "int")})
        # -- AR(p) machinery, labs engines along every axis, fMRI GLM classes ----------------------
        import sys
        H = sys.modules[__name__]
        na, nl, nf = (500, 250, 300) if tier == "quick" else (12000, 6000, 6000)
        for _ in range(na):
            cases.append(MR.gen_ar(rng, H, tier))
        for _ in range(nl):
            cases.append(MR.gen_labs3(rng, H, tier))
        for _ in range(nf):
            cases.append(MR.gen_fmri(rng, H, tier))
        # -- wave 3: histories on one model object, options, N-d contrasts, refined Kalman filter ----
        for gen, (nq, nt) in W3.GENERATORS:
            for _ in range(nq if tier == "quick" else nt):
                cases.append(gen(rng, H, tier))
        return cases

    # ------------------------------------------------------------------
    def run_case(self, case):
        warnings.filterwarnings("ignore")
        return getattr(self, "_" + case["kind"])(case)

    # -- model classes of nipy.algorithms.statistics.models.regression ---
    def _sections(self, res, X, c, Cm):
        """observations of a RegressionResults, in the order of the model's output"""
        th = np.asarray(res.theta, float)
        tc = res.Tcontrast(np.asarray(c, float))
        try:
            F = np.atleast_1d(np.asarray(res.Fcontrast(np.asarray(Cm, float)).F, float)).tolist()
        except np.linalg.LinAlgError:
            F = "error:linalgError"
        return {"beta": th, "wresid": np.asarray(res.wresid, float),
                "dispersion": np.atleast_1d(np.asarray(res.dispersion, float)),
                "df": int(res.df_resid), "cov": np.asarray(res.cov, float),
                "predicted": np.asarray(res.predicted, float),
                "teffect": np.atleast_1d(np.asarray(tc.effect, float)),
                "tvar": np.atleast_1d(np.asarray(tc.sd, float)) ** 2, "F": F,
                "t": np.atleast_1d(np.asarray(tc.t, float)), "mse": np.atleast_1d(np.asarray(res.MSE, float))}

    def _models(self, case):
        from nipy.algorithms.statistics.models import regression as reg
        X = np.array(case["X"], float); Y = np.array(case["Y"], float)
        n, p = X.shape; v = Y.shape[1]
        w = case["w"]; c = case["c"]; Cm = np.array(case["C"], float)
        # how the caller stores its data: integer counts / raw scanner units in an integer dtype, float32, Fortran
        # order or a strided view hold the same numbers; the fit is a function of the numbers
        Xp, Yp = _presented(X, case.get("xdtype")), _presented(Y, case.get("ydtype"), case.get("ylayout"))
        snap = Snapshot(X=Xp, Y=Yp)
        tags = ["models", "w=" + w["kind"], f"p={min(p, 4)}{'+' if p > 4 else ''}",
                "n-p=1" if n - p == 1 else "n-p>1", f"y={Yp.dtype}", f"x={Xp.dtype}"]
        try:
            m = _make_model(reg, w, Xp)
            res = m.fit(Yp)
            obs = self._sections(res, X, c, Cm)
        except Exception as e:
            return {"lines": [], "impl": [], "nontrivial": True, "tags": tags + ["raised"],
                    "oracle": f"{w['kind']} model raised {type(e).__name__}: {e} on a full-rank design "
                              f"(n={n}, p={p}, v={v})"}
        mut = snap.changed()
        wX = np.asarray(m.wdesign, float)
        cond = _cond(wX)
        rt = _rtol(cond)
        ws = _wscale(w, m)
        ys = max(1.0, float(np.abs(Y).max())) * ws
        line = (f"fit {pmat(X)} {pmat(Y)} {_wline(w, m)} {frs(c)} {pmat(Cm)}")
        impl = ("fit", {k: (a.tolist() if isinstance(a, np.ndarray) else a) for k, a in obs.items()},
                {"rtol": rt, "ys": ys, "n": n, "p": p, "v": v, "cabs": float(np.abs(c).sum()),
                 "bfloor": _bfloor(wX, ys)})
        tags.append("cond<1e2" if cond < 1e2 else "cond<1e4" if cond < 1e4 else "cond>=1e4")
        fail = self._models_oracle(reg, case, X, Y, w, m, res, obs, rt, ys)
        return {"lines": [line], "impl": [impl], "oracle": fail, "tags": tags, "mutated": mut,
                "nontrivial": p >= 2 or v >= 2 or w["kind"] != "ols"}

    def _models_oracle(self, reg, case, X, Y, w, m, res, obs, rt, ys):
        n, p = X.shape; v = Y.shape[1]
        kind = w["kind"]
        c = np.array(case["c"], float); Cm = np.array(case["C"], float)
        wX = np.asarray(m.wdesign, float); wY = np.asarray(m.whiten(Y), float)
        beta = obs["beta"]; wres = obs["wresid"]
        xs = max(1.0, float(np.abs(wX).max()))
        bs = max(_bfloor(wX, ys), float(np.abs(beta).max()))
        rt_o = 20 * rt          # float-vs-float comparisons: both sides round
        # (1) whitened residuals orthogonal to the whitened design
        g = wX.T @ wres
        if np.abs(g).max() > rt_o * n * xs * ys * max(1.0, _cond(wX)):
            return (f"{kind}: whitened residuals not orthogonal to the whitened design: "
                    f"max |wX' wresid| = {np.abs(g).max()!r} (n={n}, p={p})")
        # (2) optimality against an independent whitening + lstsq
        iX = _whiten_independent(w, X); iY = _whiten_independent(w, Y)
        b2 = np.linalg.lstsq(iX, iY, rcond=None)[0]
        if not _near(beta, b2, rt_o, bs):
            return (f"{kind}: coefficients differ from an independent least-squares solution of the whitened "
                    f"problem: {_worst(beta, b2)} (n={n}, p={p})")
        rss_i = ((iY - iX @ beta) ** 2).sum(0); rss_2 = ((iY - iX @ b2) ** 2).sum(0)
        if np.any(rss_i > rss_2 * (1 + rt_o) + rt_o * ys * ys * n):
            return f"{kind}: fitted coefficients have larger whitened RSS {rss_i.tolist()} than lstsq {rss_2.tolist()}"
        disp = obs["dispersion"]
        if not _near(disp, rss_2 / (n - p), rt_o, ys * ys):
            return (f"{kind}: dispersion {disp.tolist()} is not RSS/(n-p) = {(rss_2 / (n - p)).tolist()} "
                    f"(n={n}, p={p})")
        if obs["df"] != n - p:
            return f"{kind}: df_resid = {obs['df']} but n - p = {n - p}"
        if not _near(obs["mse"], disp, rt_o, ys * ys):
            return f"{kind}: MSE {obs['mse'].tolist()} differs from dispersion {disp.tolist()}"
        covs = max(1e-300, float(np.abs(obs["cov"]).max()))
        perfect = disp < 1e-6 * ys * ys          # t / F are 0/0-like there
        # (3) reparametrisation X -> X T
        T = np.array(case["T"], float)
        m2 = _make_model(reg, w, X @ T); r2 = m2.fit(Y)
        rt_T = 20 * _rtol(max(_cond(wX), _cond(np.asarray(m2.wdesign, float))))
        o2 = self._sections(r2, X @ T, c @ T, Cm @ T)
        for name, sc in (("predicted", ys), ("wresid", ys), ("dispersion", ys * ys),
                         ("teffect", bs * np.abs(c).sum())):
            if not _near(o2[name], obs[name], rt_T, sc):
                return (f"{kind}: {name} changes under the invertible reparametrisation X -> X T: "
                        f"{_worst(o2[name], obs[name])} (T={T.tolist()})")
        tvs = covs * float(np.abs(c).sum()) ** 2 * ys * ys
        if not _near(o2["tvar"], obs["tvar"], rt_T, tvs):
            return (f"{kind}: variance of the contrast changes under reparametrisation: "
                    f"{_worst(o2['tvar'], obs['tvar'])} (T={T.tolist()})")
        if o2["df"] != obs["df"]:
            return f"{kind}: df_resid changes under reparametrisation: {o2['df']} vs {obs['df']}"
        if not isinstance(obs["F"], str) and not isinstance(o2["F"], str):
            ok = ~perfect
            Fa, Fb = np.array(o2["F"])[ok], np.array(obs["F"])[ok]
            if Fa.size and not _near(Fa, Fb, 50 * rt_T * max(1.0, _cond(Cm @ obs["cov"] @ Cm.T)), 1e-9):
                return f"{kind}: F statistic changes under reparametrisation: {_worst(Fa, Fb)}"
        # (4) voxel order / grouping: any selection of columns
        sel = case["sel"]
        r3 = m.fit(Y[:, sel])
        if not (_near(r3.theta, beta[:, sel], rt_o, bs) and _near(r3.dispersion, disp[sel], rt_o, ys * ys)):
            return (f"{kind}: fitting the voxel selection {sel} gives theta/dispersion different from the "
                    f"selection of the full fit: {_worst(np.asarray(r3.theta), beta[:, sel])}")
        r3 = m.fit(Y[:, 0])
        if not (_near(np.asarray(r3.theta), beta[:, 0], rt_o, bs)):
            return f"{kind}: 1-D fit of voxel 0 differs from column 0 of the block fit"
        # (5) positive rescaling of the data
        a = case["scale"]
        r4 = m.fit(Y * a)
        if not (_near(r4.theta, a * beta, rt_o, a * bs) and _near(r4.dispersion, a * a * disp, rt_o, a * a * ys * ys)):
            return f"{kind}: scaling the data by {a} does not scale theta by {a} and dispersion by {a * a}"
        t4 = np.atleast_1d(np.asarray(r4.Tcontrast(c).t, float))
        if not _near(t4[~perfect], obs["t"][~perfect], 1e3 * rt_o, 1e-6):
            return f"{kind}: t statistic changes when the data are scaled by {a}: {t4.tolist()} vs {obs['t'].tolist()}"
        # (6) reductions
        if kind == "ols":
            alts = [("WLSModel(weights=1)", reg.WLSModel(X, 1)),
                    ("WLSModel(weights=ones)", reg.WLSModel(X, np.ones(n))),
                    ("ARModel(order 2, zero rho)", reg.ARModel(X, 2)),
                    ("ARModel(rho=[0.0])", reg.ARModel(X, np.zeros(1))),
                    ("ARModel(rho=[0,0,0])", reg.ARModel(X, [0.0, 0.0, 0.0]))]
            if n <= 40:
                alts.append(("GLSModel(identity)", reg.GLSModel(X, np.eye(n))))
        elif kind == "wls":
            alts = []
            if n <= 40:
                alts.append(("GLSModel(diag(1/weights))",
                             reg.GLSModel(X, np.diag(1.0 / np.asarray(m.weights, float)))))
        elif kind == "ar" and not any(w["rho"]):
            alts = [("OLSModel", reg.OLSModel(X))]
        elif kind == "gls" and w.get("diag"):
            alts = [("WLSModel(1/diag(sigma))", reg.WLSModel(X, 1.0 / np.diag(np.array(w["sigma"], float))))]
        else:
            alts = []
        for name, ma in alts:
            ra = ma.fit(Y)
            if not (_near(ra.theta, beta, rt_o, bs) and _near(ra.dispersion, disp, rt_o, ys * ys)
                    and _near(ra.cov, obs["cov"], rt_o, covs) and ra.df_resid == obs["df"]
                    and _near(ra.wresid, wres, rt_o, ys)):
                return (f"{kind} fit is not reproduced by {name}: theta {_worst(np.asarray(ra.theta), beta)}, "
                        f"dispersion {np.asarray(ra.dispersion).tolist()} vs {disp.tolist()}")
        if kind == "gls":
            W = np.asarray(m.cholsigmainv, float)
            Si = np.linalg.inv(np.array(w["sigma"], float))
            if not _near(W.T @ W, Si, 1e-8 * max(1.0, _cond(Si)), float(np.abs(Si).max())):
                return "gls: cholsigmainv' cholsigmainv differs from the inverse covariance"
        return None

    # -- the separate GLM implementations ---------------------------------
    def _engines(self, case):
        from nipy.algorithms.statistics.models.regression import OLSModel
        from nipy.labs.glm import glm as lg
        from nipy.labs.glm import kalman
        from nipy.modalities.fmri.glm import GeneralLinearModel
        X = np.array(case["X"], float); Y = np.array(case["Y"], float)
        n, p = X.shape; v = Y.shape[1]
        c = np.array(case["c"], float)
        cond = _cond(X); rt = _rtol(cond); rt_o = 20 * rt
        # float accuracy of the C recursion: cancellation against the prior variance 1e7 loses
        # ~ eps * 1e7 * |x|^2 relative accuracy (observed 1e-4 for regressors of size ~150)
        smax = float(np.linalg.svd(X, compute_uv=False).max())
        rk = 1e-5 * max(1.0, cond * cond / 1e4) + 1e-8 * smax * smax
        ys = max(1.0, float(np.abs(Y).max()))
        snap = Snapshot(X=X, Y=Y)
        tags = ["engines", "n-p=1" if n - p == 1 else "n-p>1",
                "cond<1e2" if cond < 1e2 else "cond<1e4" if cond < 1e4 else "cond>=1e4"]
        _fff()                    # a build problem is a harness error, not a verdict
        try:
            r = OLSModel(X).fit(Y)
            g = GeneralLinearModel(X); g.fit(Y)
            L = lg.glm(Y, X)
            K = lg.glm(Y, X, method="kalman")
            Lt = lg.glm(Y.T.copy(), X, axis=1)
            Kt = lg.glm(Y.T.copy(), X, axis=1, method="kalman")
            kb, knv, ks2, kdof = kalman.ols(Y, X)
            cB, cs2, cdof, cs2c, cVb = c_kalman(X, Y)
            gc = g.contrast(c); Lc = L.contrast(c); Kc = K.contrast(c)
            A1 = lg.glm(Y, X, model="ar1")
        except Exception as e:
            return {"lines": [], "impl": [], "nontrivial": True, "tags": tags + ["raised"],
                    "oracle": f"a GLM implementation raised {type(e).__name__}: {e} on a full-rank design "
                              f"(n={n}, p={p}, v={v})"}
        mut = snap.changed()
        beta = np.asarray(r.theta, float); s2 = np.atleast_1d(np.asarray(r.dispersion, float))
        bs = max(_bfloor(X, ys), float(np.abs(beta).max()))
        covs = float(np.abs(r.cov).max())
        meta = {"rtol": rt, "rk": rk, "ys": ys, "n": n, "p": p, "v": v, "cabs": float(np.abs(c).sum()),
                "bfloor": _bfloor(X, ys)}
        lines = [f"labs {pmat(X)} {pmat(Y)} {frs(c)}", f"kalman {pmat(X)} {pmat(Y)}",
                 f"kalman {pmat(X)} {pmat(Y)}"]
        impl = [("labs", {"beta": np.asarray(L.beta).tolist(), "nvbeta": np.asarray(L.nvbeta).tolist(),
                          "s2": np.atleast_1d(L.s2).tolist(), "dof": float(L.dof),
                          "effect": np.atleast_1d(np.squeeze(Lc.effect)).tolist(),
                          "variance": np.atleast_1d(np.squeeze(Lc.variance)).tolist()}, meta),
                ("kalman", {"beta": cB.tolist(), "s2": cs2.tolist(), "dof": float(cdof), "Vb": cVb.tolist()}, meta),
                ("kalman", {"beta": np.asarray(kb).tolist(), "s2": np.asarray(ks2).ravel().tolist(),
                            "dof": float(kdof), "Vb": np.asarray(knv).tolist()}, meta)]
        fail = None

        def chk(name, a, b, rtol, scale):
            nonlocal fail
            if fail is None and not _near(a, b, rtol, scale):
                fail = f"{name}: {_worst(a, b)} (n={n}, p={p}, v={v})"

        # models package vs fMRI GLM class vs labs ols engine
        chk("GeneralLinearModel.get_beta differs from OLSModel theta", g.get_beta(), beta, rt_o, bs)
        chk("GeneralLinearModel.get_mse differs from OLSModel dispersion", g.get_mse(), s2, rt_o, ys * ys)
        chk("labs glm (ols) beta differs from OLSModel theta", L.beta, beta, rt_o, bs)
        chk("labs glm (ols) s2 differs from OLSModel dispersion", np.atleast_1d(L.s2), s2, rt_o, ys * ys)
        chk("labs glm (ols) nvbeta differs from normalized_cov_beta", L.nvbeta, np.asarray(r.cov), rt_o, covs)
        if fail is None and not (float(L.dof) == float(r.df_resid) == float(gc.dof) == float(K.dof) == n - p):
            fail = (f"degrees of freedom disagree: OLSModel {r.df_resid}, fmri GLM {gc.dof}, labs ols {L.dof}, "
                    f"labs kalman {K.dof}, n-p = {n - p}")
        tcon = r.Tcontrast(c)
        eff = np.atleast_1d(np.asarray(tcon.effect, float)); var = np.atleast_1d(np.asarray(tcon.sd, float)) ** 2
        tvs = covs * float(np.abs(c).sum()) ** 2 * ys * ys
        chk("fmri GLM contrast effect differs from Tcontrast", gc.effect.ravel(), eff, rt_o, bs * np.abs(c).sum())
        chk("fmri GLM contrast variance differs from Tcontrast sd^2", gc.variance.ravel(), var, rt_o, tvs)
        chk("labs glm contrast effect differs from Tcontrast", np.atleast_1d(np.squeeze(Lc.effect)), eff, rt_o,
            bs * np.abs(c).sum())
        chk("labs glm contrast variance differs from Tcontrast sd^2", np.atleast_1d(np.squeeze(Lc.variance)), var,
            rt_o, tvs)
        # labs contrast accessors and the save / load round trip of a fitted glm
        if fail is None:
            import os, shutil, tempfile
            st = np.atleast_1d(np.squeeze(Lc.stat())); sm = Lc.summary()
            ok = var > 1e-9 * tvs
            tt = np.atleast_1d(np.asarray(tcon.t, float))
            if not _near(st[ok], tt[ok], 1e3 * rt_o, 1e-6) or sm["dof"] != L.dof or sm["effect"] is not Lc.effect:
                fail = f"labs contrast stat()/summary() differ from Tcontrast t: {st.tolist()} vs {tt.tolist()}"
            d = tempfile.mkdtemp()
            try:
                fn = os.path.join(d, "g" if n % 2 else "g.npz")
                L.save(fn)
                L2 = lg.load(fn)
                c2 = L2.contrast(c)
                if not (np.array_equal(L2.beta, L.beta) and np.array_equal(np.atleast_1d(L2.s2), np.atleast_1d(L.s2))
                        and float(L2.dof) == float(L.dof) and np.array_equal(c2.effect, Lc.effect)
                        and np.array_equal(c2.variance, Lc.variance)):
                    fail = "labs glm save/load does not reproduce the fit and its contrasts"
            finally:
                shutil.rmtree(d, ignore_errors=True)
        # axis option
        chk("labs glm (ols) axis=1 beta is not the transpose of axis=0", np.asarray(Lt.beta).T, L.beta, rt_o, bs)
        chk("labs glm (ols) axis=1 s2 differs from axis=0", np.atleast_1d(Lt.s2), np.atleast_1d(L.s2), rt_o, ys * ys)
        chk("labs glm (kalman) axis=1 beta is not the transpose of axis=0", np.asarray(Kt.beta).T, K.beta, 10 * rk, bs)
        chk("labs glm (kalman) axis=1 s2 differs from axis=0", np.atleast_1d(Kt.s2), np.atleast_1d(K.s2),
            10 * rk, ys * ys)
        if case.get("nd3") and v in (2, 4, 6):
            Y3 = Y.reshape(n, 2, v // 2)
            L3 = lg.glm(Y3, X); K3 = lg.glm(Y3, X, method="kalman")
            chk("labs glm (ols) on a 3-D block differs from the 2-D fit", np.asarray(L3.beta).reshape(p, v), L.beta,
                rt_o, bs)
            chk("labs glm (kalman) on a 3-D block differs from the 2-D fit", np.asarray(K3.beta).reshape(p, v),
                K.beta, 10 * rk, bs)
            # contrasts of the 3-D block (single row and several rows): each voxel keeps its own effect and
            # covariance, whatever the layout of the voxels and for both engines and both axis conventions
            Cq = np.vstack([c, np.eye(p)[(int(np.argmax(np.abs(c))) + 1) % p]]) if p >= 2 else None
            Y3b = np.ascontiguousarray(np.transpose(Y3, (1, 0, 2)))       # time axis in the middle
            for nm, fit2, fit3 in (("ols", L, L3), ("kalman", K, K3), ("ols, axis=1", L, lg.glm(Y3b, X, axis=1))):
                for Cm_ in ([c] if Cq is None else [c, Cq]):
                    Cm_ = np.asarray(Cm_, float)
                    for ty in (("t",) if Cm_.ndim == 1 else ("F", "tmin")):
                        try:
                            a2 = fit2.contrast(Cm_, type=ty); a3 = fit3.contrast(Cm_, type=ty)
                        except Exception as e:      # noqa: BLE001
                            if fail is None:
                                fail = f"labs glm ({nm}) contrast (type {ty}) on a 3-D block raised {type(e).__name__}: {e}"
                            continue
                        e2 = np.asarray(a2.effect, float); e3 = np.asarray(a3.effect, float).reshape(e2.shape)
                        v2 = np.asarray(a2.variance, float); v3 = np.asarray(a3.variance, float).reshape(v2.shape)
                        tol = (10 * rk) if nm == "kalman" else rt_o
                        chk(f"labs glm ({nm}) {ty} contrast effect on a 3-D block differs from the 2-D fit", e3, e2, tol,
                            bs * float(np.abs(Cm_).sum()))
                        # (absolute floor = natural size of a contrast variance, c cov c' * s2: on a block of
                        # numerically perfect fits every variance is rounding noise)
                        chk(f"labs glm ({nm}) {ty} contrast variance on a 3-D block differs from the 2-D fit "
                            f"(voxels mixed up?)", v3, v2, tol,
                            max(float(np.abs(v2).max()), covs * float(np.abs(Cm_).sum()) ** 2 * ys * ys))
            tags.append("3-D")
        # Kalman engine: ridge with lambda = 1e-7 (theorem kalman_is_ridge) => |b - b_ols| <= lambda |G| |b_ols|
        G = np.linalg.inv(X.T @ X)
        bound = 4 * LAMBDA * float(np.abs(G).sum()) * bs + rk * bs
        if fail is None and float(np.abs(np.asarray(K.beta) - beta).max()) > bound:
            fail = (f"labs glm kalman engine beta differs from the ols engine: {_worst(np.asarray(K.beta), beta)} "
                    f"(allowed {bound!r}; n={n}, p={p})")
        chk("labs glm kalman engine nvbeta differs from the ols engine", K.nvbeta, np.asarray(r.cov),
            rk + 4 * LAMBDA * float(np.abs(G).sum()), covs)
        chk("kalman.ols wrapper differs from the re-compiled C filter (beta)", kb, cB, 10 * rk, bs)
        chk("kalman.ols wrapper differs from the re-compiled C filter (s2)", np.asarray(ks2).ravel(), cs2, 10 * rk,
            ys * ys)
        # refined Kalman filter: shapes, dof and voxelwise behaviour only
        if fail is None and not (np.asarray(A1.beta).shape == (p, v) and float(A1.dof) == n - p
                                 and np.all(np.isfinite(A1.beta))):
            fail = f"labs glm model='ar1': beta shape {np.asarray(A1.beta).shape}, dof {A1.dof} (n={n}, p={p}, v={v})"
        if fail is None and v >= 2:
            A2 = lg.glm(Y[:, ::-1].copy(), X, model="ar1")
            if not _near(np.asarray(A2.beta)[:, ::-1], A1.beta, 1e-9, bs):
                fail = "labs glm model='ar1': reversing the voxel order changes the per-voxel estimates"
        # s2 of the Kalman engine (last: this is the known finding)
        if case.get("s2check"):
            lines, impl = [], []
            tags.append("kalman-s2-checked")
        if fail is None and case.get("s2check"):
            ks = np.atleast_1d(np.asarray(K.s2, float))
            if not _near(ks, s2, 10 * rk, ys * ys):
                ratio = float(np.max(ks) / np.max(s2)) if np.max(s2) > 0 else float("nan")
                # ssd of the filter = min RSS + ridge term <= lambda*|b_ols|^2 (diffuse prior 1e7)
                ridge = 4 * LAMBDA * (beta ** 2).sum(0) / (n - p)
                if np.all(np.abs(ks * n / (n - p) - s2) <= 10 * rk * np.maximum(ys * ys, s2) + ridge):
                    fail = (f"kalman-s2: labs glm kalman engine returns s2 = ssd/n: {ks.tolist()} while the ols "
                            f"engine returns ssd/(n-p): {s2.tolist()} (ratio {ratio!r} = (n-p)/n = {(n - p) / n!r}; "
                            f"n={n}, p={p})")
                else:
                    fail = (f"labs glm kalman engine s2 {ks.tolist()} differs from the ols engine {s2.tolist()} "
                            f"and is not ssd/n either (n={n}, p={p})")
        return {"lines": lines, "impl": impl, "oracle": fail, "tags": tags, "mutated": mut,
                "nontrivial": p >= 2 or v >= 2}

    # -- GeneralLinearModel(model='ar1') --------------------------------------
    @staticmethod
    def _ar1_float(X, Y, steps):
        b = np.linalg.lstsq(X, Y, rcond=None)[0]
        r = Y - X @ b
        den = (r ** 2).sum(0)
        with np.errstate(all="ignore"):
            return (r[1:] * r[:-1]).sum(0) / den * steps, den

    def _glmar1(self, case):
        from nipy.algorithms.statistics.models.regression import ARModel
        from nipy.modalities.fmri.glm import GeneralLinearModel
        X = np.array(case["X"], float); Y = np.array(case["Y"], float)
        n, p = X.shape; v = Y.shape[1]; steps = case["steps"]
        c = np.array(case["c"], float)
        a1, den = self._ar1_float(X, Y, steps)
        ys = max(1.0, float(np.abs(Y).max()))
        tags = ["glmar1", f"steps={steps}"]
        if np.any(den < 1e-18 * ys * ys * n):
            # 0/0 autocorrelation (data in the column space): NaN label in the implementation
            return {"lines": [], "impl": [], "oracle": None, "nontrivial": False,
                    "tags": tags + ["zero-residual-skipped"], "mutated": None}
        safe = np.abs(a1 - np.round(a1)) > 1e-7       # away from a bin boundary
        safe |= np.abs(a1) < 0.5                       # truncation towards zero: 0 is not a boundary
        snap = Snapshot(X=X, Y=Y)
        try:
            g = GeneralLinearModel(X); g.fit(Y, model="ar1", steps=steps)
            B = g.get_beta(); M = g.get_mse(); lab = np.asarray(g.labels_, float)
            con = g.contrast(c)
        except Exception as e:
            return {"lines": [], "impl": [], "nontrivial": True, "tags": tags + ["raised"],
                    "oracle": f"GeneralLinearModel.fit(model='ar1') raised {type(e).__name__}: {e} "
                              f"(n={n}, p={p}, v={v})"}
        mut = snap.changed()
        bins = [int(round(x * steps)) for x in lab]
        cond = _cond(X) * (1 + float(np.abs(lab).max())) / max(1e-3, 1 - float(np.abs(lab).max()))
        rt = _rtol(cond); rt_o = 20 * rt
        bs = max(_bfloor(X, ys), float(np.abs(B).max()))
        line = f"glmar1 {steps} {pmat(X)} {pmat(Y)}"
        impl = ("glmar1", {"bins": bins, "beta": B.tolist(), "mse": M.tolist()},
                {"rtol": rt, "ys": 2 * ys, "n": n, "p": p, "v": v, "bfloor": _bfloor(X, ys)})
        fail = None
        if len(set(bins)) > 1:
            tags.append("multi-bin")
        if np.any(np.abs(lab) >= 1):
            fail = f"AR(1) label outside the stationarity region: {lab.tolist()}"
        # every voxel: the scattered result is the single-voxel AR fit with that voxel's label
        for j in range(v):
            if fail is not None:
                break
            rj = ARModel(X, lab[j]).fit(Y[:, j])
            if not _near(np.asarray(rj.theta), B[:, j], rt_o, bs) or not _near(rj.MSE, M[j], rt_o, 4 * ys * ys):
                fail = (f"voxel {j} (label {lab[j]}): get_beta/get_mse {B[:, j].tolist()}, {M[j]!r} differ from the "
                        f"single-voxel ARModel fit {np.asarray(rj.theta).tolist()}, {float(rj.MSE)!r}")
        if fail is None and not _near(con.effect.ravel(), c @ B, rt_o, bs * np.abs(c).sum()):
            fail = "contrast effect of the ar1 fit is not c . get_beta()"
        if fail is None and float(con.dof) != n - p:
            fail = f"contrast dof of the ar1 fit is {con.dof}, n - p = {n - p}"
        # voxel order and grouping
        for name, idx in (("permutation", case["perm"]), ("selection", case["sel"])):
            if fail is not None:
                break
            g2 = GeneralLinearModel(X); g2.fit(Y[:, idx], model="ar1", steps=steps)
            ok = safe[idx]
            B2 = g2.get_beta(); M2 = g2.get_mse()
            if not (_near(B2[:, ok], B[:, idx][:, ok], rt_o, bs) and _near(M2[ok], M[idx][ok], rt_o, 4 * ys * ys)):
                fail = (f"ar1 fit of the voxel {name} {idx} differs from the {name} of the full fit: "
                        f"{_worst(B2[:, ok], B[:, idx][:, ok])}")
        return {"lines": [line], "impl": [impl], "oracle": fail, "tags": tags, "mutated": mut,
                "nontrivial": True}

    # -- results API / matrices (harness/props/c05_results.py) ---------------------
    def _results(self, case):
        import sys
        return RS.run_results(sys.modules[__name__], case)

    def _matrices(self, case):
        import sys
        return RS.run_matrices(sys.modules[__name__], case)

    # -- AR(p), labs axis, fMRI classes (harness/props/c05_more.py) ------------------
    def _ar(self, case):
        import sys
        return MR.run_ar(sys.modules[__name__], case)

    def _labs3(self, case):
        import sys
        return MR.run_labs3(sys.modules[__name__], case)

    def _fmri(self, case):
        import sys
        return MR.run_fmri(sys.modules[__name__], case)

    # -- wave 3 (harness/props/c05_w3.py) ------------------------------------------
    def _hist(self, case):
        import sys
        return W3.run_hist(sys.modules[__name__], case)

    def _yw2(self, case):
        import sys
        return W3.run_yw(sys.modules[__name__], case)

    def _gls(self, case):
        import sys
        return W3.run_gls(sys.modules[__name__], case)

    def _estim(self, case):
        import sys
        return W3.run_estim(sys.modules[__name__], case)

    def _bias2(self, case):
        import sys
        return W3.run_bias(sys.modules[__name__], case)

    def _bins(self, case):
        import sys
        return W3.run_bins(sys.modules[__name__], case)

    def _labsnd(self, case):
        import sys
        return W3.run_labsnd(sys.modules[__name__], case)

    def _rkf(self, case):
        import sys
        return W3.run_rkf(sys.modules[__name__], case)

    # -- refusals ---------------------------------------------------------------
    def _refuse(self, case):
        from nipy.algorithms.statistics.models import regression as reg
        from nipy.labs.glm import glm as lg
        from nipy.modalities.fmri.glm import GeneralLinearModel
        X = np.array(case["X"], float); Y = np.array(case["Y"], float)
        n, p = X.shape
        bad = case["bad"]

        def attempt(f):
            try:
                f()
                return "ok"
            except Exception as e:
                return errname(e)

        if bad == "rows":
            line = f"guard fmri ols {Y.shape[0]} {n}"
            got = attempt(lambda: GeneralLinearModel(X).fit(Y))
        elif bad == "rows-labs":
            line = f"guard labs spherical none {Y.shape[0]} {n}"
            got = attempt(lambda: lg.glm(Y, X))
        elif bad == "model":
            line = f"guard fmri ar2 {Y.shape[0]} {n}"
            got = attempt(lambda: GeneralLinearModel(X).fit(Y, model="ar2"))
        elif bad == "method":
            line = f"guard labs ar1 ols {Y.shape[0]} {n}"
            got = attempt(lambda: lg.glm(Y, X, model="ar1", method="ols"))
        elif bad == "weights":
            line = f"guard wls {n + 1} {n}"
            got = attempt(lambda: reg.WLSModel(X, np.ones(n + 1)))
        elif bad == "tcon":
            line = f"guard tcon {p + 1} {p}"
            got = attempt(lambda: reg.OLSModel(X).fit(Y).Tcontrast(np.ones(p + 1)))
        elif bad == "abstract":
            from nipy.algorithms.statistics.models import model as md
            name = ["initialize", "fit", "predict", "logL", "score", "information"][(n + p + Y.shape[1]) % 6]
            line = f"guard abstract {name}"
            obj = md.Model() if name in ("initialize", "fit", "predict") else md.LikelihoodModel()
            args = {"initialize": (), "fit": (), "predict": (), "logL": (0, Y), "score": (0, Y), "information": (0,)}[name]
            got = attempt(lambda: getattr(obj, name)(*args))
        else:   # rank deficient design: outside the property's quantifier; the model must refuse it
            line = f"fit {pmat(X)} {pmat(Y)} ols {frs([1.0] * p)} {pmat(np.eye(p)[:1])}"
            m = reg.OLSModel(X)
            got = "error:singular" if m.df_model < p else "full-rank"
        return {"lines": [line], "impl": [("text", got, {})], "oracle": None, "nontrivial": False,
                "tags": ["refuse", "bad=" + bad], "mutated": None}

    # ------------------------------------------------------------------
    def compare(self, case, impl_obs, model_out):
        kind, obs, meta = impl_obs
        if kind == "text":
            return None if obs == model_out else f"impl={obs!r} model={model_out!r}"
        if kind == "res":
            return RS.compare_results(case, obs, meta, model_out)
        if kind in ("arw", "yw", "arbias", "iterfit", "labs3", "glmcon", "scaling"):
            return MR.compare_more(kind, case, obs, meta, model_out)
        if kind in W3.KINDS:
            return W3.compare_w3(kind, case, obs, meta, model_out)
        if kind == "recip":
            secs = model_out.split(" | ")
            if len(secs) != 2:
                return f"model returned {model_out[:60]!r}"
            for name, a, sct in (("pos_recipr", obs[0], secs[0]), ("recipr0", obs[1], secs[1])):
                b = [float(x) for x in parse_rats(sct)]
                if len(a) != len(b) or any(not (x == y or abs(x - y) <= 1e-15 * abs(y)) for x, y in zip(a, b)):
                    return f"{name}: impl={a} model={b}"
            return None
        if model_out.startswith(("error", "bad-op")):
            return f"impl returned values, model says {model_out}"
        secs = model_out.split(" | ")

        def sec(i):
            return np.array([float(x) for x in parse_rats(secs[i])]) if i < len(secs) else np.array([])

        def diff(name, a, b, rtol, scale):
            a = np.asarray(a, float).ravel()
            if a.shape != b.shape:
                return f"{name}: length impl={a.size} model={b.size}"
            if not _near(a, b, rtol, scale):
                return f"{name}: impl/model {_worst(a, b)}"
            return None

        rt, ys = meta["rtol"], meta["ys"]
        n, p = meta["n"], meta["p"]
        if kind == "fit":
            if len(secs) != 9:
                return f"model returned {len(secs)} sections"
            beta = sec(0); bs = max(meta.get("bfloor", 1e-12), float(np.abs(beta).max()))
            cov = sec(4); covs = max(1e-300, float(np.abs(cov).max()))
            disp = sec(2)
            tvs = covs * meta["cabs"] ** 2 * ys * ys
            for d in (diff("theta", obs["beta"], beta, rt, bs),
                      diff("wresid", obs["wresid"], sec(1), rt, ys),
                      diff("dispersion", obs["dispersion"], disp, rt, ys * ys),
                      None if str(obs["df"]) == secs[3].strip() else f"df_resid impl={obs['df']} model={secs[3]}",
                      diff("normalized_cov_beta", obs["cov"], cov, rt, covs),
                      diff("predicted", obs["predicted"], sec(5), rt, max(ys, bs)),
                      diff("Tcontrast effect", obs["teffect"], sec(6), rt, bs * max(1.0, meta["cabs"])),
                      diff("Tcontrast sd^2", obs["tvar"], sec(7), rt, tvs)):
                if d is not None:
                    return d
            # t = effect / sd and F wherever the fit is not (numerically) perfect
            ok = disp > 1e-6 * ys * ys
            tv = sec(7); te = sec(6)
            with np.errstate(all="ignore"):
                tm = np.where(tv > 0, te / np.sqrt(np.where(tv > 0, tv, 1.0)), 0.0)
            good = ok & (tv > 1e-9 * tvs)
            d = diff("Tcontrast t", np.asarray(obs["t"])[good], tm[good], 1e3 * rt, 1e-6)
            if d is not None:
                return d
            if isinstance(obs["F"], str) or secs[8].startswith("error"):
                return None if (isinstance(obs["F"], str) and secs[8].startswith("error")) or not ok.all() \
                    else f"Fcontrast impl={obs['F']} model={secs[8][:60]}"
            Fm = sec(8)
            return diff("Fcontrast F", np.asarray(obs["F"])[ok], Fm[ok], 1e4 * rt, 1e-9)
        if kind == "labs":
            if len(secs) != 6:
                return f"model returned {len(secs)} sections"
            beta = sec(0); bs = max(meta.get("bfloor", 1e-12), float(np.abs(beta).max()))
            nv = sec(1); covs = max(1e-300, float(np.abs(nv).max()))
            for d in (diff("labs beta", obs["beta"], beta, rt, bs), diff("labs nvbeta", obs["nvbeta"], nv, rt, covs),
                      diff("labs s2", obs["s2"], sec(2), rt, ys * ys),
                      diff("labs dof", [obs["dof"]], sec(3), 0, 0),
                      diff("labs contrast effect", obs["effect"], sec(4), rt, bs * max(1.0, meta["cabs"])),
                      diff("labs contrast variance", obs["variance"], sec(5), rt, covs * meta["cabs"] ** 2 * ys * ys)):
                if d is not None:
                    return d
            return None
        if kind == "kalman":
            if len(secs) != 4:
                return f"model returned {len(secs)} sections"
            rk = meta["rk"]
            beta = sec(0); bs = max(meta.get("bfloor", 1e-12), float(np.abs(beta).max()))
            vb = sec(3); covs = max(1e-300, float(np.abs(vb).max()))
            for d in (diff("kalman b", obs["beta"], beta, rk, bs), diff("kalman s2", obs["s2"], sec(1), rk, ys * ys),
                      diff("kalman dof", [obs["dof"]], sec(2), 0, 0), diff("kalman Vb", obs["Vb"], vb, rk, covs)):
                if d is not None:
                    return d
            return None
        if kind == "glmar1":
            if len(secs) != 4:
                return f"model returned {len(secs)} sections"
            mb = [int(x) for x in secs[0].split()]
            ex = sec(1)
            v = meta["v"]
            beta = sec(2).reshape(p, v); mse = sec(3)
            bs = max(meta.get("bfloor", 1e-12), float(np.abs(beta).max()))
            B = np.asarray(obs["beta"], float); M = np.asarray(obs["mse"], float)
            for j in range(v):
                if mb[j] != obs["bins"][j]:
                    if abs(ex[j] - round(ex[j])) < 1e-7:
                        continue            # bin boundary: either bin is a legal float outcome
                    return f"voxel {j}: AR(1) bin impl={obs['bins'][j]} model={mb[j]} (exact ar1*steps={ex[j]!r})"
                d = diff(f"voxel {j} get_beta", B[:, j], beta[:, j], rt, bs) or \
                    diff(f"voxel {j} get_mse", [M[j]], mse[j:j + 1], rt, ys * ys)
                if d is not None:
                    return d
            return None
        return "unknown observation kind"

    # ------------------------------------------------------------------
    def _shrink_results(self, case):
        X, Y, ops = case["X"], case["Y"], case["ops"]
        n, p, v = len(X), len(X[0]), len(Y[0])

        def base(**kw):
            c = dict(case); c.update(kw); return c

        if len(ops) > 1:
            for op in ops:
                yield base(ops=[op])
            for k in range(len(ops)):
                yield base(ops=ops[:k] + ops[k + 1:])
        if case["w"]["kind"] != "ols":
            yield base(w={"kind": "ols"})
        if case.get("layout") != "C":
            yield base(layout="C")
        if v > 1:
            for j in range(v):
                ops2 = []
                for op in ops:
                    op = dict(op)
                    d = op.get("disp")
                    if d and d["k"] == "a1":
                        op["disp"] = {"k": "a1", "d": d["d"][:j] + d["d"][j + 1:]}
                    ops2.append(op)
                yield base(Y=[r[:j] + r[j + 1:] for r in Y], ops=ops2, sel=[0])
        if len(case.get("sel") or []) > 1:
            yield base(sel=case["sel"][:1])
        if n > p + 1 and case["w"]["kind"] in ("ols", "ar"):
            for i in (n - 1, 0):
                X2 = X[:i] + X[i + 1:]
                if _rank(X2) == p:
                    yield base(X=X2, Y=Y[:i] + Y[i + 1:])
        if p > 1:
            X2 = [r[:-1] for r in X]
            ops2 = [RS_drop_last(op, p) for op in ops]
            if _rank(X2) == p - 1 and all(o is not None for o in ops2):
                yield base(X=X2, ops=ops2)
        if any(abs(y) > 2 for r in Y for y in r):
            yield base(Y=[[float(int(y / 2)) for y in r] for r in Y])
        if any(x != round(x) for r in X for x in r):
            X2 = [[float(round(x)) for x in r] for r in X]
            if _rank(X2) == p:
                yield base(X=X2)

    def shrink(self, case):
        if case["kind"] == "results":
            yield from self._shrink_results(case)
            return
        if case["kind"] == "matrices":
            if case["what"] == "recip":
                xs = case["xs"]
                for k in range(len(xs)):
                    yield dict(case, xs=xs[:k] + xs[k + 1:], shape=None)
            else:
                X = case["X"]
                if len(X) > 1:
                    for i in range(len(X)):
                        yield dict(case, X=X[:i] + X[i + 1:], Y=case["Y"][:i] + case["Y"][i + 1:])
                if len(X[0]) > 1:
                    for j in range(len(X[0])):
                        yield dict(case, X=[r[:j] + r[j + 1:] for r in X])
            return
        if case["kind"] == "labs3":
            Y3 = np.array(case["Y3"], float)
            for ax in range(3):
                if ax != case["axis"] and Y3.shape[ax] > 1:
                    yield dict(case, Y3=np.take(Y3, range(Y3.shape[ax] - 1), axis=ax).tolist())
                    yield dict(case, Y3=np.take(Y3, range(1, Y3.shape[ax]), axis=ax).tolist())
            if case.get("layout") != "C":
                yield dict(case, layout="C")
            return
        if case["kind"] == "ar":
            X, Y = case["X"], case["Y"]
            n, p, v = len(X), len(X[0]), len(Y[0])
            o = case["order"]
            if v > 1:
                for j in range(v):
                    yield dict(case, Y=[r[:j] + r[j + 1:] for r in Y], sel=[0])
            if n > p + o + 3:
                for i in (n - 1, 0):
                    X2 = X[:i] + X[i + 1:]
                    if _rank(X2) == p:
                        yield dict(case, X=X2, Y=Y[:i] + Y[i + 1:], df=None)
            if p > 1:
                X2 = [r[:-1] for r in X]
                if _rank(X2) == p - 1:
                    yield dict(case, X=X2)
            if o > 1 and case["what"] != "whiten":
                yield dict(case, order=o - 1)
            if case["what"] == "whiten" and o > 1:
                yield dict(case, order=o - 1, rho=case["rho"][:-1], rho_as="list")
            if case["what"] == "iter" and case["niter"] > 1:
                yield dict(case, niter=case["niter"] - 1)
            if any(abs(y) > 2 for r in Y for y in r):
                yield dict(case, Y=[[float(int(y / 2)) for y in r] for r in Y])
            return
        X, Y = case.get("X"), case.get("Y")
        if not X or not Y or case["kind"] == "refuse":
            return
        n, p, v = len(X), len(X[0]), len(Y[0])

        def base(**kw):
            c = dict(case); c.update(kw); return c

        # fewer voxels
        if v > 1:
            for j in range(v):
                Y2 = [r[:j] + r[j + 1:] for r in Y]
                kw = {"Y": Y2}
                if "sel" in case:
                    kw["sel"] = [0]
                if "perm" in case:
                    kw["perm"] = list(range(v - 1))
                if "pos" in case:
                    kw["pos"] = case["pos"][:v - 1]
                if case.get("nd3"):
                    kw["nd3"] = False
                yield base(**kw)
        # fewer observations (keep full rank, n > p, and n-indexed parameters consistent)
        w = case.get("w", {"kind": "ols"})
        if n > p + 1 and w["kind"] in ("ols", "ar"):
            for i in (n - 1, 0):
                X2 = X[:i] + X[i + 1:]
                if _rank(X2) == p and (case["kind"] != "glmar1" or n - 1 >= p + 2):
                    yield base(X=X2, Y=Y[:i] + Y[i + 1:])
        # fewer regressors
        if p > 1 and "c" in case and case["kind"] != "fmri":
            for j in range(p):
                X2 = [r[:j] + r[j + 1:] for r in X]
                if _rank(X2) == p - 1:
                    kw = {"X": X2, "c": (case["c"][:j] + case["c"][j + 1:])}
                    if not any(kw["c"]):
                        kw["c"] = [1.0] + [0.0] * (p - 2)
                    if "C" in case:
                        kw["C"] = np.eye(p - 1)[:1].tolist()
                        kw["T"] = np.eye(p - 1).tolist()
                    yield base(**kw)
        # simpler numbers
        if any(x != round(x) for r in X for x in r):
            X2 = [[float(round(x)) for x in r] for r in X]
            if _rank(X2) == p:
                yield base(X=X2)
        if any(abs(y) > 2 for r in Y for y in r):
            yield base(Y=[[float(int(y / 2)) for y in r] for r in Y])

    def classify(self, case, failure):
        if case.get("kind") == "engines" and failure.startswith("kalman-s2:"):
            return KEY_KALMAN_S2
        return None


CHECK = C05()
