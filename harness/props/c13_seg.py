"""C13, Markov-random-field segmentation (segmentation.py, mrf.c, brain_segmentation.py).

The C kernels are re-compiled from the tree under test and called through ctypes; the argument checks
of the Cython glue (`_segmentation.pyx`, cannot be rebuilt here) are replicated and raise `GlueRefusal`.

Case kinds (mixed into the C13 check):
  edges  : `make_edges(idx, ngb_size)` for random grids / masks / labellings (`S edges`);
  mapppm : `map_from_ppm(ppm, mask)` with mask None / boolean array / tuple of index arrays (`S map`);
  segh   : an operation history on ONE `Segmentation` object (every `__init__` branch: mu/sigma or ppm
           given, prior, U, mask), ops ve_step / vm_step(freeze) / run / map / free_energy /
           set_markov_prior, observed after every op (`vestep`, `S vm`, `S map`, `S energy`);
  brain  : `BrainT1Segmentation` end to end (`S convert`).
"""
from __future__ import annotations

import ctypes
import math

import numpy as np

from harness.util import Snapshot, fr, frs

NGB6 = [(1, 0, 0), (-1, 0, 0), (0, 1, 0), (0, -1, 0), (0, 0, 1), (0, 0, -1)]
NGB26 = [(1, 0, 0), (-1, 0, 0), (0, 1, 0), (0, -1, 0), (1, 1, 0), (-1, -1, 0), (1, -1, 0), (-1, 1, 0),
         (1, 0, 1), (-1, 0, 1), (0, 1, 1), (0, -1, 1), (1, 1, 1), (-1, -1, 1), (1, -1, 1), (-1, 1, 1),
         (1, 0, -1), (-1, 0, -1), (0, 1, -1), (0, -1, -1), (1, 1, -1), (-1, -1, -1), (1, -1, -1),
         (-1, 1, -1), (0, 0, 1), (0, 0, -1)]
NGB = {6: NGB6, 26: NGB26}
VE_TINY = 1e-300
VM_TINY = 1e-50


class GlueRefusal(ValueError):
    """the ValueError `_segmentation.pyx` raises for arrays the C code cannot take"""


_LIB = None


def seglib():
    global _LIB
    if _LIB is None:
        from harness import cshim
        lib = cshim.load("segmentation")
        lib.ve_step.argtypes = [ctypes.py_object] * 4 + [ctypes.c_int, ctypes.c_double]
        lib.ve_step.restype = None
        lib.make_edges.argtypes = [ctypes.py_object, ctypes.c_int]
        lib.make_edges.restype = ctypes.py_object
        lib.interaction_energy.argtypes = [ctypes.py_object] * 3 + [ctypes.c_int]
        lib.interaction_energy.restype = ctypes.c_double
        _LIB = lib
    return _LIB


def _need(cond, msg):
    if not cond:
        raise GlueRefusal(msg)


def c_ve_step(ppm, ref, XYZ, U, ngb_size, beta):
    """`_segmentation._ve_step` with mrf.c re-compiled from the tree under test"""
    _need(ppm.flags["C_CONTIGUOUS"] and ppm.dtype == np.float64, "ppm array should be double C-contiguous")
    _need(ref.flags["C_CONTIGUOUS"] and ref.dtype == np.float64, "ref array should be double C-contiguous")
    _need(XYZ.flags["C_CONTIGUOUS"] and XYZ.dtype == np.intp, "XYZ array should be intp C-contiguous")
    _need(XYZ.shape[1] == 3, "XYZ array should be 3D")
    _need(U.flags["C_CONTIGUOUS"] and U.dtype == np.float64, "U array should be double C-contiguous")
    _need(ppm.shape[-1] == ref.shape[-1], "Inconsistent shapes for ppm and ref arrays")
    seglib().ve_step(ppm, ref, XYZ, U, int(ngb_size), float(beta))
    return ppm


def c_make_edges(mask, ngb_size):
    _need(mask.flags["C_CONTIGUOUS"] and mask.dtype == np.intp, "mask array should be intp and C-contiguous")
    return seglib().make_edges(mask, int(ngb_size))


def c_interaction_energy(ppm, XYZ, U, ngb_size):
    _need(ppm.flags["C_CONTIGUOUS"] and ppm.dtype == np.float64, "ppm array should be double C-contiguous")
    _need(XYZ.flags["C_CONTIGUOUS"] and XYZ.dtype == np.intp, "XYZ array should be intp C-contiguous")
    _need(XYZ.shape[1] == 3, "XYZ array should be 3D")
    _need(U.flags["C_CONTIGUOUS"] and U.dtype == np.float64, "U array should be double C-contiguous")
    return float(seglib().interaction_energy(ppm, XYZ, U, int(ngb_size)))


def ve_sim(ppm, ref, XYZ, U, ngb_size, beta):
    """float replay of ve_step in the operation order of mrf.c: only used to obtain the table of
    exponential transforms handed to the model (its consistency is re-checked against the model)."""
    X, Y, Z, K = ppm.shape
    flat = ppm.astype(float).ravel().copy()
    u2 = Z * K; u1 = Y * u2; posmax = X * u1 - K
    E = []
    for idx in range(XYZ.shape[0]):
        x, y, z = (int(v) for v in XYZ[idx])
        res = [0.0] * K
        for dx, dy, dz in NGB[ngb_size]:
            pos = (x + dx) * u1 + (y + dy) * u2 + (z + dz) * K
            if pos < 0 or pos > posmax:
                continue
            for k in range(K):
                for kk in range(K):
                    res[k] += U[k, kk] * flat[pos + kk]
        e = [math.exp(-2 * beta * r) for r in res]
        p = [e[k] * ref[idx, k] for k in range(K)]
        psum = 0.0
        for v in p:
            psum += v
        pos = x * u1 + y * u2 + z * K
        for k in range(K):
            flat[pos + k] = p[k] / psum if psum > VE_TINY else (p[k] + VE_TINY / K) / (psum + VE_TINY)
        E.append(e)
    return E


def energy_py(ppm, XYZ, U, ngb_size):
    """independent evaluation of Σ_i q_iᵀ Σ_{j∈N(i)} U q_j (neighbours by the flat-position test of mrf.c)"""
    X, Y, Z, K = ppm.shape
    flat = np.asarray(ppm, dtype=float).reshape(-1, K)
    tot = 0.0
    for x, y, z in XYZ.tolist():
        acc = np.zeros(K)
        for dx, dy, dz in NGB[ngb_size]:
            pos = (x + dx) * Y * Z + (y + dy) * Z + (z + dz)
            if 0 <= pos < X * Y * Z:
                acc += U @ flat[pos]
        tot += float(flat[x * Y * Z + y * Z + z] @ acc)
    return tot


def _dy(rng, lo, hi, den=4):
    return rng.randint(int(lo * den), int(hi * den)) / den


def _simplex(rng, k):
    w = [rng.choice([1, 1, 2, 3, 5, 8]) for _ in range(k)]
    s = sum(w)
    return [x / s for x in w]


def _mat(a):
    return " ".join(fr(v) for v in np.asarray(a, dtype=float).ravel().tolist())


def _simplex_fail(name, z, atol=1e-9):
    z = np.asarray(z, dtype=float)
    if z.size == 0:
        return None
    if not np.all(np.isfinite(z)):
        return f"{name}: non-finite membership"
    if z.min() < 0:
        return f"{name}: negative membership {z.min()}"
    s = z.sum(-1)
    j = int(np.argmax(np.abs(s - 1)))
    if abs(s.ravel()[j] - 1) > atol:
        return f"{name}: memberships of voxel {j} sum to {float(s.ravel()[j])!r}, not 1"
    return None


def json_key(*a):
    return repr(a)


def geometric_edges(idx, ngb):
    """ordered pairs (idx[v], idx[v + o]) for in-mask voxels v (C order) and offsets o (table order) whose
    neighbour v + o lies in the grid and in the mask"""
    X, Y, Z = idx.shape
    out = []
    for x in range(X):
        for y in range(Y):
            for z in range(Z):
                i = int(idx[x, y, z])
                if i < 0:
                    continue
                for dx, dy, dz in NGB[ngb]:
                    a, b, c = x + dx, y + dy, z + dz
                    if 0 <= a < X and 0 <= b < Y and 0 <= c < Z and idx[a, b, c] >= 0:
                        out.append((i, int(idx[a, b, c])))
    return out


class SegMixin:
    # ------------------------------------------------------------------ generation
    def _gen_mask3(self, rng, X, Y, Z):
        mode = rng.choice(["full", "dense", "sparse", "interior", "single", "empty"] if X * Y * Z > 1 else ["full", "empty"])
        m = np.zeros((X, Y, Z), dtype=int)
        if mode == "full":
            m[:] = 1
        elif mode in ("dense", "sparse"):
            pr = 0.75 if mode == "dense" else 0.35
            for i in range(m.size):
                m.flat[i] = 1 if rng.random() < pr else 0
        elif mode == "interior":
            if min(X, Y, Z) >= 3:
                for x in range(1, X - 1):
                    for y in range(1, Y - 1):
                        for z in range(1, Z - 1):
                            m[x, y, z] = 1 if rng.random() < 0.8 else 0
            else:
                m[:] = 1
        elif mode == "single":
            m.flat[rng.randrange(m.size)] = 1
        return mode, m.ravel().tolist()

    def _gen_edges(self, rng, dims=None):
        X, Y, Z = dims or tuple(rng.choice([1, 2, 3, 3, 4, 5]) for _ in range(3))
        mode, mask = self._gen_mask3(rng, X, Y, Z)
        m = sum(mask)
        lab = rng.choice(["arange", "arange", "perm", "sparse-labels"])
        labels = list(range(m))
        if lab == "perm":
            rng.shuffle(labels)
        elif lab == "sparse-labels":
            labels = sorted(rng.sample(range(3 * m + 2), m))
            if rng.random() < 0.5:
                rng.shuffle(labels)
        it = iter(labels)
        idx = [next(it) if v else -rng.choice([1, 1, 2, 7]) for v in mask]
        return {"kind": "edges", "shape": [X, Y, Z], "idx": idx, "ngb": rng.choice([6, 26]), "mask_mode": mode,
                "labels": lab, "layout": rng.choice(["C", "C", "C", "F", "int32", "strided"])}

    def _gen_mapppm(self, rng):
        nd = rng.choice([1, 2, 3, 3])
        shape = [rng.choice([1, 2, 3, 4]) for _ in range(nd)]
        K = rng.choice([1, 2, 3, 4, 5])
        nv = int(np.prod(shape))
        ppm = []
        for _ in range(nv):
            r = rng.random()
            if r < 0.25:
                row = [rng.choice([0.0, 0.5])] * K                         # all tied
            elif r < 0.5:
                row = _simplex(rng, K)
            else:
                row = [rng.choice([0, 0.125, 0.25, 0.5, 0.5, 1.0, 3.0]) for _ in range(K)]
            ppm.append(row)
        mk = rng.choice(["none", "none", "bool", "bool", "tuple"])
        mask = [1 if rng.random() < rng.choice([1.0, 0.6, 0.3, 0.0]) else 0 for _ in range(nv)]
        return {"kind": "mapppm", "shape": shape, "K": K, "ppm": ppm, "mask_kind": mk, "mask": mask,
                "dtype": rng.choice(["float64", "float64", "float32", "int"]), "order": rng.choice(["C", "C", "F"])}

    def _gen_segh(self, rng):
        X, Y, Z = (rng.choice([2, 3, 3, 4]) for _ in range(3))
        K = rng.choice([2, 2, 3, 4]); nch = rng.choice([1, 1, 2])
        nvox = X * Y * Z
        mk = rng.choice(["none", "bool", "bool"])
        mask = [1 if rng.random() < 0.8 else 0 for _ in range(nvox)]
        if sum(mask) < max(4, K + 1) or mk == "none":
            mask = [1] * nvox
        data = [[(rng.choice([4096.0, -900.0]) if rng.random() < 0.05 else _dy(rng, 0, 16, 4)) for _ in range(nch)]
                for _ in range(nvox)]
        branch = rng.choice(["musigma", "musigma", "ppm"])
        c = {"kind": "segh", "shape": [X, Y, Z], "K": K, "nch": nch, "mask_kind": mk, "mask": mask, "data": data,
             "branch": branch, "beta": rng.choice([0.0, 0.1, 0.5, 2.0]), "ngb": rng.choice([6, 26]),
             "int_data": nch == 1 and rng.random() < 0.2}
        if c["int_data"]:
            c["data"] = [[float(int(v[0]))] for v in data]
        c["mu"] = [[_dy(rng, 0, 16, 2) for _ in range(nch)] for _ in range(K)]
        sig = []
        for _ in range(K):
            L = np.zeros((nch, nch))
            for i in range(nch):
                for j in range(i):
                    L[i, j] = _dy(rng, -1, 1, 4)
                L[i, i] = rng.choice([1.0, 1.5, 2.0, 3.0])
            sig.append((L @ L.T * 2).tolist())
        c["sigma"] = sig
        if branch == "ppm":
            init = rng.choice(["simplex", "simplex", "free"])
            ppm = []
            for v in range(nvox):
                if init == "simplex":
                    ppm.append(_simplex(rng, K) if (mask[v] or rng.random() < 0.3) else [0.0] * K)
                else:
                    ppm.append([rng.choice([0.125, 0.25, 0.5, 1.0, 2.0]) for _ in range(K)])
            c["ppm0"] = ppm
            c["ppm_layout"] = rng.choice(["C", "C", "C", "F", "float32"])
        c["prior"] = [[rng.choice([0.125, 0.25, 0.5, 1.0]) for _ in range(K)] for _ in range(nvox)] \
            if rng.random() < 0.3 else None
        c["U"] = [[rng.choice([0, 0.5, 1.0, 2.0, 0.25]) for _ in range(K)] for _ in range(K)] if rng.random() < 0.3 else None
        ops = []
        for i in range(rng.choice([2, 3, 4, 6])):
            r = rng.random()
            if i == 0 and branch == "ppm":
                ops.append(rng.choice([["vm"], ["run", rng.choice([1, 2]), []]]))
            elif r < 0.3:
                ops.append(["ve"])
            elif r < 0.45:
                ops.append(["vm"])
            elif r < 0.55:
                ops.append(["vmf", sorted(rng.sample(range(K), rng.randint(1, K - 1)))])
            elif r < 0.7:
                ops.append(["run", rng.choice([0, 1, 2]), rng.choice([[], [], [rng.randrange(K)]])])
            elif r < 0.8:
                ops.append(["map"])
            elif r < 0.9:
                ops.append(["fe"])
            else:
                ops.append(["smp", rng.choice([0.0, 0.25, 1.0]), rng.random() < 0.5])
        ops.append(rng.choice([["map"], ["fe"], ["ve"]]))
        c["ops"] = ops
        c["t"] = [_dy(rng, -8, 8, 2) for _ in range(nch)]
        c["a"] = [rng.choice([0.5, 2.0, 4.0, -1.0, 1.0]) for _ in range(nch)]
        c["perm"] = rng.sample(range(K), K)
        return c

    def _gen_brain(self, rng):
        X, Y, Z = (rng.choice([3, 4, 5]) for _ in range(3))
        nvox = X * Y * Z
        centers = [rng.choice([200, 400]), rng.choice([900, 1100]), rng.choice([1600, 2000])]
        data = [float(max(1, int(rng.choice(centers) + rng.randint(-150, 150)))) for _ in range(nvox)]
        mk = rng.choice(["none", "none", "bool"])
        mask = [1 if rng.random() < 0.85 else 0 for _ in range(nvox)] if mk != "none" else [1] * nvox
        if sum(mask) < 12:
            mask = [1] * nvox
        model = rng.choice(["3k", "3k", "4k", "5k", "mat6", "mat3"])
        return {"kind": "brain", "shape": [X, Y, Z], "data": data, "mask_kind": mk, "mask": mask, "model": model,
                "niters": rng.choice([0, 1, 2, 3]), "ngb": rng.choice([6, 26]), "beta": rng.choice([0.0, 0.2, 0.5]),
                "convert": rng.random() < 0.7, "init": rng.random() < 0.3}

    # ------------------------------------------------------------------ edges
    def _run_edges(self, c):
        X, Y, Z = c["shape"]; ngb = int(c["ngb"])
        base = np.array(c["idx"], dtype=np.intp).reshape(X, Y, Z)
        lay = c["layout"]
        if lay == "F":
            arr = np.asfortranarray(base)
        elif lay == "int32":
            arr = base.astype(np.int32)
        elif lay == "strided":
            big = np.zeros((X, Y, 2 * Z), dtype=np.intp); big[:, :, ::2] = base
            arr = big[:, :, ::2]
        else:
            arr = np.ascontiguousarray(base)
        refused = not (arr.flags["C_CONTIGUOUS"] and arr.dtype == np.intp)
        snap = Snapshot(idx=arr)
        tags = ["edges", f"ngb={ngb}", "mask=" + c["mask_mode"], "layout=" + lay]
        try:
            E = c_make_edges(arr, ngb)
        except GlueRefusal:
            return {"lines": [], "impl": [], "oracle": None if refused else "make_edges refused a valid intp C array",
                    "nontrivial": False, "tags": tags + ["refused"], "mutated": snap.changed()}
        fail = None
        if refused:
            fail = "make_edges accepted an array that is not intp C-contiguous"
        E = np.asarray(E)
        msize = int((base >= 0).sum())
        labels = set(int(v) for v in base[base >= 0])
        if fail is None and (E.ndim != 2 or E.shape[1] != 2 or E.dtype != np.intp):
            fail = f"make_edges returned an array of shape {E.shape} / dtype {E.dtype}"
        rows = [(int(a), int(b)) for a, b in E.tolist()] if fail is None else []
        if fail is None and len(rows) > ngb * msize:
            fail = f"make_edges stored {len(rows)} edges, more than the {ngb}·{msize} pairs it allocated"
        if fail is None:
            bad = [e for e in rows if e[0] not in labels or e[1] not in labels]
            if bad:
                fail = (f"make_edges (ngb_size={ngb}) on a {X}x{Y}x{Z} grid: edge {bad[0]} has an endpoint that is not "
                        f"the index of any in-mask voxel (valid indices: {sorted(labels)[:12]}...)")
        geo = geometric_edges(base, ngb)
        if fail is None:
            # every geometric neighbour pair must be stored, in the order of the scan
            it = iter(rows)
            missing = next((g for g in geo if not any(r == g for r in it)), None)
            if missing is not None:
                fail = (f"make_edges (ngb_size={ngb}): the pair {missing} of neighbouring in-mask voxels is missing "
                        f"(or out of order) in the {len(rows)} edges returned; expected {len(geo)} geometric pairs")
        border = any((x in (0, X - 1) or y in (0, Y - 1) or z in (0, Z - 1)) for x, y, z in np.argwhere(base >= 0))
        if fail is None and not border and rows != geo:
            fail = "make_edges: mask without border voxels, but the edges are not exactly the geometric neighbour pairs"
        if fail is None:
            pos = {int(base.flat[i]): i for i in range(base.size) if base.flat[i] >= 0}
            offs = {dx * Y * Z + dy * Z + dz for dx, dy, dz in NGB[ngb]}
            odd = next((e for e in rows if pos[e[1]] - pos[e[0]] not in offs), None)
            if odd is not None:
                fail = f"make_edges: edge {odd} joins voxels that are not adjacent for the {ngb}-neighbourhood"
        if border and len(rows) > len(geo):
            tags.append("wrapped-edges")
        line = f"S edges {X} {Y} {Z} {ngb} " + " ".join(str(int(v)) for v in base.ravel())
        impl = ("str", f"{msize} {len(rows)} | " + " ".join(f"{a},{b}" for a, b in rows))
        return {"lines": [line], "impl": [impl], "oracle": fail, "nontrivial": len(geo) > 0, "tags": tags,
                "mutated": snap.changed()}

    # ------------------------------------------------------------------ map_from_ppm
    def _run_mapppm(self, c):
        from nipy.algorithms.segmentation.segmentation import map_from_ppm
        shape = tuple(c["shape"]); K = c["K"]
        nv = int(np.prod(shape))
        ppm = np.array(c["ppm"], dtype=float).reshape(shape + (K,))
        if c["dtype"] == "float32":
            ppm = ppm.astype(np.float32)
        elif c["dtype"] == "int":
            ppm = np.round(ppm * 8).astype(np.int64)
        if c["order"] == "F":
            ppm = np.asfortranarray(ppm)
        mb = np.array(c["mask"], dtype=bool).reshape(shape)
        mk = c["mask_kind"]
        mask = None if mk == "none" else mb if mk == "bool" else np.where(mb)
        snap = Snapshot(ppm=ppm, mask=mb)
        lab = map_from_ppm(ppm) if mask is None else map_from_ppm(ppm, mask)
        eff = np.ones(shape, dtype=bool) if mask is None else mb
        want = np.zeros(shape, dtype=int)
        flat = ppm.reshape(nv, K)
        for v in range(nv):
            if eff.flat[v]:
                row = flat[v].tolist()
                want.flat[v] = 1 + row.index(max(row))
        fail = None
        if lab.shape != shape or lab.dtype != np.uint8:
            fail = f"map_from_ppm returned shape {lab.shape} dtype {lab.dtype}"
        elif not np.array_equal(lab, want):
            v = int(np.argwhere(lab.ravel() != want.ravel())[0][0])
            fail = (f"map_from_ppm(ppm{'' if mask is None else ', mask'}) labels voxel {v} with {int(lab.flat[v])}; the "
                    f"arg-max labelling is {int(want.flat[v])} (row {flat[v].tolist()}, {'default mask' if mask is None else 'in mask' if eff.flat[v] else 'outside the mask'})")
        line = (f"S map {0 if mask is None else 1} {nv} {K} " + (" ".join(str(int(b)) for b in mb.ravel()) + " " if mask is not None else "")
                + _mat(flat))
        return {"lines": [line], "impl": [("str", " ".join(str(int(v)) for v in lab.ravel()))], "oracle": fail,
                "nontrivial": K >= 2 and nv >= 2, "tags": ["mapppm", "mask=" + mk, "dtype=" + c["dtype"]],
                "mutated": snap.changed()}

    # ------------------------------------------------------------------ binarize_ppm
    def _gen_binar(self, rng):
        c = self._gen_mapppm(rng)
        n = rng.choice([1, 2, 3, 5, 8])
        c.update(kind="binar", shape=[n], ppm=(c["ppm"] * 8)[:n], mask=[1] * n, mask_kind="none")
        return c

    def _run_binar(self, c):
        from nipy.algorithms.segmentation.segmentation import binarize_ppm
        nv = c["shape"][0]; K = c["K"]
        q = np.array(c["ppm"], dtype=float).reshape(nv, K)
        if c["dtype"] == "float32":
            q = q.astype(np.float32)
        elif c["dtype"] == "int":
            q = np.round(q * 8).astype(np.int64)
        if c["order"] == "F":
            q = np.asfortranarray(q)
        snap = Snapshot(q=q)
        b = np.asarray(binarize_ppm(q))
        rows = [q[v].tolist() for v in range(nv)]
        wantb = np.zeros((nv, K)); wantb[np.arange(nv), [r.index(max(r)) for r in rows]] = 1
        fail = None
        if not (b.shape == (nv, K) and np.array_equal(b, wantb)):
            v = int(np.argwhere(b != wantb)[0][0]) if b.shape == (nv, K) else 0
            fail = (f"binarize_ppm: row {v} of the binarised map is {b[v].tolist()} for the posterior {rows[v]}: not the "
                    f"indicator of its arg-max class (rows must sum to one)")
        return {"lines": [f"S binar {nv} {K} {_mat(q)}"], "impl": [("str", " ".join(str(int(v)) for v in b.ravel()))],
                "oracle": fail, "nontrivial": K >= 2 and nv >= 2, "tags": ["binarize", "dtype=" + c["dtype"]],
                "mutated": snap.changed()}

    # ------------------------------------------------------------------ Segmentation histories
    def _seg_inputs(self, c, a=None, t=None, perm=None):
        X, Y, Z = c["shape"]; K = c["K"]; nch = c["nch"]
        a = np.ones(nch) if a is None else np.asarray(a, dtype=float)
        t = np.zeros(nch) if t is None else np.asarray(t, dtype=float)
        p = list(range(K)) if perm is None else list(perm)
        mb = np.array(c["mask"], dtype=bool).reshape(X, Y, Z)
        mask = None if c["mask_kind"] == "none" else mb if c["mask_kind"] == "bool" else np.where(mb)
        d = np.array(c["data"], dtype=float).reshape(X, Y, Z, nch) * a + t
        data = d[..., 0] if nch == 1 else d
        if c.get("int_data") and perm is None and np.all(a == 1) and np.all(t == 0):
            data = data.astype(np.int64)
        kw = {"mask": mask, "ngb_size": c["ngb"], "beta": c["beta"]}
        if c["branch"] == "musigma":
            kw["mu"] = (np.array(c["mu"], dtype=float).reshape(K, nch) * a + t)[p]
            kw["sigma"] = (np.array(c["sigma"], dtype=float).reshape(K, nch, nch) * (a[:, None] * a[None, :]))[p]
        else:
            q = np.array(c["ppm0"], dtype=float).reshape(X, Y, Z, K)[..., p]
            lay = c.get("ppm_layout", "C")
            kw["ppm"] = np.asfortranarray(q) if lay == "F" else q.astype(np.float32) if lay == "float32" else np.ascontiguousarray(q)
        if c["prior"] is not None:
            kw["prior"] = np.array(c["prior"], dtype=float).reshape(X, Y, Z, K)[..., p]
        if c["U"] is not None:
            kw["U"] = np.array(c["U"], dtype=float).reshape(K, K)[np.ix_(p, p)]
        return data, kw, mb

    def _seg_replay(self, c, observe, a=None, t=None, perm=None, keep=None):
        """build the object and run the history; `observe(S, op, before)` is called around every op"""
        from nipy.algorithms.segmentation import segmentation as sm
        data, kw, mb = self._seg_inputs(c, a, t, perm)
        if keep is not None:
            keep.update(data=data, **{k: v for k, v in kw.items() if isinstance(v, np.ndarray)})
        old = (sm._ve_step, sm._interaction_energy)
        sm._ve_step, sm._interaction_energy = c_ve_step, c_interaction_energy
        try:
            S = sm.Segmentation(data, **kw)
            status = "ok"
            p = list(range(c["K"])) if perm is None else list(perm)
            inv_p = list(np.argsort(p))
            for op in c["ops"]:
                if observe(S, op, True) is False:
                    status = "stopped"
                    break
                if op[0] == "ve":
                    S.ve_step()
                elif op[0] == "vm":
                    S.vm_step()
                elif op[0] == "vmf":
                    S.vm_step(freeze=tuple(int(inv_p[i]) for i in op[1]))
                elif op[0] == "run":
                    S.run(niters=op[1], freeze=tuple(int(inv_p[i]) for i in op[2]))
                elif op[0] == "smp":
                    S.set_markov_prior(op[1], U=(None if not op[2] else S.U.T.copy()))
                elif op[0] == "map":
                    S._last = S.map()
                elif op[0] == "fe":
                    S._last = S.free_energy()
                if observe(S, op, False) is False:
                    status = "stopped"
                    break
            return S, mb, status
        finally:
            sm._ve_step, sm._interaction_energy = old

    @staticmethod
    def _seg_degenerate(S, rel=1e-8):
        if not (np.all(np.isfinite(S.mu)) and np.all(np.isfinite(S.sigma))):
            return True
        for sg in S.sigma:
            e = np.linalg.eigvalsh((sg + sg.T) / 2)
            if e.min() <= rel * max(1.0, e.max()):
                return True
        return False

    def _run_segh(self, c):
        from nipy.algorithms.segmentation.segmentation import map_from_ppm
        X, Y, Z = c["shape"]; K = c["K"]; nch = c["nch"]
        lines, impl, tags = [], [], ["segh", "branch=" + c["branch"], "mask=" + c["mask_kind"], f"beta={c['beta']}"]
        st = {"fail": None, "pre": None, "nve": 0}
        keep = {}

        def check_state(S, what, mb):
            f = _simplex_fail(f"Segmentation.{what}: posterior map", S.ppm[mb], atol=1e-9)
            if f:
                st["fail"] = st["fail"] or f

        def observe(S, op, before):
            mb = np.zeros((X, Y, Z), dtype=bool); mb[S.XYZ[:, 0], S.XYZ[:, 1], S.XYZ[:, 2]] = True
            if np.all(np.isfinite(S.mu)) and np.all(np.isfinite(S.sigma)) and any(
                    np.allclose(S.mu[i], S.mu[j], rtol=1e-6, atol=1e-9) and np.allclose(S.sigma[i], S.sigma[j], rtol=1e-6, atol=1e-12)
                    for i in range(K) for j in range(i)):
                st["tied"] = True
            if before:
                if op[0] in ("ve", "run", "fe") and self._seg_degenerate(S):
                    tags.append("degenerate")
                    return False
                st["pre"] = {"ppm": S.ppm.copy(), "mu": S.mu.copy(), "sigma": S.sigma.copy()}
                if op[0] == "ve":
                    nef = S.normalized_external_field()
                    f = _simplex_fail("normalized_external_field", nef, atol=1e-12)
                    st["fail"] = st["fail"] or f
                    st["nef"] = nef
                    if S.beta != 0 and st["nve"] < 2 and f is None:
                        ppm0 = np.ascontiguousarray(S.ppm, dtype=float)
                        st["E"] = ve_sim(ppm0, np.ascontiguousarray(nef), S.XYZ, np.ascontiguousarray(S.U, dtype=float), S.ngb_size, S.beta)
                    else:
                        st["E"] = None
                return None
            pre = st["pre"]
            if not np.array_equal(S.ppm[~mb], pre["ppm"][~mb]):
                st["fail"] = st["fail"] or f"Segmentation {op[0]}: voxels outside the mask were modified"
            if op[0] == "ve":
                rows = S.ppm[mb]
                st["fail"] = st["fail"] or _simplex_fail("Segmentation.ve_step", rows, atol=1e-12)
                if S.beta == 0:
                    if not np.array_equal(rows, st["nef"].reshape(rows.shape)):
                        st["fail"] = st["fail"] or "ve_step (beta = 0) is not the normalised external field"
                    tags.append("ve-beta0")
                elif st["E"] is not None:
                    E = st["E"]; nef = st["nef"]; XYZ = S.XYZ
                    pts = " ".join(f"{int(XYZ[i, 0])} {int(XYZ[i, 1])} {int(XYZ[i, 2])} {frs(E[i])} {frs(nef[i].tolist())}"
                                   for i in range(XYZ.shape[0]))
                    lines.append(f"vestep {X} {Y} {Z} {K} {S.ngb_size} {fr(VE_TINY)} {_mat(S.U)} {_mat(pre['ppm'])} {XYZ.shape[0]} {pts}")
                    impl.append(("ve", rows.ravel().tolist(), [v for e in E for v in e], S.beta))
                    st["nve"] += 1
            elif op[0] in ("vm", "vmf"):
                frozen = set(op[1]) if op[0] == "vmf" else set()
                act = [k for k in range(K) if k not in frozen]
                for k in frozen:
                    if not (np.array_equal(S.mu[k], pre["mu"][k]) and np.array_equal(S.sigma[k], pre["sigma"][k])):
                        st["fail"] = st["fail"] or f"vm_step(freeze={sorted(frozen)}) changed the parameters of frozen class {k}"
                post = S.ppm[mb][:, act]
                if np.all(np.isfinite(S.mu)) and np.all(np.isfinite(S.sigma)):
                    lines.append(f"S vm {S.data.shape[0]} {nch} {len(act)} {fr(VM_TINY)} {_mat(S.data)} {_mat(post)}")
                    # sigma = E[x xᵀ] − mu muᵀ: rounding is relative to the second moments, not to sigma
                    impl.append(("sections", [S.mu[act].ravel().tolist(), S.sigma[act].ravel().tolist()], 1e-9,
                                 [0.0, float(np.max(np.abs(S.mu[act])) ** 2 + np.max(np.abs(S.sigma[act])))]))
            elif op[0] == "run":
                if op[1] > 0:
                    check_state(S, "run", mb)
                if not S.is_ppm:
                    st["fail"] = st["fail"] or "run() does not leave is_ppm set"
            elif op[0] == "map":
                lab = S._last
                rows = S.ppm[mb]
                want = np.zeros((X, Y, Z), dtype=int); want[mb] = rows.argmax(-1) + 1
                if not np.array_equal(lab, want):
                    st["fail"] = st["fail"] or "Segmentation.map is not the arg-max labelling (0 outside the mask)"
                nv = X * Y * Z
                lines.append(f"S map 1 {nv} {K} " + " ".join(str(int(b)) for b in mb.ravel()) + " " + _mat(S.ppm))
                impl.append(("str", " ".join(str(int(v)) for v in lab.ravel())))
            elif op[0] == "fe":
                q = S.ppm[mb]
                lef = S.log_external_field()
                f1 = float(np.sum(q * (np.log(np.maximum(q, 1e-50)) - lef)))
                en = c_interaction_energy(np.ascontiguousarray(S.ppm, dtype=float), S.XYZ, np.ascontiguousarray(S.U, dtype=float), S.ngb_size)
                en_py = energy_py(S.ppm, S.XYZ, np.asarray(S.U, dtype=float), S.ngb_size)
                if abs(en - en_py) > 1e-9 * max(1.0, abs(en_py)):
                    st["fail"] = st["fail"] or (f"_interaction_energy = {en!r}, but Σ_i q_iᵀ Σ_j U q_j over the "
                                                f"{S.ngb_size}-neighbourhoods is {en_py!r}")
                want = f1 + (S.beta * en_py if S.beta > 0 else 0.0)
                if not (math.isfinite(S._last) and abs(S._last - want) <= 1e-9 * max(1.0, abs(want))):
                    st["fail"] = st["fail"] or f"free_energy = {S._last!r}, entropy + beta·interaction = {want!r}"
                pts = " ".join(f"{int(v[0])} {int(v[1])} {int(v[2])}" for v in S.XYZ)
                lines.append(f"S energy {X} {Y} {Z} {K} {S.ngb_size} {_mat(S.U)} {_mat(S.ppm)} {S.XYZ.shape[0]} {pts}")
                impl.append(("rats", [en], 1e-9, 1e-12))
            return None

        fail = None
        try:
            S, mb, status = self._seg_replay(c, observe, keep=keep)
            fail = st["fail"]
        except np.linalg.LinAlgError:
            return {"lines": [], "impl": [], "nontrivial": False, "tags": tags + ["degenerate-raise"], "mutated": None,
                    "oracle": st["fail"]}
        except GlueRefusal as e:
            return {"lines": [], "impl": [], "nontrivial": True, "tags": tags + ["raised"], "mutated": None,
                    "oracle": f"Segmentation ({c['branch']} branch): the C glue refuses the object's own arrays: {e}"}
        # caller's arrays: the object must not have written through them.  `keep` holds the very objects
        # handed to Segmentation; compare with a fresh build of the same inputs.
        data0, kw0, _ = self._seg_inputs(c)
        fresh = {"data": data0, **{k: v for k, v in kw0.items() if isinstance(v, np.ndarray)}}
        mut = None
        for k in fresh:
            if k in keep and not (keep[k].shape == fresh[k].shape and np.array_equal(keep[k], fresh[k], equal_nan=True)):
                mut = k
                if fail is None:
                    fail = (f"Segmentation(data, {k}=…): the caller's `{k}` array was modified in place by the history "
                            f"{[o[0] for o in c['ops']]} (a second segmentation started from the same array would "
                            f"not start from the caller's values)")
        # equivariance of the whole history (memberships unchanged, parameters mapped)
        # (skipped when a class collapsed: the fitted variances are then rounding noise)
        # and when two classes start from identical parameters: the symmetric solution is unstable under the
        # MRF coupling, so rounding differences between the two runs are amplified without bound)
        tied = st.get("tied", False) or len({json_key(m, sg) for m, sg in zip(c["mu"], c["sigma"])}) < c["K"]
        if tied:
            tags.append("tied-classes")
        if fail is None and status == "ok" and c["branch"] == "musigma" and "degenerate" not in tags \
                and not tied and not self._seg_degenerate(S, 1e-6):
            a = np.array(c["a"], dtype=float); t = np.array(c["t"], dtype=float); p = list(c["perm"])
            quiet = lambda *_: None
            try:
                Sa, _, sa = self._seg_replay(c, quiet, a=a, t=t)
                if sa == "ok" and not self._seg_degenerate(Sa, 1e-6):
                    if not np.allclose(Sa.ppm, S.ppm, rtol=1e-6, atol=1e-9):
                        fail = (f"Segmentation: mapping the data per channel by x -> {a.tolist()}·x + {t.tolist()} (and mu, "
                                f"sigma accordingly) changes the posterior memberships")
                    elif not np.allclose(Sa.mu, S.mu * a + t, rtol=1e-6, atol=1e-6 * (1 + float(np.abs(S.mu).max()))):
                        fail = "Segmentation: fitted means do not follow the affine map of the data"
                    tags.append("affine")
                Sp, _, sp = self._seg_replay(c, quiet, perm=p)
                if fail is None and sp == "ok" and not self._seg_degenerate(Sp, 1e-6) \
                        and not np.allclose(Sp.ppm, S.ppm[..., p], rtol=1e-6, atol=1e-9):
                    fail = f"Segmentation: relabelling the classes by {p} does not permute the posterior map"
            except (np.linalg.LinAlgError, GlueRefusal):
                tags.append("affine-singular")
        if fail is None:
            lab = map_from_ppm(S.ppm, mb)
            want = np.zeros(mb.shape, dtype=int); want[mb] = S.ppm[mb].argmax(-1) + 1
            if not np.array_equal(lab, want):
                fail = "map_from_ppm(final ppm, mask) is not the arg-max labelling"
        tags += sorted({"op=" + o[0] for o in c["ops"]})
        if c["prior"] is not None:
            tags.append("prior")
        if c["U"] is not None:
            tags.append("U")
        return {"lines": lines, "impl": impl, "oracle": fail, "nontrivial": True, "tags": tags, "mutated": mut}

    # ------------------------------------------------------------------ BrainT1Segmentation
    def _run_brain(self, c):
        from nipy.algorithms.segmentation import brain_segmentation as bs
        from nipy.algorithms.segmentation import segmentation as sm
        X, Y, Z = c["shape"]
        data = np.array(c["data"], dtype=float).reshape(X, Y, Z)
        mb = np.array(c["mask"], dtype=bool).reshape(X, Y, Z)
        mask = None if c["mask_kind"] == "none" else mb if c["mask_kind"] == "bool" else np.where(mb)
        eff = np.ones((X, Y, Z), dtype=bool) if mask is None else mb
        model = c["model"]
        if model == "mat6":
            model = np.array([[1, 0, 0], [1, 0, 0], [0, 1, 0], [0, 1, 0], [0, 0, 1], [0, 0, 1]], dtype=float)
        elif model == "mat3":
            model = np.array([[1, 0, 0], [0.5, 0.5, 0], [0, 0.25, 0.75]], dtype=float)
        ncl = 3 if isinstance(model, str) and model == "3k" else 4 if isinstance(model, str) and model == "4k" else \
            5 if isinstance(model, str) else model.shape[0]
        init = None
        if c["init"]:
            lo, hi = float(data[eff].min()), float(data[eff].max())
            init = (np.linspace(lo, hi, ncl + 2)[1:-1], np.full(ncl, ((hi - lo) / ncl) ** 2 + 1.0))
        snap = Snapshot(data=data, mask=mb)
        old = sm._ve_step
        sm._ve_step = c_ve_step
        tags = ["brain", "model=" + str(c["model"]), "mask=" + c["mask_kind"]]
        try:
            # convert=True is `__init__(convert=False)` followed by `convert()`: done in two steps to see
            # the posterior map before the conversion
            B = bs.BrainT1Segmentation(data, mask=mask, model=model, niters=c["niters"], ngb_size=c["ngb"],
                                       beta=c["beta"], init_params=init, convert=False)
            pre = B.ppm.copy()
            if c["convert"]:
                B.convert()
        finally:
            sm._ve_step = old
        fail = None
        lines, impl = [], []
        sig_ok = np.all(np.isfinite(B.sigma)) and float(np.min(B.sigma)) > 1e-6 * float(np.var(data[eff]) + 1)
        rows = B.ppm[eff]
        if not sig_ok:
            tags.append("degenerate")
        elif c["niters"] > 0:
            fail = _simplex_fail("BrainT1Segmentation: posterior map" + (" after convert" if c["convert"] else ""), rows, atol=1e-9)
        if fail is None and np.all(np.isfinite(rows)):
            want = np.zeros((X, Y, Z), dtype=int)
            want[eff] = rows.argmax(-1) + 1
            if not np.array_equal(B.label, want):
                fail = "BrainT1Segmentation.label is not the arg-max of its posterior map"
            if c["convert"] and rows.shape[1] != 3:
                fail = fail or "convert() did not produce the three tissue classes"
        if fail is None and c["convert"] and sig_ok and c["niters"] > 0 and rows.size:
            M = B.mixmat
            lines.append(f"S convert {M.shape[0]} 3 {_mat(M)} {_mat(pre[eff][0])}")
            impl.append(("rats", rows[0].tolist(), 1e-9, 1e-12))
            tags.append("convert")
        return {"lines": lines, "impl": impl, "oracle": fail, "nontrivial": True, "tags": tags, "mutated": snap.changed()}

    # ------------------------------------------------------------------ shrinking
    def shrink_seg(self, case):
        k = case["kind"]
        if k == "segh":
            ops = case["ops"]
            for i in range(len(ops)):
                if i == 0 and case["branch"] == "ppm":
                    continue
                rest = ops[:i] + ops[i + 1:]
                if rest:
                    c = dict(case); c["ops"] = rest
                    yield c
            for key in ("prior", "U"):
                if case.get(key) is not None:
                    c = dict(case); c[key] = None
                    yield c
        if k == "edges":
            X, Y, Z = case["shape"]
            idx = np.array(case["idx"]).reshape(X, Y, Z)
            for ax in range(3):
                if idx.shape[ax] > 1:
                    for sl in (slice(1, None), slice(0, -1)):
                        sub = idx[tuple(sl if a == ax else slice(None) for a in range(3))]
                        c = dict(case); c["shape"] = list(sub.shape); c["idx"] = [int(v) for v in sub.ravel()]
                        yield c
            if case["layout"] != "C":
                c = dict(case); c["layout"] = "C"
                yield c
        if k == "binar" and case["shape"][0] > 1:
            for i in range(case["shape"][0]):
                c = dict(case); c["shape"] = [case["shape"][0] - 1]; c["ppm"] = case["ppm"][:i] + case["ppm"][i + 1:]
                c["mask"] = case["mask"][1:]
                yield c
        if k == "mapppm" and len(case["shape"]) > 1:
            c = dict(case)
            n0 = int(np.prod(case["shape"][1:]))
            if case["shape"][0] > 1:
                c["shape"] = [case["shape"][0] - 1] + case["shape"][1:]
                c["ppm"] = case["ppm"][n0:]; c["mask"] = case["mask"][n0:]
                yield c
